"""C19 -- backends see exactly the routes and attributes the command line
selects.  Structural part (DESIGN 4/C19): LALR precedence/associativity of the
filter grammar, evaluator truth tables, pruning keeps by-name tables paired and
covers every named namespace, every error path exits before the compiler is
built.
"""
import ast
import os
import sys

from ..model import call_name, own_nodes, unparse
from ..model import self_assigns
from ..pathcond import path_info
from ..paths import enumerate_paths

PROP = 'C19'
H = 'stone.cli_helpers'
CLI = 'stone.cli'
EXPLANATION = (
    'Grammar-table and guard analysis of the command-line selection code. R1: the productions '
    'and the precedence tuple of FilterExprParser are read from the ast; OR must be declared '
    'before (lower than) AND, both left-associative; p_expr_group builds '
    'Conjunction(op=p[2], lhs=p[1], rhs=p[3]) and the parenthesised production returns the inner '
    'node; the thorough tier feeds the extracted grammar to the vendored ply LALR generator and '
    'inspects the action table in every state holding a completed binary item (reduce on AND/OR '
    'after `expr AND expr`; shift AND / reduce OR after `expr OR expr`). R2: evaluator truth '
    'tables -- every return of Predicate.eval is under exactly one operator test and compares '
    'route.attrs.get(lhs, None) with rhs by the matching Python operator; Conjunction.eval maps '
    '"and"/"or" to and/or; the keyword table maps the words to the tokens. R3: each pruning block '
    'of cli.main resets routes together with both by-name tables, for every namespace the option '
    'names (inside the loop over the option values), and refills go through add_route; -a trims '
    'route.attrs and the schema with one and the same name set. R4: filter errors (lexer errors '
    'merged unconditionally), unknown -w/-b namespaces and unknown -a names each reach '
    'sys.exit(1) before Compiler(...) is constructed; `:all` keeps the other given names. '
    'Decides these structural parts; argparse behaviour itself is trusted.'
    ' RD (effect-condition drift, stonelint.effects): for the functions this property is anchored in (stonelint.ownership) the path formula of every raise / return / continue / break / assignment / call statement is compared with reference/effects.json by truth table over the leaf tests (so nested vs merged tests, guard clauses vs if/else ladders, De Morgan forms read alike); an effect lost on a path, or a control effect gained on one, is a violation; changed texts and re-spelled tests are not claimed.'
    " RE (expression drift, stonelint.exprdrift): the same functions' attribute names, variable reads, simple statements, calls and arithmetic/slice literals are compared with reference/expressions.json; a substituted attribute or variable, a dropped call or assignment, swapped arguments or a changed literal is a violation; any other edit is not claimed. RC (call-condition drift, stonelint.effects.run_calls): for every call of a repository or imported-library function in those functions, the path conditions of its occurrences are compared with reference/effects.json by truth table; an assignment under which the function used to make the call and now completes without it is a violation (tests on memo tables, emptiness of the iterated collection and earlier refusals excepted; re-spelled conditions are not claimed). MK (memo-key rule, stonelint.memo): a memo table or done-set the reference tree does not have must be keyed by every access path the skipped code reads, injectively and type-aware."
    ' GR (stonelint.grammar): the filter grammar (BNF docstrings, precedence) and the filter lexer tables (token regexes, keyword table, ignored characters) are extracted with ast; well-formedness, p[k] bounds, and against reference/grammar.json the token-level language (witness sentence on which the two LALR tables disagree) and the first token on every probe text (witness text).'
    ' RI (interface drift, stonelint.interface): constants and tables (folded values), compiled regular expressions (witness text), parameter defaults, special methods, base classes and caching decorators of the modules the property rests on are compared with reference/interface.json; only a concrete difference in what is computed is reported.'
    ' MU (mutation drift, stonelint.mutation): the functions the property rests on update in place only the caller-owned, class-level and module-level objects they updated on the confirmed tree, and have no new handler that swallows an exception (reference/mutations.json).')
ASSUMPTIONS = [
    'yacc precedence semantics: entries later in the precedence tuple bind tighter; on a '
    'shift/reduce conflict equal precedence + left associativity reduces (ply documentation)',
    'thorough tier executes only the vendored third-party ply table generator, on a grammar '
    'extracted by ast from the working tree (DESIGN section 1)',
]


def extract_grammar(pm):
    cls = pm.cls(H + '.FilterExprParser')
    prods = []
    for name, f in cls.methods.items():
        if not name.startswith('p_') or name == 'p_error':
            continue
        doc = ast.get_docstring(f.node, clean=False)
        if not doc:
            continue
        lhs = None
        for part in doc.replace('\n', ' ').split('|'):
            part = part.strip()
            if ':' in part:
                lhs, rhs = part.split(':', 1)
                lhs = lhs.strip()
            else:
                rhs = part
            prods.append((lhs, rhs.split(), name, f))
    prec = pm.lookup_class_attr(cls, 'precedence')
    precedence = []
    if isinstance(prec, ast.Tuple):
        for e in prec.elts:
            if isinstance(e, ast.Tuple) and all(isinstance(x, ast.Constant) for x in e.elts):
                precedence.append(tuple(x.value for x in e.elts))
    return cls, prods, precedence


def run(pm, ctx):
    for r, t in (('C19-R1', 'filter grammar: precedence, associativity, tree construction'),
                 ('C19-R2', 'evaluator truth tables'),
                 ('C19-R3', 'pruning: paired tables, every named namespace, refill via add_route'),
                 ('C19-R4', 'errors exit before the compiler is built')):
        ctx.rule(r, t)
    cls, prods, precedence = extract_grammar(pm)

    # ---------------- R1
    ctx.check('C19-R1', precedence == [('left', 'OR'), ('left', 'AND')],
              'precedence = OR lower than AND, both left-associative', cls.module.relpath,
              msg='precedence table is %r: `a or b and c` would no longer parse as '
                  'a or (b and c) / chains would not associate to the left' % (precedence,),
              key='C19-R1|precedence')
    binp = [(l, r, n, f) for l, r, n, f in prods if len(r) == 3 and r[0] == r[2] == 'expr'
            and r[1] in ('AND', 'OR')]
    ctx.check('C19-R1', sorted(r[1] for _, r, _, _ in binp) == ['AND', 'OR'] and
              len({n for _, _, n, _ in binp}) == 1,
              'binary productions expr AND expr | expr OR expr share one action', cls.module.relpath,
              msg='binary productions changed: %s' % [(l, r) for l, r, _, _ in binp],
              key='C19-R1|productions')
    if binp:
        f = binp[0][3]
        st = [n for n in own_nodes(f.node) if isinstance(n, ast.Assign) and
              unparse(n.targets[0]) == 'p[0]']
        ok = len(st) == 1 and isinstance(st[0].value, ast.Call) and \
            call_name(st[0].value) == 'FilterExprConjunction' and \
            [unparse(a) for a in st[0].value.args] == ['p[2]', 'p[1]', 'p[3]']
        ctx.check('C19-R1', ok, 'binary action builds Conjunction(op, lhs, rhs) = (p[2], p[1], p[3])',
                  f.loc, msg='the binary action builds %s' % (unparse(st[0].value) if st else '?'),
                  key='C19-R1|%s|tree' % f.qualname)
    par = [(l, r, n, f) for l, r, n, f in prods if r == ['LPAR', 'expr', 'RPAR']]
    ok = len(par) == 1 and any(isinstance(n, ast.Assign) and unparse(n) == 'p[0] = p[2]'
                               for n in own_nodes(par[0][3].node))
    ctx.check('C19-R1', ok, 'parenthesised expression returns the inner node', cls.module.relpath,
              msg='LPAR expr RPAR no longer yields the inner expression', key='C19-R1|parens')
    pred = [(l, r, n, f) for l, r, n, f in prods if l == 'pred']
    ok = len(pred) == 1 and pred[0][1] == ['ID', 'op', 'primitive'] and any(
        isinstance(n, ast.Assign) and isinstance(n.value, ast.Call) and
        call_name(n.value) == 'FilterExprPredicate' and
        [unparse(a) for a in n.value.args] == ['p[2]', 'p[1]', 'p[3]']
        for n in own_nodes(pred[0][3].node))
    ctx.check('C19-R1', ok, 'pred : ID op primitive builds Predicate(op, attr, literal)',
              cls.module.relpath, msg='the predicate production/action changed',
              key='C19-R1|pred')
    ctor = pm.func(H + '.FilterExprConjunction.__init__')
    st = self_assigns(ctor.node)
    ctx.check('C19-R1', ctor.params[1:] == ['conj', 'lhs', 'rhs'] and st ==
              {'self.conj': 'conj', 'self.lhs': 'lhs', 'self.rhs': 'rhs'},
              'Conjunction stores (conj, lhs, rhs) under their own names', ctor.loc,
              msg='Conjunction constructor mixes its arguments: %s' % st,
              key='C19-R1|%s' % ctor.qualname)
    ctor = pm.func(H + '.FilterExprPredicate.__init__')
    st = self_assigns(ctor.node)
    ctx.check('C19-R1', ctor.params[1:] == ['op', 'lhs', 'rhs'] and st ==
              {'self.op': 'op', 'self.lhs': 'lhs', 'self.rhs': 'rhs'},
              'Predicate stores (op, lhs, rhs) under their own names', ctor.loc,
              msg='Predicate constructor mixes its arguments: %s' % st,
              key='C19-R1|%s' % ctor.qualname)

    # ---------------- R2
    pe = pm.func(H + '.FilterExprPredicate.eval')
    pi = path_info(pe.node)
    rets = [r for r in own_nodes(pe.node) if isinstance(r, ast.Return)]
    seen = {}
    good = bool(rets)
    for r in rets:
        ops = [(unparse(e), pol) for e, pol in pi.at(r)]
        pos = [t for t, pol in ops if pol]
        cmp_ = r.value
        if not (isinstance(cmp_, ast.Compare) and len(cmp_.ops) == 1 and
                unparse(cmp_.left) == 'val' and unparse(cmp_.comparators[0]) == 'self.rhs'):
            good = False
            continue
        pyop = type(cmp_.ops[0]).__name__
        if len(pos) != 1:
            good = False
            continue
        seen[pos[0]] = pyop
    ctx.check('C19-R2', good and seen == {"self.op == '='": 'Eq', "self.op == '!='": 'NotEq'},
              'Predicate.eval: "=" -> ==, "!=" -> != on (val, rhs), and nothing else returns',
              pe.loc, msg='Predicate.eval returns %s%s' % (
                  seen, '' if good else ' plus a return that is not an operator-guarded comparison '
                                        'of val with rhs (e.g. a null fast path that ignores the '
                                        'operator)'), key='C19-R2|%s|table' % pe.qualname)
    vs = [n for n in own_nodes(pe.node) if isinstance(n, ast.Assign) and
          unparse(n.targets[0]) == 'val']
    ctx.check('C19-R2', len(vs) == 1 and unparse(vs[0].value) in (
        'route.attrs.get(self.lhs, None)', 'route.attrs.get(self.lhs)'),
        'an absent attribute evaluates as null', pe.loc,
        msg='val is computed as %s' % [unparse(v.value) for v in vs],
        key='C19-R2|%s|absent' % pe.qualname)
    ce = pm.func(H + '.FilterExprConjunction.eval')
    pi = path_info(ce.node)
    table = {}
    for r in own_nodes(ce.node):
        if isinstance(r, ast.Return) and isinstance(r.value, ast.BoolOp):
            pos = [unparse(e) for e, pol in pi.at(r) if pol]
            vals = [unparse(v) for v in r.value.values]
            if vals == ['self.lhs.eval(route)', 'self.rhs.eval(route)'] and len(pos) == 1:
                table[pos[0]] = type(r.value.op).__name__
    ctx.check('C19-R2', table == {"self.conj == 'and'": 'And', "self.conj == 'or'": 'Or'},
              'Conjunction.eval: "and" -> and, "or" -> or over both operands', ce.loc,
              msg='Conjunction.eval truth table is %s' % table,
              key='C19-R2|%s|table' % ce.qualname)
    kw = pm.lookup_class_attr(pm.cls(H + '.FilterExprLexer'), 'KEYWORDS')
    ctx.check('C19-R2', kw is not None and unparse(kw) == "{'and': 'AND', 'or': 'OR'}",
              'the words and/or lex as the tokens AND/OR', pm.cls(H + '.FilterExprLexer').module.relpath,
              msg='keyword table is %s' % (unparse(kw) if kw is not None else None),
              key='C19-R2|keywords')
    lx = pm.cls(H + '.FilterExprLexer')
    ctx.check('C19-R2', unparse(lx.attrs.get('t_NEQ')) == "'!='" and
              unparse(lx.attrs.get('t_EQ')) == "'='",
              'operators lex as "=" and "!="', lx.module.relpath,
              msg='operator token patterns changed', key='C19-R2|operators')
    tid = pm.func(H + '.FilterExprLexer.t_ID')
    ctx.check('C19-R2', any(isinstance(n, ast.Assign) and unparse(n) ==
                            'token.type = self.KEYWORDS[token.value]' for n in own_nodes(tid.node)),
              't_ID retypes keyword identifiers', tid.loc,
              msg='identifiers and/or are no longer retyped to AND/OR', key='C19-R2|t_ID')
    for nm, conv in (('t_BOOLEAN', "token.value == 'true'"), ('t_NULL', 'None'),
                     ('t_FLOAT', 'float(token.value)'), ('t_INTEGER', 'int(token.value)'),
                     ('t_STRING', 'token.value[1:-1]')):
        f = pm.func(H + '.FilterExprLexer.' + nm)
        st = [unparse(n.value) for n in own_nodes(f.node) if isinstance(n, ast.Assign) and
              unparse(n.targets[0]) == 'token.value']
        ctx.check('C19-R2', st == [conv], '%s converts the literal with %s' % (nm, conv), f.loc,
                  msg='%s converts the literal with %s' % (nm, st),
                  key='C19-R2|%s' % f.qualname)
    # word literals (true/false/null) are delimited by word boundaries on both sides, so that an
    # attribute name which merely starts or ends with one is still lexed as an identifier
    import re as _re
    for nm in ('t_BOOLEAN', 't_NULL'):
        f = pm.func(H + '.FilterExprLexer.' + nm)
        doc = ast.get_docstring(f.node, clean=False)
        ok_b = False
        if doc:
            try:
                tree = _re._parser.parse(doc)
                AT, BOUND, BRANCH = (_re._constants.AT, _re._constants.AT_BOUNDARY,
                                     _re._constants.BRANCH)

                def edge(seq, idx):
                    seq = list(seq)
                    if not seq:
                        return False
                    op, av = seq[idx]
                    if (op, av) == (AT, BOUND):
                        return True
                    if op is BRANCH:
                        return all(edge(alt, idx) for alt in av[1])
                    return False
                ok_b = edge(tree, 0) and edge(tree, -1)
            except Exception:
                ok_b = False
        ctx.check('C19-R2', ok_b, '%s matches whole words only (\\b on both sides)' % nm, f.loc,
                  msg='%s pattern %r is not delimited by word boundaries on both sides: an '
                      'attribute named e.g. nullable or trueish is split into a literal and an '
                      'identifier' % (nm, doc), key='C19-R2|%s|boundaries' % f.qualname)

    # ---------------- R3
    main = pm.func(CLI + '.main')
    pi = path_info(main.node)
    resets = [n for n in own_nodes(main.node) if isinstance(n, ast.Assign) and
              unparse(n) == 'namespace.routes = []']
    ctx.check('C19-R3', len(resets) == 3, 'three pruning sites reset namespace.routes (-w, -b, -f)',
              main.loc, msg='expected 3 pruning sites, found %d' % len(resets),
              key='C19-R3|sites')
    for n in resets:
        blk, i = pi.block_of[id(n)]
        sib = [unparse(s) for s in blk]
        ok = 'namespace.route_by_name = {}' in sib and 'namespace.routes_by_name = {}' in sib
        ctx.check('C19-R3', ok, 'routes reset together with route_by_name and routes_by_name',
                  '%s:%d' % (main.module.relpath, n.lineno),
                  msg='a pruning block resets routes but not both by-name tables',
                  key='C19-R3|paired@%s' % _site(pi, n))
        loops = [unparse(l.iter) for l in pi.loops_at(n)]
        conds = [(unparse(e), pol) for e, pol in pi.at(n)]
        kind = _site(pi, n)
        if kind == 'whitelist':
            ok = 'api.namespaces.values()' in loops and \
                ('namespace.name not in args.whitelist_namespace_routes', True) in conds
            what = 'every namespace not named by -w'
        elif kind == 'blacklist':
            ok = 'args.blacklist_namespace_routes' in loops and any(
                isinstance(s, ast.Assign) and unparse(s) ==
                'namespace = api.namespaces[namespace_name]' for s in blk[:i])
            what = 'every namespace named by -b (inside the loop over the option values)'
        else:
            ok = 'api.namespaces.values()' in loops and ('route_filter', True) in conds
            what = 'every namespace when a route filter is given'
        ctx.check('C19-R3', ok, 'pruning applies to %s' % what,
                  '%s:%d' % (main.module.relpath, n.lineno),
                  msg='the %s pruning no longer applies to %s (loops %s, conditions %s)' % (
                      kind, what, loops, conds), key='C19-R3|scope@%s' % kind)
    fl = [l for l in own_nodes(main.node) if isinstance(l, ast.For) and
          unparse(l.iter) == 'filtered_routes']
    ok = len(fl) == 1 and any(isinstance(c, ast.Call) and unparse(c) == 'namespace.add_route(route)'
                              for c in ast.walk(fl[0]))
    from ..model import element_sites
    keep = [l for l in element_sites(main.node) if unparse(l['iter']) == 'namespace.routes' and
            unparse(l['elt']) == 'route']
    ok = ok and len(keep) == 1 and [(unparse(e), pol) for e, pol in pi.at(keep[0]['node'])
                                    if 'eval' in unparse(e)] == [('route_filter.eval(route)', True)]
    ctx.check('C19-R3', ok, 'a route survives -f exactly when the filter evaluates true and is '
              're-registered through add_route', main.loc,
              msg='route filtering no longer keeps exactly the routes the expression accepts',
              key='C19-R3|filter')
    # -a: one name set trims routes and schema
    dels = [n for n in own_nodes(main.node) if isinstance(n, ast.Delete)]
    rm = [c for c in own_nodes(main.node) if isinstance(c, ast.Call) and
          unparse(c.func) == 'api.route_schema.fields.remove']
    ok = any(unparse(d) == 'del route.attrs[k]' and
             ('k not in attrs', True) in [(unparse(e), p) for e, p in pi.at(d)] for d in dels) and \
        len(rm) == 1 and ('field.name not in attrs', True) in [
            (unparse(e), p) for e, p in pi.at(rm[0])]
    # the three route tables are filled together by add_route: the list and the versioned table
    # for every route, the single-version table for version 1 only
    ar = pm.func('stone.ir.api.ApiNamespace.add_route')
    pia = path_info(ar.node)
    stores = {}
    for n in own_nodes(ar.node):
        if isinstance(n, ast.Assign) and isinstance(n.targets[0], ast.Subscript):
            stores.setdefault(unparse(n.targets[0].value), []).append(
                sorted((unparse(e), p) for e, p in pia.at(n)))
        if isinstance(n, ast.Call) and isinstance(n.func, ast.Attribute) and \
                n.func.attr == 'append' and unparse(n.func.value) == 'self.routes':
            stores.setdefault('self.routes', []).append(
                sorted((unparse(e), p) for e, p in pia.at(n)))
    ok_ar = stores.get('self.routes') == [[]] and \
        stores.get('self.route_by_name') == [[('route.version == 1', True)]] and \
        stores.get('self.routes_by_name[route.name].at_version') == [[]]
    foreign = [t for t in stores if t not in ('self.routes', 'self.route_by_name',
                                              'self.routes_by_name',
                                              'self.routes_by_name[route.name].at_version')]
    for n in own_nodes(ar.node):
        if isinstance(n, ast.Call) and isinstance(n.func, ast.Attribute) and \
                n.func.attr in ('setdefault', 'update', 'insert', 'extend') and \
                unparse(n.func.value).startswith('self.'):
            foreign.append(unparse(n.func.value))
    ok_ar = ok_ar and not foreign
    ctx.check('C19-R3', ok_ar, 'add_route: routes and routes_by_name always, route_by_name exactly '
              'for version 1, and nothing but the given route is registered', ar.loc,
              msg='ApiNamespace.add_route fills its tables under %s: after pruning, the by-name '
                  'tables disagree with the route list' % stores,
              key='C19-R3|%s' % ar.qualname)
    ctx.check('C19-R3', ok, '-a trims route.attrs and the route schema with the same name set',
              main.loc, msg='-a no longer trims routes and schema by membership in the given names',
              key='C19-R3|attrs')

    # ---------------- R4
    comp = [c for c in own_nodes(main.node) if isinstance(c, ast.Call) and call_name(c) == 'Compiler']
    comp_line = comp[0].lineno if comp else 10 ** 9
    exits = [c for c in own_nodes(main.node) if isinstance(c, ast.Call) and
             unparse(c.func) == 'sys.exit']

    def exit_under(pred):
        for c in exits:
            ats = [(unparse(e), pol) for e, pol in pi.at(c)]
            loops = [unparse(l.iter) for l in pi.loops_at(c)]
            if pred(ats, loops) and c.lineno < comp_line and unparse(c.args[0]) == '1':
                return True
        return False
    ctx.check('C19-R4', exit_under(lambda a, l: ('route_filter_errors', True) in a),
              'filter errors exit 1 before the compiler is built', main.loc,
              msg='filter expression errors no longer stop the run', key='C19-R4|filter-errors')
    ctx.check('C19-R4', exit_under(lambda a, l: ('namespace_name not in api.namespaces', True) in a
                                   and 'args.whitelist_namespace_routes' in l),
              'unknown -w namespace exits 1', main.loc,
              msg='an unknown -w namespace is no longer an error', key='C19-R4|whitelist-unknown')
    ctx.check('C19-R4', exit_under(lambda a, l: ('namespace_name not in api.namespaces', True) in a
                                   and 'args.blacklist_namespace_routes' in l),
              'unknown -b namespace exits 1', main.loc,
              msg='an unknown -b namespace is no longer an error', key='C19-R4|blacklist-unknown')
    ctx.check('C19-R4', exit_under(lambda a, l: ('attrs', True) in a),
              'unknown -a attribute exits 1', main.loc,
              msg='an unknown -a attribute is no longer an error', key='C19-R4|attr-unknown')
    allb = [n for n in own_nodes(main.node)
            if ("':all' in attrs", True) in [(unparse(e), p) for e, p in pi.at(n)] and
            isinstance(n, (ast.Assign, ast.AugAssign, ast.Expr))]
    replaced = any(isinstance(n, ast.Assign) and unparse(n.targets[0]) == 'attrs' and
                   'attrs' not in unparse(n.value) for n in allb)
    ctx.check('C19-R4', allb and not replaced,
              '`:all` adds the schema names to the given names instead of replacing them', main.loc,
              msg='`-a :all` replaces the user-supplied names: unknown names given next to it are '
                  'silently ignored', key='C19-R4|all-keeps-names')
    pp = pm.func(H + '.FilterExprParser.parse')
    ppi = path_info(pp.node)
    merges = [n for n in own_nodes(pp.node) if isinstance(n, ast.Assign) and
              unparse(n.targets[0]) == 'self.errors' and 'self.lexer.errors' in unparse(n.value)]
    ok = len(merges) == 1 and not ppi.at(merges[0]) and any(
        isinstance(r, ast.Return) and 'self.errors' in unparse(r.value)
        for r in own_nodes(pp.node))
    ctx.check('C19-R4', ok, 'FilterExprParser.parse merges lexer errors unconditionally and returns '
              'them', pp.loc, msg='lexer errors (illegal characters) are not always reported',
              key='C19-R4|%s|lexer-errors' % pp.qualname)
    te = pm.func(H + '.FilterExprLexer.t_error')
    ctx.check('C19-R4', any(isinstance(c, ast.Call) and unparse(c.func) == 'self.errors.append'
                            for c in own_nodes(te.node)),
              'illegal characters are recorded', te.loc,
              msg='illegal characters are skipped silently', key='C19-R4|%s' % te.qualname)
    perr = pm.func(H + '.FilterExprParser.p_error')
    n_app = sum(1 for c in own_nodes(perr.node) if isinstance(c, ast.Call) and
                unparse(c.func) == 'self.errors.append')
    ctx.check('C19-R4', n_app == 2, 'syntax errors and unexpected end are recorded', perr.loc,
              msg='p_error records %d kinds of error' % n_app, key='C19-R4|%s' % perr.qualname)

    from ..effects import run_decisions
    from ..ownership import OWN
    run_decisions(pm, ctx, 'C19-RD', OWN['C19'])
    from .. import exprdrift
    exprdrift.run(pm, ctx, 'C19-RE', OWN['C19'])
    from ..effects import run_calls
    run_calls(pm, ctx, 'C19-RC', OWN['C19'])
    from .. import memo
    memo.run(pm, ctx, 'C19-MK', OWN['C19'])
    from .. import interface
    interface.run(pm, ctx, 'C19-RI', OWN['C19'])
    from .. import mutation
    mutation.run(pm, ctx, 'C19-MU', OWN['C19'])
    from .. import grammar
    grammar.run(pm, ctx, 'C19-GR', lang='filter')


def _site(pi, n):
    conds = ' '.join(unparse(e) for e, _ in pi.at(n))
    if 'whitelist_namespace_routes' in conds:
        return 'whitelist'
    if 'blacklist_namespace_routes' in conds:
        return 'blacklist'
    return 'filter'


def run_thorough(pm, ctx):
    """LALR(1) action-table inspection with the vendored ply generator."""
    ctx.rule('C19-R1t', 'LALR action table: in every state with a completed binary item the '
                        'action on AND/OR is the one boolean grammar requires')
    cls, prods, precedence = extract_grammar(pm)
    sys.path.insert(0, pm.repo)
    try:
        for m in [k for k in sys.modules if k == 'stone' or k.startswith('stone.')]:
            del sys.modules[m]
        from stone._vendor.ply import yacc
    finally:
        sys.path.remove(pm.repo)
    toks = pm.lookup_class_attr(pm.cls(H + '.FilterExprLexer'), 'tokens')
    terminals = ['ID', 'LPAR', 'RPAR', 'AND', 'OR', 'NEQ', 'EQ', 'BOOLEAN', 'FLOAT', 'INTEGER',
                 'NULL', 'STRING']
    g = yacc.Grammar(terminals)
    for i, (assoc, *terms) in enumerate(precedence):
        for t in terms:
            g.set_precedence(t, assoc, i + 1)
    for lhs, rhs, name, f in prods:
        g.add_production(lhs, rhs, name, f.module.relpath, f.node.lineno)
    g.set_start('expr')
    g.compute_first()
    g.compute_follow()
    class _Table(yacc.LRGeneratedTable):
        def lr0_items(self):
            C_ = yacc.LRGeneratedTable.lr0_items(self)
            self._C = C_
            return C_
    lr = _Table(g, 'LALR')
    C = lr._C
    n_states = 0
    for st, I in enumerate(C):
        for it in I:
            body = tuple(it.prod)
            if body in (('expr', 'AND', 'expr', '.'), ('expr', 'OR', 'expr', '.')):
                op = body[1]
                n_states += 1
                for la in ('AND', 'OR'):
                    act = lr.lr_action[st].get(la)
                    want_reduce = (op == 'AND') or (op == 'OR' and la == 'OR')
                    ok = (act is not None) and ((act < 0) == want_reduce)
                    ctx.check('C19-R1t', ok,
                              'state %d: after `expr %s expr` on %s -> %s' % (
                                  st, op, la, 'reduce' if want_reduce else 'shift'),
                              cls.module.relpath,
                              msg='LALR state %d: after `expr %s expr` the action on %s is %r '
                                  '(expected %s): precedence/associativity of the filter grammar '
                                  'is wrong' % (st, op, la, act,
                                                'reduce' if want_reduce else 'shift'),
                              key='C19-R1t|%s-then-%s' % (op, la))
    ctx.floor('C19-R1t', n_states, 2, 'LALR states with a completed binary item')
    ctx.extra['lalr_states'] = len(C)
    ctx.extra['lalr_conflicts_sr'] = len(lr.sr_conflicts)
