"""Generated-name formatter normalisation for the Python backends (A5).

``norm(pm, module, expr)`` maps an expression that produces a generated
identifier to a canonical tuple
    (base, subject, reserved_check, version, ns_prefixed)
with base in {'underscores', 'pascal', 'raw'}, so a definition site and a
reference site can be compared.  The bases are *derived* from the helper
bodies in python_helpers.py on every run (fmt_var/fmt_func call
fmt_underscores on their first parameter, fmt_class/class_name_for_* call
fmt_pascal), never assumed.
"""
import ast

from ..model import FuncInfo, call_name, own_nodes, unparse

HELPERS = 'stone.backends.python_helpers'


def helper_bases(pm):
    """{'fmt_var': 'underscores', ...} derived from python_helpers.py."""
    cache = getattr(pm, '_pyname_bases', None)
    if cache is not None:
        return cache
    out = {}
    m = pm.module(HELPERS)
    for name, f in m.functions.items():
        if not f.params:
            continue
        first = f.params[0]
        base = None
        for c in own_nodes(f.node):
            if isinstance(c, ast.Call) and c.args and isinstance(c.args[0], ast.Name) and \
                    c.args[0].id == first:
                nm = call_name(c)
                if nm == 'fmt_underscores':
                    base = 'underscores'
                elif nm == 'fmt_pascal':
                    base = 'pascal'
            elif isinstance(c, ast.Call) and c.args and call_name(c) in out and \
                    isinstance(c.args[0], ast.Attribute) and c.args[0].attr == 'name' and \
                    isinstance(c.args[0].value, ast.Name) and c.args[0].value.id == first:
                base = out[call_name(c)] + ':name'
        if base:
            out[name] = base
    # second pass for helpers defined before the ones they call
    for name, f in m.functions.items():
        if name in out or not f.params:
            continue
        first = f.params[0]
        for c in own_nodes(f.node):
            if isinstance(c, ast.Call) and c.args and call_name(c) in out and \
                    isinstance(c.args[0], ast.Attribute) and c.args[0].attr == 'name' and \
                    isinstance(c.args[0].value, ast.Name) and c.args[0].value.id == first:
                out[name] = out[call_name(c)] + ':name'
    pm._pyname_bases = out
    return out


def norm(pm, module, expr):
    """Canonical form of a name-producing expression, or None."""
    bases = helper_bases(pm)
    if isinstance(expr, ast.Call):
        nm = call_name(expr)
        r = pm.resolve_expr(module, expr.func)
        if isinstance(r, FuncInfo) and r.module.name == HELPERS and nm in bases and expr.args:
            base = bases[nm]
            subj = unparse(expr.args[0])
            if base.endswith(':name'):
                base = base[:-5]
                subj = subj + '.name'
            flags = {k.arg: unparse(k.value) for k in expr.keywords}
            pos = [unparse(a) for a in expr.args[1:]]
            params = r.params[1:]
            for i, a in enumerate(pos):
                if i < len(params):
                    flags[params[i]] = a
            reserved = flags.get('check_reserved', 'False') == 'True'
            version = flags.get('version', '1')
            ns = flags.get('ns', None)
            return (base, subj, reserved, version, ns is not None and ns != 'None')
    if isinstance(expr, ast.Attribute) and expr.attr == 'name':
        return ('raw', unparse(expr), False, '1', False)
    return None


def same_name(a, b, ignore_subject=False):
    if a is None or b is None:
        return False
    if ignore_subject:
        return (a[0],) + a[2:4] == (b[0],) + b[2:4]
    return a[:4] == b[:4]
