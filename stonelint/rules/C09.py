"""C09 -- generated Python modules load and expose the whole API as documented.

Structural part (DESIGN 4/C09): emission order follows definition-before-use
of generated names; the expression defining a generated identifier and every
expression referencing it normalise to the same formatter chain; parent-first
linearisation; cross-namespace imports are registered on every path that
resolves a foreign name; the declared surface is emitted for all fields, tags
and routes.  Actual importability is not decided.
"""
import ast

from .. import totality
from ..lattice import ir_family, reaching_classes
from ..model import call_name, own_nodes, unparse
from ..pathcond import assigned_alternatives, path_info
from ..paths import enumerate_paths, path_calls
from ._pynames import helper_bases, norm
from .C10 import emission_order

PROP = 'C09'
PT = 'stone.backends.python_types'
PTB = PT + '.PythonTypesBackend'
PH = 'stone.backends.python_helpers'
GEN = 'stone.frontend.ir_generator.IRGenerator'
EXPLANATION = (
    'Definition/reference agreement and emission-order analysis of the python_types backend. '
    'R1: _generate_base_namespace_module emits, in separate passes and in this order, imports, '
    'annotation-type classes, struct/union classes (parent-first linearisation), alias '
    'definitions (target-first linearisation), reflection attributes with union symbol creators, '
    'field defaults, routes -- each arrow justified by a generated name being defined before it '
    'is used at module level. R2: for the generated name kinds (class, <T>_validator, alias '
    'validator and class alias, tag attribute, route object, namespace module) the formatter '
    'chain at the definition site equals the chain at every reference site (fmt_class / '
    'fmt_underscores bases are derived from python_helpers on every run). R3: cross-namespace '
    'parents and validators are prefixed with the namespace module. R4: _resolve_type registers '
    'the imported namespace (with the matching reason flag) on every path that resolves `ns.T`, '
    'custom annotations register theirs, and the import list comes from '
    'get_imported_namespaces(consider_annotation_types=True), which keeps alias-only imports. '
    'R5: emitters cover all fields/tags (is_*, get_*, creators guarded by the Void test the '
    'right way round), every type gets <T>_validator, every route is emitted with its name, '
    'version, deprecation flag, three validators and attrs, and listed in ROUTES.'
    ' R6 (generator totality, stonelint.totality): python_types can only produce modules if it completes -- IR attribute reads are defined for every reaching class, raises/asserts are unreachable dispatch defaults, doc-tag defaults, configuration conditions or recorded preconditions.'
    ' RD (effect-condition drift, stonelint.effects): for the functions this property is anchored in (stonelint.ownership) the path formula of every raise / return / continue / break / assignment / call statement is compared with reference/effects.json by truth table over the leaf tests (so nested vs merged tests, guard clauses vs if/else ladders, De Morgan forms read alike); an effect lost on a path, or a control effect gained on one, is a violation; changed texts and re-spelled tests are not claimed.'
    " RE (expression drift, stonelint.exprdrift): the same functions' attribute names, variable reads, simple statements, calls and arithmetic/slice literals are compared with reference/expressions.json; a substituted attribute or variable, a dropped call or assignment, swapped arguments or a changed literal is a violation; any other edit is not claimed. RC (call-condition drift, stonelint.effects.run_calls): for every call of a repository or imported-library function in those functions, the path conditions of its occurrences are compared with reference/effects.json by truth table; an assignment under which the function used to make the call and now completes without it is a violation (tests on memo tables, emptiness of the iterated collection and earlier refusals excepted; re-spelled conditions are not claimed). MK (memo-key rule, stonelint.memo): a memo table or done-set the reference tree does not have must be keyed by every access path the skipped code reads, injectively and type-aware."
    ' RI (interface drift, stonelint.interface): constants and tables (folded values), compiled regular expressions (witness text), parameter defaults, special methods, base classes and caching decorators of the modules the property rests on are compared with reference/interface.json; only a concrete difference in what is computed is reported.'
    ' MU (mutation drift, stonelint.mutation): the functions the property rests on update in place only the caller-owned, class-level and module-level objects they updated on the confirmed tree, and have no new handler that swallows an exception (reference/mutations.json).')
ASSUMPTIONS = [
    'identifiers are not Python reserved words (as the property assumes)',
    'fmt_pascal / fmt_underscores are injective enough on spec identifiers (not decided)',
]


TOTALITY_PRECONDITIONS = {
    ('backends.python_helpers.class_name_for_annotation_type',
     'assert isinstance(annotation_type, AnnotationType)'):
        'callers pass elements of namespace.annotation_types or the annotation_type of an '
        'annotation, which the IR constructs as AnnotationType instances only',
}

def run(pm, ctx):
    for r, t in (('C09-R1', 'emission order: define before module-level use'),
                 ('C09-R2', 'generated-name definition/reference agreement'),
                 ('C09-R3', 'parent-first linearisation and namespace prefixes'),
                 ('C09-R4', 'import registration'),
                 ('C09-R5', 'declared surface is emitted completely')):
        ctx.rule(r, t)
    irf = ir_family(pm)

    # ---------------- R1
    pos = emission_order(pm)
    chain = [
        ('_generate_imports_for_referenced_namespaces', '_generate_annotation_type_class',
         'annotation classes may reference imported modules'),
        ('_generate_imports_for_referenced_namespaces', '_generate_struct_class',
         'foreign parents are evaluated in the class statement'),
        ('_generate_struct_class', '_generate_alias_definition',
         'alias validators name class validators; class aliases name classes'),
        ('_generate_alias_definition', '_generate_struct_class_reflection_attributes',
         'field validators name alias validators'),
        ('_generate_union_class', '_generate_union_class_reflection_attributes',
         'tag validators are attached to existing classes'),
        ('_generate_union_class_symbol_creators', '_generate_struct_attributes_defaults',
         'tag defaults read the symbol attributes'),
        ('_generate_struct_class_reflection_attributes', '_generate_struct_attributes_defaults',
         'defaults are set on the Attribute objects after validators'),
        ('_generate_alias_definition', '_generate_routes', 'route validators may name aliases'),
        ('_generate_struct_class', '_generate_routes', 'route validators name class validators'),
    ]
    g = pm.func(PTB + '._generate_base_namespace_module')
    for a, b, why in chain:
        ctx.check('C09-R1', a in pos and b in pos and pos[a] < pos[b],
                  '%s in an earlier pass than %s (%s)' % (a, b, why), g.loc,
                  msg='%s is no longer emitted in an earlier pass than %s, but %s' % (a, b, why),
                  key='C09-R1|%s<%s' % (a, b))
    loops = {unparse(l.iter): l for l in g.node.body if isinstance(l, ast.For)}
    ctx.check('C09-R1', 'namespace.linearize_data_types()' in loops and
              'namespace.linearize_aliases()' in loops and 'namespace.annotation_types' in loops,
              'classes follow linearize_data_types(), aliases follow linearize_aliases()', g.loc,
              msg='class/alias emission no longer follows the linearisations: %s' % sorted(loops),
              key='C09-R1|linearized')
    for callee, want in (('_generate_struct_class', 'namespace.linearize_data_types()'),
                         ('_generate_alias_definition', 'namespace.linearize_aliases()')):
        its = [unparse(l.iter) for l in g.node.body if isinstance(l, ast.For) and
               any(call_name(c) == callee for c in ast.walk(l) if isinstance(c, ast.Call))]
        ctx.check('C09-R1', its == [want], '%s is driven by %s' % (callee, want), g.loc,
                  msg='%s is driven by %s: a child could be emitted before its parent / an alias '
                      'before its target' % (callee, its), key='C09-R1|driver|%s' % callee)
    cls_loop = [l for l in g.node.body if isinstance(l, ast.For) and
                unparse(l.iter) == 'namespace.linearize_data_types()' and
                any(call_name(c) == '_generate_struct_class' for c in ast.walk(l)
                    if isinstance(c, ast.Call))]
    if cls_loop:
        disp = {}
        for c in ast.walk(cls_loop[0]):
            if isinstance(c, ast.Call) and call_name(c) in ('_generate_struct_class',
                                                            '_generate_union_class'):
                disp[call_name(c)] = reaching_classes(pm, irf, g, c, 'data_type',
                                                      universe=frozenset({'Struct', 'Union'}))
        ctx.check('C09-R1', disp == {'_generate_struct_class': {'Struct'},
                                     '_generate_union_class': {'Union'}},
                  'each user type is emitted by its own class generator', g.loc,
                  msg='class generator dispatch changed: %s' % disp, key='C09-R1|dispatch')

    # ---------------- R2
    bases = helper_bases(pm)
    ctx.check('C09-R2', bases.get('fmt_class') == 'pascal' and bases.get('fmt_var') ==
              'underscores' and bases.get('fmt_func') == 'underscores',
              'helper bases: fmt_class=pascal, fmt_var=fmt_func=underscores', PH,
              msg='formatter helpers changed their base: %s' % bases, key='C09-R2|bases')
    cn = pm.func(PH + '.class_name_for_data_type')
    pi = path_info(cn.node)
    defs_ = {}
    for leaf, _st in assigned_alternatives(cn.node, 'name'):
        alias_branch = [pol for e, pol in pi.at(leaf) if unparse(e) == 'is_alias(data_type)']
        defs_[unparse(leaf)] = alias_branch
    ctx.check('C09-R2', defs_ == {'data_type.name': [True], 'fmt_class(data_type.name)': [False]},
              'class_name_for_data_type: aliases keep their spec name, user types are '
              'fmt_class(name)', cn.loc,
              msg='class_name_for_data_type computes names as %s' % defs_,
              key='C09-R2|%s' % cn.qualname)
    # class definition
    cd = pm.func(PTB + '._class_declaration_for_type')
    r = [x for x in own_nodes(cd.node) if isinstance(x, ast.Return)]
    ok = len(r) == 1 and 'class_name_for_data_type(data_type)' in unparse(r[0].value)
    ctx.check('C09-R2', ok, 'class statement names the class class_name_for_data_type(dt)', cd.loc,
              msg='class statement naming changed', key='C09-R2|class-def')
    # <T>_validator definition vs reference
    for q in (PTB + '._generate_struct_class', PTB + '._generate_union_class'):
        f = pm.func(q)
        em = [c for c in own_nodes(f.node) if isinstance(c, ast.Call) and call_name(c) == 'emit'
              and c.args and '_validator = bv.' in unparse(c.args[0])]
        ok = len(em) == 1 and 'class_name_for_data_type(data_type)' in unparse(em[0].args[0])
        ctx.check('C09-R2', ok, '%s defines <class_name_for_data_type(dt)>_validator' % f.name,
                  f.loc, msg='%s defines the validator under another name' % f.name,
                  key='C09-R2|%s|validator-def' % q)
    gvc = pm.func(PT + '.generate_validator_constructor')
    refs = {}
    for n in own_nodes(gvc.node):
        if isinstance(n, ast.Assign) and isinstance(n.value, ast.BinOp) and \
                unparse(n.value.right) == "'_validator'":
            cls = sorted(reaching_classes(pm, irf, gvc, n, 'dt',
                                          universe=irf.universe() - {'Nullable'}))
            refs[tuple(cls)] = unparse(n.value.left)
    ok = refs.get(('Struct', 'Union')) in ('fmt_class(dt.name)', 'class_name_for_data_type(dt)') \
        and refs.get(('Alias',)) == 'class_name_for_data_type(dt)'
    ctx.check('C09-R2', ok, 'validator references: user types by fmt_class(name), aliases by '
              'class_name_for_data_type (spec name)', gvc.loc,
              msg='generate_validator_constructor references validators as %s, which does not '
                  'match the names they are defined under' % refs,
              key='C09-R2|%s|validator-ref' % gvc.qualname)
    ad = pm.func(PTB + '._generate_alias_definition')
    from ..dataflow import defs
    vn = [unparse(v) for v in defs(ad.node).all_values('validator_name')]
    ctx.check('C09-R2', vn == ["'{}_validator'.format(alias.name)"],
              'alias validator is defined as <alias.name>_validator', ad.loc,
              msg='alias validator is defined as %s' % vn, key='C09-R2|%s|alias-def' % ad.qualname)
    ca = [c for c in own_nodes(ad.node) if isinstance(c, ast.Call) and call_name(c) == 'emit' and
          c.args and unparse(c.args[0]).startswith("'{} = {}'.format(alias.name")]
    ok = len(ca) == 1 and [unparse(a) for a in ca[0].args[0].args] == [
        'alias.name', 'class_name_for_data_type(alias.data_type, namespace)']
    pia = path_info(ad.node)
    ok = bool(ok and ca and any(unparse(e) == 'is_user_defined_type(unwrapped_dt)' and pol
                                for e, pol in pia.at(ca[0])))
    ctx.check('C09-R2', ok, 'class alias `<alias.name> = <target class>` for aliases that unwrap to '
              'a user type', ad.loc, msg='class alias emission changed',
              key='C09-R2|%s|class-alias' % ad.qualname)
    # tag attributes: creators define Class.tag; defaults/stubs reference it (C10-R5 shares)
    sc = pm.func(PTB + '._generate_union_class_symbol_creators')
    cre = [c for c in own_nodes(sc.node) if isinstance(c, ast.Call) and call_name(c) == 'emit' and
           c.args and "{0}.{1} = {0}('{1}')" in unparse(c.args[0])]
    d_sc = defs(sc.node)
    ctx.check('C09-R2', len(cre) == 1 and
              [unparse(v) for v in d_sc.all_values('class_name')] == ['fmt_class(data_type.name)']
              and [unparse(v) for v in d_sc.all_values('field_name')] == ['fmt_func(field.name)'],
              "symbol creators emit Class.tag = Class('tag') for void tags", sc.loc,
              msg='symbol creator naming changed', key='C09-R2|%s' % sc.qualname)
    # routes
    gr = pm.func(PTB + '._generate_routes')
    names = [unparse(c) for c in own_nodes(gr.node) if isinstance(c, ast.Call) and
             call_name(c) == 'fmt_func']
    ctx.check('C09-R2', names == ['fmt_func(route.name, version=route.version)'] * 2,
              'route objects are defined and listed in ROUTES under the same name', gr.loc,
              msg='route naming differs between definition and ROUTES: %s' % names,
              key='C09-R2|%s|route-names' % gr.qualname)

    # ---------------- R3
    ok = any(isinstance(n, ast.Assign) and unparse(n) ==
             'extends = class_name_for_data_type(data_type.parent_type, ns)'
             for n in own_nodes(cd.node))
    ctx.check('C09-R3', ok, 'the base class is the parent\'s class name, prefixed when foreign',
              cd.loc, msg='base class expression changed', key='C09-R3|base-class')
    pw = pm.func(PH + '.prefix_with_ns_if_necessary')
    pi = path_info(pw.node)
    rets = {unparse(r.value): [(unparse(e), p) for e, p in pi.at(r)]
            for r in own_nodes(pw.node) if isinstance(r, ast.Return)}
    ctx.check('C09-R3', rets == {'name': [('source_ns == name_ns', True)],
                                 "'{}.{}'.format(fmt_namespace(name_ns.name), name)":
                                 [('source_ns == name_ns', False)]},
              'prefix_with_ns_if_necessary prefixes exactly foreign names with fmt_namespace(ns)',
              pw.loc, msg='namespace prefixing changed: %s' % rets, key='C09-R3|%s' % pw.qualname)
    pre = [n for n in own_nodes(gvc.node) if isinstance(n, ast.Assign) and
           'fmt_namespace(dt.namespace.name)' in unparse(n.value)]
    pi = path_info(gvc.node)
    ok = len(pre) == 2 and all(any(unparse(e) == 'ns.name != dt.namespace.name' and pol
                                   for e, pol in pi.at(n)) for n in pre)
    ctx.check('C09-R3', ok, 'foreign validators are referenced through their namespace module',
              gvc.loc, msg='foreign validator references are no longer namespace-qualified',
              key='C09-R3|%s|prefix' % gvc.qualname)

    # ---------------- R4
    rt = pm.func(GEN + '._resolve_type')
    blocks = [s for s in rt.node.body if isinstance(s, ast.If) and unparse(s.test) == 'type_ref.ns']
    reg = {}
    pi = path_info(rt.node)
    for b in blocks:
        for c in ast.walk(b):
            if isinstance(c, ast.Call) and call_name(c) == 'add_imported_namespace':
                kinds = [unparse(e)[len('isinstance(data_type, '):-1] for e, pol in pi.at(c)
                         if pol and unparse(e).startswith('isinstance(data_type, ')]
                flags = sorted(k.arg for k in c.keywords if unparse(k.value) == 'True')
                target = unparse(c.args[0]) if c.args else ''
                for k in kinds:
                    reg[k] = (flags, 'type_ref.ns' in target)
    ctx.check('C09-R4', reg == {'UserDefined': (['imported_data_type'], True),
                                'Alias': (['imported_alias'], True)} and len(blocks) == 2,
              '_resolve_type registers the referenced namespace for every foreign user type '
              '(imported_data_type) and alias (imported_alias), unconditionally at function level',
              rt.loc, msg='_resolve_type import registration is %s' % reg,
              key='C09-R4|%s|register' % rt.qualname)
    rets_ = [x for x in own_nodes(rt.node) if isinstance(x, ast.Return)]
    ctx.check('C09-R4', len(rets_) == 1 and rets_[0] is rt.node.body[-1],
              '_resolve_type has no early return that could skip the registration', rt.loc,
              msg='_resolve_type can return before registering the import',
              key='C09-R4|%s|no-early-return' % rt.qualname)
    gi = pm.func(PH + '.generate_imports_for_referenced_namespaces')
    ok = any(isinstance(c, ast.Call) and unparse(c) ==
             'namespace.get_imported_namespaces(consider_annotation_types=True)'
             for c in own_nodes(gi.node)) and \
        any(isinstance(l, ast.For) and unparse(l.iter) == 'imported_namespaces' and
            any(isinstance(c, ast.Call) and call_name(c) == 'emit' and
                'fmt_namespace(ns.name)' in unparse(c) for c in ast.walk(l))
            for l in own_nodes(gi.node))
    ctx.check('C09-R4', ok, 'imports are emitted for get_imported_namespaces('
              'consider_annotation_types=True)', gi.loc,
              msg='the import list is no longer taken from get_imported_namespaces(...)',
              key='C09-R4|%s' % gi.qualname)
    gin = pm.func('stone.ir.api.ApiNamespace.get_imported_namespaces')
    pi = path_info(gin.node)
    conts = [n for n in own_nodes(gin.node) if isinstance(n, ast.Continue)]
    good = len(conts) == 3
    for c in conts:
        from ..profiles import controlling_test
        ct = controlling_test(c)
        t = unparse(ct[0]) if ct else ''
        # data-type and alias imports are never filtered out by the
        # annotation switches
        if 'consider_annotation' in t:
            good &= 'reason.data_type or reason.alias' in t
    ctx.check('C09-R4', good, 'get_imported_namespaces keeps namespaces imported for data types '
              'or aliases whatever the annotation switches', gin.loc,
              msg='get_imported_namespaces can drop a namespace that is imported for a data type '
                  'or an alias', key='C09-R4|%s|keeps' % gin.qualname)
    for q, what in (('stone.ir.data_types.UserDefined.set_attributes', 'field annotations'),
                    ('stone.ir.data_types.Alias.set_annotations', 'alias annotations')):
        f = pm.func(q)
        ctx.check('C09-R4', any(isinstance(c, ast.Call) and call_name(c) ==
                                'record_custom_annotation_imports' for c in own_nodes(f.node)),
                  '%s registers the namespaces of custom %s' % (f.short, what), f.loc,
                  msg='%s no longer registers custom annotation imports' % f.short,
                  key='C09-R4|%s' % q)

    # ---------------- R5
    surface = [
        ('_generate_struct_class_properties', 'data_type.fields', None),
        ('_generate_struct_class_slots', 'data_type.fields', None),
        ('_generate_union_class_is_set', 'data_type.fields', None),
        ('_generate_union_class_get_helpers', 'data_type.fields', ('is_void_type(field.data_type)',
                                                                    False)),
        ('_generate_union_class_variant_creators', 'data_type.fields',
         ('is_void_type(field.data_type)', False)),
        ('_generate_union_class_symbol_creators', 'data_type.fields',
         ('is_void_type(field.data_type)', True)),
        ('_generate_struct_class_init', 'data_type.all_fields', None),
    ]
    for nm, it, guard in surface:
        f = pm.func(PTB + '.' + nm)
        pi = path_info(f.node)
        loops = [l for l in own_nodes(f.node) if isinstance(l, ast.For) and unparse(l.iter) == it]
        ok = bool(loops)
        em = [c for l in loops for c in ast.walk(l) if isinstance(c, ast.Call) and
              call_name(c) in ('emit', 'append')]
        ok = ok and bool(em)
        if guard is not None and em:
            ats = [(unparse(e), pol) for e, pol in pi.at(em[0])]
            ok = ok and ats == [guard]
        elif em:
            ok = ok and not [a for a in pi.at(em[0]) if 'field' in unparse(a[0]) and
                             'is not None' not in unparse(a[0])]
        ctx.check('C09-R5', ok, '%s covers every member of %s%s' % (
            nm, it, '' if guard is None else ' with %s%s' % ('' if guard[1] else 'not ', guard[0])),
            f.loc, msg='%s no longer emits for every member of %s under the documented '
                       'condition' % (nm, it), key='C09-R5|%s' % f.qualname)
    gs = pm.func(PTB + '._generate_struct_class')
    for callee in ('_generate_struct_class_slots', '_generate_struct_class_has_required_fields',
                   '_generate_struct_class_init', '_generate_struct_class_properties',
                   '_generate_struct_class_custom_annotations'):
        ctx.check('C09-R5', any(isinstance(c, ast.Call) and call_name(c) == callee
                                for c in own_nodes(gs.node)),
                  '_generate_struct_class emits %s' % callee[len('_generate_struct_class_'):],
                  gs.loc, msg='_generate_struct_class no longer calls %s' % callee,
                  key='C09-R5|%s|%s' % (gs.qualname, callee))
    gu = pm.func(PTB + '._generate_union_class')
    for callee in ('_generate_union_class_vars', '_generate_union_class_variant_creators',
                   '_generate_union_class_is_set', '_generate_union_class_get_helpers',
                   '_generate_union_class_custom_annotations'):
        ctx.check('C09-R5', any(isinstance(c, ast.Call) and call_name(c) == callee
                                for c in own_nodes(gu.node)),
                  '_generate_union_class emits %s' % callee[len('_generate_union_class_'):], gu.loc,
                  msg='_generate_union_class no longer calls %s' % callee,
                  key='C09-R5|%s|%s' % (gu.qualname, callee))
    # init: parent ctor gets all parent fields; own fields initialised and assigned
    si = pm.func(PTB + '._generate_struct_class_init')
    src = ' ; '.join(unparse(s) for s in own_nodes(si.node) if isinstance(s, ast.stmt))
    ctx.check('C09-R5', 'for f in data_type.parent_type.all_fields' in src and
              "'super({}, self).__init__'.format(class_name)" in src,
              'generated __init__ passes all inherited fields to the parent constructor', si.loc,
              msg='generated __init__ no longer forwards inherited fields',
              key='C09-R5|%s|super' % si.qualname)
    # routes
    body = [unparse(c.args[0]) for c in own_nodes(gr.node) if isinstance(c, ast.Call) and
            call_name(c) == 'emit' and c.args]
    need = ['"\'{}\',".format(route.name)', "'{},'.format(route.version)",
            "'{!r},'.format(route.deprecated is not None)",
            "generate_validator_constructor(namespace, data_type) + ','"]
    miss = [x for x in need if x not in body]
    ctx.check('C09-R5', not miss, 'route objects carry name, version, deprecation flag and the '
              'three validators', gr.loc,
              msg='route emission lost %s' % miss, key='C09-R5|%s|fields' % gr.qualname)
    from ..dataflow import defs as _d
    dts = [unparse(v) for v in _d(gr.node).all_values('data_types')]
    ctx.check('C09-R5', dts == ['[route.arg_data_type, route.result_data_type, '
                                'route.error_data_type]'],
              'validators are emitted for arg, result, error in this order', gr.loc,
              msg='route validator order changed: %s' % dts, key='C09-R5|%s|order' % gr.qualname)
    at = [l for l in own_nodes(gr.node) if isinstance(l, ast.For) and
          unparse(l.iter) == 'route_schema.fields']
    ctx.check('C09-R5', len(at) == 1 and 'route.attrs.get(attr_key)' in unparse(at[0]),
              'attrs are emitted for every schema field', gr.loc,
              msg='route attrs emission changed', key='C09-R5|%s|attrs' % gr.qualname)
    rl = [l for l in own_nodes(gr.node) if isinstance(l, ast.For) and
          unparse(l.iter) == 'namespace.routes']
    ctx.check('C09-R5', len(rl) == 2, 'every route is defined and listed in ROUTES', gr.loc,
              msg='route loops changed (%d)' % len(rl), key='C09-R5|%s|loops' % gr.qualname)
    # process_doc callbacks cover every doc-ref tag the frontend accepts
    df = pm.func(PTB + '._docf')
    pi = path_info(df.node)
    tags = set()
    for r in own_nodes(df.node):
        if isinstance(r, ast.Return):
            for e, pol in pi.at(r):
                t = unparse(e)
                if pol and t.startswith("tag == '"):
                    tags.add(t[8:-1])
    ctx.check('C09-R5', tags == {'type', 'route', 'link', 'val', 'field'},
              '_docf renders every doc-reference tag the frontend accepts', df.loc,
              msg='_docf handles %s' % sorted(tags), key='C09-R5|%s|tags' % df.qualname)
    ad_doc = [c for c in own_nodes(ad.node) if isinstance(c, ast.Call) and
              call_name(c) == 'emit_wrapped_text']
    ok = len(ad_doc) == 1 and {k.arg: unparse(k.value) for k in ad_doc[0].keywords} == \
        {'prefix': "'# '"}
    ctx.check('C09-R5', ok, 'alias docs are emitted as comments on every wrapped line '
              '(prefix, not initial_prefix)', ad.loc,
              msg='alias doc comment prefixing changed: wrapped continuation lines would be bare '
                  'text in the module', key='C09-R5|%s|doc-prefix' % ad.qualname)
    totality.run_pack(pm, ctx, 'C09-R6', ('stone.backends.python_helpers', 'stone.backends.python_types'),
                      True, 'python_types and python_helpers', TOTALITY_PRECONDITIONS, (60, 6, 0))

    # ---------------- R7: the module-level validator constructors cannot fail at import
    ctx.rule('C09-R7', 'runtime validator constructors accept every parameter combination the '
                       'compile-side type constructors accept (their asserts run at import time)')
    from .. import ctorprofile
    IRD, BVD = 'stone.ir.data_types.', 'stone.backends.python_rsrc.stone_validators.'
    bound_names = {'default_minimum': 'minimum', 'default_maximum': 'maximum'}
    for irc, bvc, amap in (('String', 'String', {}), ('List', 'List', {}),
                           ('_BoundedInteger', 'Integer', bound_names),
                           ('_BoundedFloat', 'Real', bound_names)):
        fi, fb = pm.func(IRD + irc + '.__init__'), pm.func(BVD + bvc + '.__init__')
        crel, cirr = ctorprofile.reject_relations(fi)
        rrel, rirr = ctorprofile.reject_relations(fb, amap)
        probs = ctorprofile.compare(crel, rrel)
        ctx.check('C09-R7', not probs and not rirr,
                  'bv.%s(...) accepts what ir.%s(...) accepts (%d runtime, %d compile relations)'
                  % (bvc, irc, len(rrel), len(crel)), fb.loc,
                  msg='bv.%s.__init__ refuses parameter combinations that ir.%s accepts: %s%s -- '
                      'the generated module raises AssertionError when it is imported'
                      % (bvc, irc, '; '.join('%s: runtime refuses %s, compiler only %s' % p_
                                             for p_ in probs),
                         ' (irreducible refusals at lines %s)' % [l for l, _ in rirr]
                         if rirr else ''),
                  key='C09-R7|%s' % fb.qualname)
        ctx.check('C09-R7', len(rrel) >= 2, 'bv.%s constructor relations recognised' % bvc, fb.loc,
                  msg='fewer constructor constraints recognised in bv.%s than confirmed by '
                      'reading' % bvc, key='C09-R7|%s|recognised' % fb.qualname)

    ctx.import_rules(pm, 'C02', {'C02-R5'}, 'C09-R10',
                     'required / optional field listings of the IR are complete, parent first, with '
                     'complementary predicates (shared with C02-R5)')
    ctx.import_rules(pm, 'C02', {'C02-R12'}, 'C09-R11',
                     'the unwrap helpers of the IR peel exactly the wrappers their names say '
                     '(shared with C02-R12)')
    ctx.import_rules(pm, 'C02', {'C02-R4'}, 'C09-R13',
                     'linearize_data_types / linearize_aliases place the whole parent chain (alias '
                     'target) before the dependant: the order classes are emitted in (shared with '
                     'C02-R4)')
    ctx.import_rules(pm, 'C05', {'C05-R3'}, 'C09-R12',
                     'field slots are written only by the attribute descriptor, which leaves a deleted field unset (shared with C05-R3)')
    from ..effects import run_decisions
    from ..ownership import OWN
    run_decisions(pm, ctx, 'C09-RD', OWN['C09'])
    from .. import exprdrift
    exprdrift.run(pm, ctx, 'C09-RE', OWN['C09'])
    from ..effects import run_calls
    run_calls(pm, ctx, 'C09-RC', OWN['C09'])
    from .. import memo
    memo.run(pm, ctx, 'C09-MK', OWN['C09'])
    from .. import interface
    interface.run(pm, ctx, 'C09-RI', OWN['C09'])
    from .. import mutation
    mutation.run(pm, ctx, 'C09-MU', OWN['C09'])
    ctx.import_rules(pm, 'C10', {'C10-R5'}, 'C09-R8',
                     'default values are emitted with the generated class and tag names (shared with '
                     'C10-R5)')
    ctx.import_rules(pm, 'C08', {'C08-R3'}, 'C09-R9',
                     'validator constructors are emitted as well-formed Python: every parameter '
                     'forwarded, text parameters through repr() (shared with C08-R3)')
