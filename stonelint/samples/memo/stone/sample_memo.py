"""Examples for the memo-key rule's self-check (never imported or run)."""
import numbers

_cache = {}
_cache2 = {}
_cache3 = {}
_cache4 = {}


def helper(name, lower):
    return name.lower() if lower else name


def bad_partial_key(name, lower):
    cached = _cache.get(name)
    if cached is not None:
        return cached
    ret = helper(name, lower)
    _cache[name] = ret
    return ret


def good_full_key(name, lower):
    key = (name, lower)
    if key not in _cache2:
        _cache2[key] = helper(name, lower)
    return _cache2[key]


def bad_format_key(a, b):
    key = '{}{}'.format(a, b)
    if key not in _cache3:
        _cache3[key] = (a, b)
    return _cache3[key]


def check(val):
    if isinstance(val, bool) or not isinstance(val, numbers.Integral):
        raise ValueError(val)
    return val


def bad_type_blind(vals):
    done = {}
    out = []
    for v in vals:
        if v not in done:
            done[v] = check(v)
        out.append(done[v])
    return out


class K:
    _shared = {}

    def bad_try_form(self):
        try:
            return self._shared[self.level]
        except KeyError:
            pass
        r = '\t' * self.level if self.tabs else ' ' * self.level
        self._shared[self.level] = r
        return r

    def set_level(self, n, tabs):
        self.level = n
        self.tabs = tabs
