"""Constructor-constraint agreement between a compile-side type class
(stone.ir) and the runtime validator class generated code instantiates with
the same parameters.

Every refusal in a constructor is reduced to *reject relations*:
``(lhs, rhs) -> set of orderings of lhs relative to rhs that are refused``
(orderings '<', '=', '>'), taken from the comparison atoms that guard a
``raise`` (compile side: ParameterError) or from the negation of an
``assert`` (runtime side).  Operands are parameter names, ``self.<attr>``
bounds (through a name map) or integer literals; comparisons against literals
are evaluated on the integer points around the literals that occur, so
``x > 0`` and ``x >= 1`` read the same for integral parameters.

The generated module imports only if the runtime constructor accepts whatever
the compiler accepted: for every key, runtime-refused orderings must be a
subset of compile-refused ones.
"""
import ast

from .model import own_nodes, unparse
from .pathcond import path_info

ORD = {'<', '=', '>'}
OPS = {ast.Lt: {'<'}, ast.LtE: {'<', '='}, ast.Gt: {'>'}, ast.GtE: {'>', '='},
       ast.Eq: {'='}, ast.NotEq: {'<', '>'}}


def _operand(e, params, attr_map):
    if isinstance(e, ast.Name) and e.id in params:
        return ('param', e.id)
    if isinstance(e, ast.Attribute) and isinstance(e.value, ast.Name) and e.value.id == 'self':
        return ('attr', attr_map.get(e.attr, e.attr))
    if isinstance(e, ast.Constant) and isinstance(e.value, int) and not isinstance(e.value, bool):
        return ('const', e.value)
    if isinstance(e, ast.UnaryOp) and isinstance(e.op, ast.USub) and \
            isinstance(e.operand, ast.Constant) and isinstance(e.operand.value, int):
        return ('const', -e.operand.value)
    return None


def _relation(cmp_node, pol, params, attr_map):
    """((lhs, rhs), refused orderings of lhs vs rhs) for a comparison that,
    with polarity ``pol``, leads to a refusal."""
    if not (isinstance(cmp_node, ast.Compare) and len(cmp_node.ops) == 1):
        return None
    a = _operand(cmp_node.left, params, attr_map)
    b = _operand(cmp_node.comparators[0], params, attr_map)
    o = OPS.get(type(cmp_node.ops[0]))
    if a is None or b is None or o is None:
        return None
    if a[0] == 'const' and b[0] == 'const':
        return None
    rel = set(o) if pol else ORD - o
    # canonical operand order: params first, then by text
    if (a[0] != 'param' and b[0] == 'param') or (a[0] == b[0] and repr(a) > repr(b)):
        a, b = b, a
        rel = {{'<': '>', '>': '<', '=': '='}[x] for x in rel}
    return (a, b), frozenset(rel)


def reject_relations(func, attr_map=None, exc_names=('ParameterError', 'AssertionError')):
    """{key: refused orderings} over every raise of ``exc_names`` and every
    assert of the constructor.  A refusal guarded by several ordering
    comparisons is not reducible and is returned under key None (list)."""
    attr_map = attr_map or {}
    params = set(func.params[1:])
    pi = path_info(func.node)
    out, irreducible = {}, []
    for n in own_nodes(func.node):
        atoms = None
        if isinstance(n, ast.Raise) and n.exc is not None and \
                any(x in unparse(n.exc) for x in exc_names):
            atoms = list(pi.at(n))
        elif isinstance(n, ast.Assert):
            atoms = list(pi.at(n)) + [(n.test, False)]
        if atoms is None:
            continue
        rels = []
        for e, pol in atoms:
            parts = [(e, pol)]
            # a refused conjunction `a and b` with pol True: both hold; keep comparisons only
            if isinstance(e, ast.BoolOp) and isinstance(e.op, ast.And) and pol:
                parts = [(v, True) for v in e.values]
            for x, p in parts:
                r = _relation(x, p, params, attr_map)
                if r is not None:
                    rels.append(r)
        if len(rels) == 1:
            k, rel = rels[0]
            out[k] = out.get(k, frozenset()) | rel
        elif len(rels) > 1:
            irreducible.append((n.lineno, rels))
    return out, irreducible


def _points(consts):
    pts = set()
    for c in consts:
        pts |= {c - 1, c, c + 1}
    return sorted(pts)


def refused_points(rels, param):
    """For integer-literal constraints on one parameter: the sample points
    refused."""
    consts = [k[1][1] for k in rels if k[0] == ('param', param) and k[1][0] == 'const']
    return consts


def compare(compile_rels, runtime_rels):
    """Problems: list of (key text, runtime refused, compile refused) where
    the runtime refuses something the compiler accepts."""
    problems = []
    # parameter-vs-literal: evaluate on sample points
    params = {k[0][1] for k in list(compile_rels) + list(runtime_rels)
              if k[0][0] == 'param' and k[1][0] == 'const'}
    handled = set()
    for p in sorted(params):
        consts = {k[1][1] for k in list(compile_rels) + list(runtime_rels)
                  if k[0] == ('param', p) and k[1][0] == 'const'}
        pts = _points(consts)

        def refused(rels):
            out = set()
            for k, rel in rels.items():
                if k[0] == ('param', p) and k[1][0] == 'const':
                    c = k[1][1]
                    for v in pts:
                        o = '<' if v < c else ('=' if v == c else '>')
                        if o in rel:
                            out.add(v)
                    handled.add(k)
            return out
        rc, rr = refused(compile_rels), refused(runtime_rels)
        if not rr <= rc:
            problems.append(('%s vs literals' % p, sorted(rr - rc), sorted(rc)))
    for k, rel in runtime_rels.items():
        if k in handled:
            continue
        crel = compile_rels.get(k, frozenset())
        if not rel <= crel:
            problems.append(('%s vs %s' % (k[0][1], k[1][1]), sorted(rel - crel), sorted(crel)))
    return problems
