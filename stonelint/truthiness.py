"""Falsy-value confusion: a spec value (a default, a route attribute, a bound)
may legitimately be 0, False, "" or an empty collection, so its *absence* must
be tested with ``is None`` / ``is not None``.  ``bool_uses`` finds the places
where a name is used as a condition by its truth value."""
import ast

from .model import own_nodes


def _direct(node, name):
    return isinstance(node, ast.Name) and node.id == name


def bool_uses(funcnode, name, include_nested=True):
    """Nodes at which local/parameter ``name`` is tested by truthiness: as the
    test of if/while/conditional expression/assert/comprehension filter, as an
    operand of ``not`` / ``and`` / ``or`` in such a test."""
    out = []

    def in_test(e):
        if _direct(e, name):
            out.append(e)
        elif isinstance(e, ast.UnaryOp) and isinstance(e.op, ast.Not):
            in_test(e.operand)
        elif isinstance(e, ast.BoolOp):
            for v in e.values:
                in_test(v)
    for n in own_nodes(funcnode, include_nested=include_nested):
        if isinstance(n, (ast.If, ast.While, ast.IfExp, ast.Assert)):
            in_test(n.test)
        elif isinstance(n, ast.comprehension):
            for c in n.ifs:
                in_test(c)
        elif isinstance(n, ast.BoolOp) and not isinstance(getattr(n, '_parent', None),
                                                          (ast.If, ast.While, ast.IfExp,
                                                           ast.Assert, ast.BoolOp, ast.UnaryOp)):
            # x = a or b : `a` is tested by truthiness (all but the last operand)
            for v in n.values[:-1]:
                in_test(v)
    return out


def none_tests(funcnode, name):
    """Comparisons ``name is None`` / ``name is not None``."""
    return [n for n in own_nodes(funcnode) if isinstance(n, ast.Compare) and len(n.ops) == 1 and
            isinstance(n.ops[0], (ast.Is, ast.IsNot)) and _direct(n.left, name) and
            isinstance(n.comparators[0], ast.Constant) and n.comparators[0].value is None]
