"""Acyclic path enumeration over structured control flow.

Loops are taken zero times or once (their body is a straight segment that
either falls back to the loop exit, breaks, or continues); a ``try`` yields
the all-went-well path and one path per handler (entered with an unknown
prefix of the body executed).  Exact enough for must-pass-through and
leaf-classification rules on the small functions they are applied to; the
number of paths is capped and the cap is an analysis error, not a pass.
"""
import ast

from .model import AnalysisError
from .pathcond import _stmt_terminates, decompose


class Path:
    __slots__ = ('stmts', 'atoms', 'end', 'end_node', 'events')

    def __init__(self, stmts=(), atoms=(), end=None, end_node=None, events=()):
        self.stmts = stmts
        self.atoms = atoms
        self.end = end
        self.end_node = end_node
        self.events = events   # interleaved ('stmt', s) / ('atom', expr, pol)

    def extend(self, stmt=None, atoms=()):
        atoms = tuple(atoms)
        ev = self.events
        if stmt is not None:
            ev = ev + (('stmt', stmt),)
        ev = ev + tuple(('atom', e, p) for e, p in atoms)
        return Path(self.stmts + ((stmt,) if stmt is not None else ()),
                    self.atoms + atoms, self.end, self.end_node, ev)

    def finish(self, end, node):
        return Path(self.stmts, self.atoms, end, node, self.events)

    def atoms_after_last_assign(self, name, upto=None):
        """(value_expr_or_None, [atoms]) : the atoms established after the last
        assignment to local ``name`` (before statement ``upto``), and that
        assignment's value."""
        val, atoms = None, []
        for ev in self.events:
            if ev[0] == 'stmt':
                s = ev[1]
                if s is upto:
                    break
                if isinstance(s, ast.Assign) and any(
                        isinstance(t, ast.Name) and t.id == name for t in s.targets):
                    val, atoms = s.value, []
            else:
                atoms.append((ev[1], ev[2]))
        return val, atoms


def enumerate_paths(funcnode, max_paths=20000, local_raisers=()):
    done = []

    def block(stmts, live):
        """Run ``live`` (list of open paths) through stmts; return open paths
        that fall off the end.  Finished paths are appended to ``done`` or
        returned tagged with end in ('break', 'continue')."""
        for s in stmts:
            if not live:
                break
            nxt = []
            for p in live:
                nxt.extend(stmt(s, p))
            live = []
            for p in nxt:
                if p.end in ('return', 'raise'):
                    done.append(p)
                elif p.end in ('break', 'continue'):
                    live.append(p)  # carried up to the enclosing loop
                else:
                    live.append(p)
            if len(done) + len(live) > max_paths:
                raise AnalysisError('path enumeration exceeded %d paths in %s' % (
                    max_paths, getattr(funcnode, 'name', '?')))
            # paths tagged break/continue skip the rest of the block
            carried = [p for p in live if p.end in ('break', 'continue')]
            live = [p for p in live if p.end is None]
            if carried:
                pending.extend(carried)
        return live

    pending = []  # break/continue paths waiting for their loop

    def stmt(s, p):
        p = p.extend(s)
        if isinstance(s, ast.Return):
            return [p.finish('return', s)]
        if isinstance(s, ast.Raise):
            return [p.finish('raise', s)]
        if isinstance(s, ast.Break):
            return [p.finish('break', s)]
        if isinstance(s, ast.Continue):
            return [p.finish('continue', s)]
        if isinstance(s, ast.Assert):
            if isinstance(s.test, ast.Constant) and not s.test.value:
                return [p.finish('raise', s)]
            return [p.extend(None, decompose(s.test, True))]
        if isinstance(s, ast.Expr) and _stmt_terminates(s, local_raisers):
            return [p.finish('raise', s)]
        if isinstance(s, ast.If):
            a = block(s.body, [p.extend(None, decompose(s.test, True))])
            b = block(s.orelse, [p.extend(None, decompose(s.test, False))])
            return a + b
        if isinstance(s, (ast.For, ast.AsyncFor, ast.While)):
            out = []
            skip = p
            if isinstance(s, ast.While):
                skip = p.extend(None, decompose(s.test, False))
                entered = p.extend(None, decompose(s.test, True))
            else:
                entered = p
            mark = len(pending)
            body_end = block(s.body, [entered])
            mine = pending[mark:]
            del pending[mark:]
            broke = [Path(q.stmts, q.atoms, events=q.events) for q in mine if q.end == 'break']
            cont = [Path(q.stmts, q.atoms, events=q.events) for q in mine if q.end == 'continue']
            # normal loop exit (zero iterations, or after the body/continue)
            normal = [skip] + body_end + cont
            out.extend(block(s.orelse, normal) if s.orelse else normal)
            out.extend(broke)
            return out
        if isinstance(s, (ast.With, ast.AsyncWith)):
            return block(s.body, [p])
        if isinstance(s, ast.Try):
            out = []
            ok = block(s.body, [p])
            ok = block(s.orelse, ok) if s.orelse else ok
            out.extend(ok)
            for h in s.handlers:
                out.extend(block(h.body, [p.extend(h)]))
            if s.finalbody:
                out = block(s.finalbody, out)
            return out
        return [p]

    tail = block(funcnode.body, [Path()])
    for p in tail:
        done.append(p.finish('fall', None))
    # break/continue outside a loop cannot happen in valid code
    return done


def executed_nodes(path, upto=None):
    """ast nodes evaluated along the path: whole simple statements, but only
    the header expressions of compound statements (their bodies appear as
    separate path statements).  Stops before statement ``upto``."""
    for s in path.stmts:
        if s is upto:
            return
        if isinstance(s, (ast.If, ast.While)):
            roots = [s.test]
        elif isinstance(s, (ast.For, ast.AsyncFor)):
            roots = [s.iter]
        elif isinstance(s, (ast.With, ast.AsyncWith)):
            roots = [i.context_expr for i in s.items]
        elif isinstance(s, (ast.Try, ast.ExceptHandler, ast.FunctionDef, ast.ClassDef,
                            ast.AsyncFunctionDef)):
            roots = []
        else:
            roots = [s]
        for r in roots:
            for n in ast.walk(r):
                yield n


def path_calls(path, upto=None):
    return [n for n in executed_nodes(path, upto) if isinstance(n, ast.Call)]
