"""C16 -- JavaScript and TypeScript output is well formed and covers the whole
API.  Structural part (DESIGN 4/C16): type formatting covers every primitive
without falling into the `Object` default; optional-marker truth tables;
js_client builds its arguments in schema order and names URLs/functions
consistently; every struct/union (tsd: and alias) of every namespace is
visited exactly once.  Syntactic validity of the emitted JS/TS is not decided.
"""
import ast

from .. import totality
from ..consteval import try_fold
from ..dataflow import defs
from ..lattice import ir_family, reaching_classes
from ..model import call_name, own_nodes, unparse
from ..model import returns_text
from ..pathcond import assigned_alternatives, path_info, truth_table

PROP = 'C16'
JH = 'stone.backends.js_helpers'
TH = 'stone.backends.tsd_helpers'
JC = 'stone.backends.js_client.JavascriptClientBackend'
JT = 'stone.backends.js_types.JavascriptTypesBackend'
TT = 'stone.backends.tsd_types.TSDTypesBackend'
TC = 'stone.backends.tsd_client.TSDClientBackend'
EXPLANATION = (
    'Dispatch and sibling analysis of the JavaScript/TypeScript backends. R1: the primitive type '
    'tables of js_helpers and tsd_helpers have a key for every primitive IR class and List, so '
    'no declared type silently becomes the `Object` default; fmt_type_name takes user types (tsd: '
    'and aliases) by name and recurses into list items (tsd: map values); no formatter has a '
    'raising fall-through; the type generators dispatch alias/struct/union to their emitters. '
    'R2: TypeScript marks a field optional exactly when nullable or defaulted; JSDoc exactly when '
    'the type unwraps (through aliases) to a nullable. R3: js_client emits the route attribute '
    'values by iterating route_schema.fields (schema order), passes arg or null by the Void test, '
    'builds the URL with fmt_url whose `_vN` rule and fmt_func\'s `VN` rule switch on the same '
    'version test, and renders attribute literals with repr/json.dumps. R4: js_types visits '
    'every data type of every namespace; tsd_types visits data types and aliases '
    '(get_data_types_for_namespace) and skips a namespace only when that list is empty; '
    'tsd_client emits one method per route of every namespace. Decides these structural parts.'
    " R5 (generator totality, stonelint.totality): every read of a class-specific IR attribute in the six modules is defined for every class that can reach it, every raise/assert is an unreachable dispatch default, a doc-tag default covering the frontend's tags, a configuration condition or a recorded precondition, and class-keyed table lookups are total."
    ' RC (call-condition drift, stonelint.effects.run_calls): for every call of a repository or imported-library function in the functions the property is anchored in, the path conditions of its occurrences are compared with reference/effects.json by truth table; an assignment under which the function used to make the call and now completes without it is a violation (tests on memo tables, emptiness of the iterated collection and earlier refusals excepted; re-spelled conditions are not claimed).'
    ' MK (memo-key rule, stonelint.memo): a memo table or done-set the reference tree does not have must be keyed by every access path the skipped code reads, injectively and type-aware.'
    ' RI (interface drift, stonelint.interface): constants and tables (folded values), compiled regular expressions (witness text), parameter defaults, special methods, base classes and caching decorators of the modules the property rests on are compared with reference/interface.json; only a concrete difference in what is computed is reported.'
    ' MU (mutation drift, stonelint.mutation): the functions the property rests on update in place only the caller-owned, class-level and module-level objects they updated on the confirmed tree, and have no new handler that swallows an exception (reference/mutations.json).')
ASSUMPTIONS = ['repr() of a str and json.dumps of a number/bool/null are valid JavaScript literals']
PRIMS = {'Boolean', 'Bytes', 'Float32', 'Float64', 'Int32', 'Int64', 'UInt32', 'UInt64', 'String',
         'Timestamp', 'Void'}


TOTALITY_PRECONDITIONS = {
    ('backends.tsd_types.TSDTypesBackend._generate_base_namespace_module', 'raise AssertionError'):
        'the condition is the content of the template file named on the command line (a backend '
        'option), not the spec',
}

def run(pm, ctx):
    for r, t in (('C16-R1', 'type formatting exhaustive; dispatch to emitters'),
                 ('C16-R2', 'optional-marker truth tables'),
                 ('C16-R3', 'js_client arguments, null, URL and function naming'),
                 ('C16-R4', 'every declaration of every namespace is visited once')):
        ctx.rule(r, t)
    irf = ir_family(pm)

    # ---------------- R1
    for modname in (JH, TH):
        m = pm.module(modname)
        tab = m.assigns.get('_base_type_table')
        keys = {unparse(k) for k in tab.keys} if isinstance(tab, ast.Dict) else set()
        ctx.check('C16-R1', PRIMS | {'List'} <= keys,
                  '%s._base_type_table covers every primitive and List' % modname.split('.')[-1],
                  m.relpath, msg='%s._base_type_table lacks %s: such fields would be declared as '
                                 '`Object`' % (modname, sorted((PRIMS | {'List'}) - keys)),
                  key='C16-R1|%s|table' % modname)
        ftn = pm.func(modname + '.fmt_type_name')
        pi = path_info(ftn.node)
        # user types by name
        rets = [r for r in own_nodes(ftn.node) if isinstance(r, ast.Return)]
        user = [r for r in rets if any(('is_user_defined_type(data_type)' in unparse(e)) and pol
                                       for e, pol in pi.at(r))]
        ctx.check('C16-R1', len(user) >= 1 and all('data_type.name' in unparse(r.value) or
                                                   'data_type.namespace.name' in unparse(r.value)
                                                   for r in user),
                  '%s.fmt_type_name names user types by their spec name' % modname.split('.')[-1],
                  ftn.loc, msg='user types are no longer named from data_type.name',
                  key='C16-R1|%s|user' % ftn.qualname)
        lst = [n for n in own_nodes(ftn.node) if isinstance(n, ast.AugAssign) and
               'fmt_type(data_type.data_type' in unparse(n.value)]
        ctx.check('C16-R1', len(lst) == 1 and any(unparse(e) == 'is_list_type(data_type)' and pol
                                                  for e, pol in pi.at(lst[0])),
                  '%s.fmt_type_name recurses into list items' % modname.split('.')[-1], ftn.loc,
                  msg='list item types are no longer formatted', key='C16-R1|%s|list' % ftn.qualname)
        raises = [n for f in m.functions.values() if f.name.startswith('fmt_type')
                  for n in own_nodes(f.node) if isinstance(n, ast.Raise)]
        ctx.check('C16-R1', not raises, '%s type formatters have no raising fall-through'
                  % modname.split('.')[-1], m.relpath,
                  msg='a type formatter of %s can raise' % modname, key='C16-R1|%s|raise' % modname)
        ft = pm.func(modname + '.fmt_type')
        pi = path_info(ft.node)
        un = [r for r in own_nodes(ft.node) if isinstance(r, ast.Return) and
              'union' in unparse(r.value).lower()]
        ctx.check('C16-R1', len(un) == 1 and {(unparse(e), pol) for e, pol in pi.at(un[0])} >= {
            ('is_struct_type(data_type)', True), ('data_type.has_enumerated_subtypes()', True)},
            '%s.fmt_type renders an enumerated-subtype root as the union of its subtypes'
            % modname.split('.')[-1], ft.loc,
            msg='enumerated-subtype references are no longer rendered as a union',
            key='C16-R1|%s|subtypes' % ft.qualname)
    tftn = pm.func(TH + '.fmt_type_name')
    pi = path_info(tftn.node)
    mp = [n for n in own_nodes(tftn.node) if isinstance(n, ast.Assign) and
          'value_data_type' in unparse(n.value) and 'fmt_type_name' in unparse(n.value)]
    ctx.check('C16-R1', len(mp) == 1 and any(unparse(e) == 'is_map_type(data_type)' and pol
                                             for e, pol in pi.at(mp[0])),
              'tsd fmt_type_name formats map value types', tftn.loc,
              msg='map value types are no longer formatted', key='C16-R1|%s|map' % tftn.qualname)
    al = [r for r in own_nodes(tftn.node) if isinstance(r, ast.Return) and
          any('is_alias(data_type)' in unparse(e) and pol for e, pol in pi.at(r))]
    ctx.check('C16-R1', len(al) >= 1, 'tsd fmt_type_name names aliases by their spec name', tftn.loc,
              msg='aliases are no longer referenced by name in TypeScript',
              key='C16-R1|%s|alias' % tftn.qualname)
    gt = pm.func(TT + '._generate_type')
    disp = {}
    for c in own_nodes(gt.node):
        if isinstance(c, ast.Call) and call_name(c) in ('_generate_alias_type',
                                                        '_generate_struct_type',
                                                        '_generate_union_type'):
            disp[call_name(c)] = reaching_classes(pm, irf, gt, c, 'data_type',
                                                  universe=frozenset({'Alias', 'Struct', 'Union'}))
    ctx.check('C16-R1', disp == {'_generate_alias_type': {'Alias'},
                                 '_generate_struct_type': {'Struct'},
                                 '_generate_union_type': {'Union'}},
              'tsd _generate_type dispatches alias/struct/union to their emitters', gt.loc,
              msg='tsd type dispatch changed: %s' % disp, key='C16-R1|%s' % gt.qualname)
    jgt = pm.func(JT + '._generate_type')
    disp = {}
    for c in own_nodes(jgt.node):
        if isinstance(c, ast.Call) and call_name(c) in ('_generate_struct', '_generate_union'):
            disp[call_name(c)] = reaching_classes(pm, irf, jgt, c, 'data_type',
                                                  universe=frozenset({'Struct', 'Union'}))
    ctx.check('C16-R1', disp == {'_generate_struct': {'Struct'}, '_generate_union': {'Union'}},
              'js _generate_type dispatches struct/union to their emitters', jgt.loc,
              msg='js type dispatch changed: %s' % disp, key='C16-R1|%s' % jgt.qualname)

    # ---------------- R2
    ts = pm.func(TT + '._generate_struct_type')
    d = defs(ts.node)
    opt = d.all_values('optional')

    def k(e):
        t = unparse(e)
        return {'nullable': 'nullable', 'field.has_default': 'default'}.get(t, ('other', t))
    ok = False
    if len(opt) == 1:
        keys, tab = truth_table(opt[0], k)
        ok = keys == ['default', 'nullable'] and all(v == (a or b) for (a, b), v in tab.items())
    pits = path_info(ts.node)
    fn = sorted((unparse(leaf), tuple((unparse(e), p) for e, p in pits.at(leaf)
                                      if unparse(e) == 'optional'))
                for leaf, _st in assigned_alternatives(ts.node, 'field_name'))
    ctx.check('C16-R2', ok and fn == [("'{}?'.format(field.name)", (('optional', True),)),
                                      ('field.name', (('optional', False),))] and
              [unparse(v) for kind, v, s in d.values.get('field_type', [])] ==
              ['unwrap_nullable(field.data_type)'],
              'TypeScript: `?` exactly when the field is nullable or has a default', ts.loc,
              msg='TypeScript optional marker is decided as %s / %s' % (
                  [unparse(o) for o in opt], fn), key='C16-R2|%s|optional' % ts.qualname)
    flds = [unparse(l.iter) for l in own_nodes(ts.node) if isinstance(l, ast.For) and
            'fields' in unparse(l.iter)]
    ctx.check('C16-R2', flds == ['struct_type.fields'] and 'extends {}' in ' '.join(
        unparse(n) for n in own_nodes(ts.node) if isinstance(n, ast.Assign)),
        'TypeScript interface declares own fields and extends the parent interface', ts.loc,
        msg='TypeScript struct field source changed: %s' % flds,
        key='C16-R2|%s|fields' % ts.qualname)
    js = pm.func(JT + '._generate_struct')
    dj = defs(js.node)
    src = [(kind, unparse(v)) for kind, v, s in dj.values.get('nullable', [])]
    pijs = path_info(js.node)
    fnj = sorted((unparse(leaf), tuple((unparse(e), p) for e, p in pijs.at(leaf)
                                       if unparse(e) == 'nullable'))
                 for leaf, _st in assigned_alternatives(js.node, 'field_name'))
    ctx.check('C16-R2', src == [('assign-unpack:1', 'unwrap(field.data_type)')] and
              fnj == [("'[' + field.name + ']'", (('nullable', True),)),
                      ('field.name', (('nullable', False),))],
              'JSDoc: `[name]` exactly when the type unwraps, through aliases, to a nullable',
              js.loc, msg='JSDoc optional marker is derived from %s / %s' % (src, fnj),
              key='C16-R2|%s|optional' % js.qualname)
    flds = [unparse(l.iter) for l in own_nodes(js.node) if isinstance(l, ast.For) and
            'fields' in unparse(l.iter)]
    ctx.check('C16-R2', flds == ['struct_type.all_fields'],
              'JSDoc typedef lists inherited fields too (typedefs cannot inherit)', js.loc,
              msg='JSDoc struct field source changed: %s' % flds,
              key='C16-R2|%s|fields' % js.qualname)
    uw = pm.func('stone.ir.data_types.unwrap')
    ctx.check('C16-R2', any(isinstance(n, ast.While) and 'is_alias(data_type)' in unparse(n.test)
                            and 'is_nullable_type(data_type)' in unparse(n.test)
                            for n in own_nodes(uw.node)),
              'ir.unwrap peels aliases and nullables in any nesting', uw.loc,
              msg='ir.unwrap no longer loops over alias/nullable layers', key='C16-R2|unwrap')

    # ---------------- R3
    gr = pm.func(JC + '._generate_route')
    pi = path_info(gr.node)
    from ..model import element_sites
    lp = [l for l in element_sites(gr.node) if unparse(l['iter']) == 'route_schema.fields']
    ok = len(lp) == 1 and unparse(lp[0]['elt']) == 'fmt_obj(route.attrs[field.name])' and \
        not lp[0]['ifs']
    ctx.check('C16-R3', ok, 'attribute values are appended in route-schema field order', gr.loc,
              msg='js_client no longer builds the attribute arguments by iterating '
                  'route_schema.fields', key='C16-R3|%s|attrs' % gr.qualname)
    reqs = [c for c in own_nodes(gr.node) if isinstance(c, ast.Call) and call_name(c) == 'emit' and
            c.args and 'this.request(' in unparse(c.args[0])]
    good = len(reqs) == 4
    for c in reqs:
        t = unparse(c.args[0])
        void = [pol for e, pol in pi.at(c) if unparse(e) == 'route.arg_data_type.__class__ != Void']
        has_arg = ', arg' in t
        has_null = ', null' in t
        good &= void == [has_arg] and has_arg != has_null
        with_attrs = any(unparse(e) == 'route_schema.fields' and pol for e, pol in pi.at(c))
        good &= with_attrs == ("', '.join(additional_args)" in t)
        good &= 'url' in [unparse(a) for a in c.args[0].args]
    ctx.check('C16-R3', good, 'request(url, arg|null, attrs..., options): arg exactly for a '
              'non-Void argument, attribute values exactly when the schema has fields', gr.loc,
              msg='js_client request emission changed', key='C16-R3|%s|request' % gr.qualname)
    dg = defs(gr.node)
    ctx.check('C16-R3', [unparse(v) for v in dg.all_values('url')] ==
              ['fmt_url(namespace.name, route.name, route.version)'] and
              [unparse(v) for v in dg.all_values('function_name')] ==
              ["fmt_func(namespace.name + '_' + route.name, route.version)"],
              'URL = fmt_url(ns, route, version); function = fmt_func(ns_route, version)', gr.loc,
              msg='URL / function naming changed', key='C16-R3|%s|names' % gr.qualname)
    fu = pm.func(JH + '.fmt_url')
    ff = pm.func(JH + '.fmt_func')

    def versioned(f, var):
        pi_ = path_info(f.node)
        out = {}
        for r in own_nodes(f.node):
            if isinstance(r, ast.Return):
                v1 = [(unparse(e), pol) for e, pol in pi_.at(r)]
                is_v1 = (('%s == 1' % var, True) in v1) or (('%s != 1' % var, False) in v1)
                out['v1' if is_v1 else 'vN'] = unparse(r.value)
        return out
    u, fnc = versioned(fu, 'route_version'), versioned(ff, 'version')
    ctx.check('C16-R3', u.get('v1') == "'{}/{}'.format(namespace_name, route_name)" and
              '_v{}' in u.get('vN', '') and fnc.get('v1') == 'fmt_camel(name)' and
              "'V{}'.format(version)" in fnc.get('vN', ''),
              'version 1 is unsuffixed in URL and function name; later versions get _vN / VN',
              fu.loc, msg='version suffix rules differ: url %s, function %s' % (u, fnc),
              key='C16-R3|version-suffix')
    fo = pm.func(JH + '.fmt_obj')
    pi = path_info(fo.node)
    rets = {unparse(r.value): [(unparse(e), p) for e, p in pi.at(r)]
            for r in own_nodes(fo.node) if isinstance(r, ast.Return)}
    ctx.check('C16-R3', rets == {"repr(o).lstrip('u')": [('isinstance(o, str)', True)],
                                 'json.dumps(o, indent=2)': [('isinstance(o, str)', False)]},
              'attribute literals: strings by repr (escaped), everything else by json.dumps',
              fo.loc, msg='js fmt_obj renders literals as %s: quotes/backslashes in a string '
                          'attribute would produce malformed JavaScript' % rets,
              key='C16-R3|%s' % fo.qualname)
    for q in (JC + '.generate', TC + '._generate_routes'):
        f = pm.func(q)
        its = [unparse(l.iter) for l in own_nodes(f.node) if isinstance(l, ast.For)]
        ok = its == ['api.namespaces.values()', 'namespace.routes'] and \
            any(isinstance(c, ast.Call) and call_name(c) == '_generate_route'
                for c in own_nodes(f.node)) and \
            any(isinstance(c, ast.Call) and call_name(c) == 'check_route_name_conflict'
                for c in own_nodes(f.node))
        ctx.check('C16-R3', ok, '%s emits one function per route of every namespace after the '
                  'name-conflict check' % f.short, f.loc,
                  msg='%s no longer visits every route of every namespace: %s' % (f.short, its),
                  key='C16-R3|%s|coverage' % q)
    tr = pm.func(TC + '._generate_route')
    dt = defs(tr.node)
    ctx.check('C16-R3', [unparse(v) for v in dt.all_values('function_name')] ==
              ["fmt_func(namespace.name + '_' + route.name, route.version)"] and
              "'arg: {}'.format(fmt_type(route.arg_data_type))" in [unparse(v) for v in
                                                              dt.all_values('arg')] and
              all('fmt_type(route.result_data_type)' in unparse(v)
                  for v in dt.all_values('return_type') if not isinstance(v, ast.Constant)),
              'tsd_client method: same name rule, mapped argument and result types', tr.loc,
              msg='tsd_client method declaration changed', key='C16-R3|%s' % tr.qualname)

    # ---------------- R4
    jg = pm.func(JT + '.generate')
    its = [unparse(l.iter) for l in own_nodes(jg.node) if isinstance(l, ast.For)]
    ctx.check('C16-R4', its == ['api.namespaces.values()', 'namespace.data_types'] and
              not any(isinstance(n, (ast.Continue, ast.If)) for l in own_nodes(jg.node)
                      if isinstance(l, ast.For) for n in l.body),
              'js_types visits every data type of every namespace, unfiltered', jg.loc,
              msg='js_types iteration changed: %s' % its, key='C16-R4|%s' % jg.qualname)
    gdt = pm.func(TH + '.get_data_types_for_namespace')
    ctx.check('C16-R4', returns_text(gdt.node) == 'namespace.data_types + namespace.aliases',
              'tsd: the declarations of a namespace are its data types and its aliases', gdt.loc,
              msg='get_data_types_for_namespace changed', key='C16-R4|%s' % gdt.qualname)
    tg = pm.func(TT + '._generate_types')
    dtg = defs(tg.node)
    pi = path_info(tg.node)
    ok = [unparse(v) for v in dtg.all_values('data_types')] == \
        ['get_data_types_for_namespace(namespace)'] and \
        any(isinstance(l, ast.For) and unparse(l.iter) == 'data_types' and
            any(isinstance(c, ast.Call) and call_name(c) == '_generate_type'
                for c in ast.walk(l)) for l in own_nodes(tg.node))
    rts = [r for r in own_nodes(tg.node) if isinstance(r, ast.Return)]
    ok = ok and len(rts) == 1 and [(unparse(e), p) for e, p in pi.at(rts[0])] == \
        [('len(data_types) == 0', True)]
    ctx.check('C16-R4', ok, 'tsd_types declares every data type and alias; a namespace is skipped '
              'only when it has neither', tg.loc,
              msg='tsd_types no longer declares every data type and alias of a namespace',
              key='C16-R4|%s' % tg.qualname)
    tb = pm.func(TT + '._generate_base_namespace_module')
    pi = path_info(tb.node)
    rts = [r for r in own_nodes(tb.node) if isinstance(r, ast.Return)]
    ok = len(rts) == 1 and [unparse(e) for e, p in pi.at(rts[0]) if p] == [
        'all([len(get_data_types_for_namespace(ns)) == 0 for ns in namespace_list])']
    ctx.check('C16-R4', ok, 'a tsd output file is skipped only when none of its namespaces has '
              'data types or aliases', tb.loc,
              msg='the skip test of _generate_base_namespace_module no longer counts aliases: an '
                  'alias-only namespace gets no declaration file while others import it',
              key='C16-R4|%s|skip' % tb.qualname)
    tgn = pm.func(TT + '.generate')
    its = [unparse(l.iter) for l in own_nodes(tgn.node) if isinstance(l, ast.For)]
    ctx.check('C16-R4', its == ['api.namespaces.values()'] and
              any(isinstance(c, ast.Call) and call_name(c) == '_generate_base_namespace_module' and
                  unparse(c.args[0]) == 'api.namespaces.values()' for c in own_nodes(tgn.node)),
              'tsd_types covers every namespace in both output modes', tgn.loc,
              msg='tsd_types namespace coverage changed', key='C16-R4|%s' % tgn.qualname)
    ju = pm.func(JT + '._generate_union')
    tu = pm.func(TT + '._generate_union_type')
    ctx.check('C16-R4', [unparse(l.iter) for l in own_nodes(ju.node) if isinstance(l, ast.For)] ==
              ['union_type.all_fields'] and
              [unparse(l.iter) for l in own_nodes(tu.node) if isinstance(l, ast.For)] ==
              ['union_type.fields'],
              'unions: JSDoc lists all tags incl. inherited; TypeScript lists own tags and unions '
              'with the parent type', ju.loc, msg='union tag sources changed',
              key='C16-R4|union-tags')
    ti = pm.func(TH + '.generate_imports_for_referenced_namespaces')
    ctx.check('C16-R4', any(isinstance(c, ast.Call) and unparse(c) ==
                            'namespace.get_imported_namespaces()' for c in own_nodes(ti.node)) and
              any(isinstance(l, ast.For) and unparse(l.iter) == 'imported_namespaces'
                  for l in own_nodes(ti.node)),
              'per-namespace TypeScript files import every referenced namespace', ti.loc,
              msg='TypeScript namespace imports changed', key='C16-R4|%s' % ti.qualname)
    totality.run_pack(pm, ctx, 'C16-R5', ('stone.backends.js_helpers', 'stone.backends.js_client', 'stone.backends.js_types', 'stone.backends.tsd_helpers', 'stone.backends.tsd_types', 'stone.backends.tsd_client'),
                      True, 'the JavaScript/TypeScript backends', TOTALITY_PRECONDITIONS, (15, 6, 0))
    # one notion of "this namespace declares something" across the TypeScript backends: the client
    # imports exactly the namespaces for which tsd_types emits a module
    n_tests = 0
    from ..pathcond import decompose

    def emptiness_operands(f):
        """Operands whose emptiness a test of f decides on: len(X) in a comparison, or X / not X
        as an atom of an if / conditional expression / comprehension filter / while."""
        out = []
        for n in own_nodes(f.node, include_nested=True):
            if isinstance(n, ast.Call) and call_name(n) == 'len' and n.args and \
                    isinstance(getattr(n, '_parent', None), ast.Compare):
                out.append((n.args[0], n))
            tests = []
            if isinstance(n, (ast.If, ast.While, ast.IfExp)):
                tests.append(n.test)
            elif isinstance(n, ast.comprehension):
                tests.extend(n.ifs)
            for t in tests:
                for e, _ in decompose(t, True):
                    if isinstance(e, (ast.Attribute, ast.Call)) and not (
                            isinstance(e, ast.Call) and call_name(e) in ('len', 'isinstance')):
                        out.append((e, e))
        return out
    for mod in (TT.rsplit('.', 1)[0], TC.rsplit('.', 1)[0], TH):
        for f in pm.funcs_in(mod):
            if f.parent is not None:
                continue
            for inner, n in emptiness_operands(f):
                    direct = any(isinstance(x, ast.Attribute) and x.attr in ('data_types', 'aliases')
                                 for x in ast.walk(inner))
                    via = isinstance(inner, ast.Call) and \
                        call_name(inner) == 'get_data_types_for_namespace'
                    if not (direct or via):
                        continue
                    n_tests += 1
                    ctx.check('C16-R4', via and not direct,
                              '%s: "namespace has declarations" is get_data_types_for_namespace '
                              '(types and aliases)' % f.short,
                              '%s:%d' % (f.module.relpath, n.lineno),
                              msg='%s decides whether a namespace has declarations from %s instead '
                                  'of get_data_types_for_namespace: a namespace holding only '
                                  'aliases is treated differently by tsd_types and tsd_client'
                                  % (f.short, unparse(inner)),
                              key='C16-R4|%s|has-declarations' % f.qualname)
    ctx.floor('C16-R4', n_tests, 2, 'namespace-emptiness tests in the TypeScript backends')
    ctx.import_rules(pm, 'C09', {'C09-R4'}, 'C16-R6',
                     'get_imported_namespaces keeps a namespace referenced through data types, '
                     'aliases or annotation types (shared with C09-R4)', only=lambda o:
                     'get_imported_namespaces' in o['instance'] or 'ApiNamespace' in o['where'])

    ctx.import_rules(pm, 'C02', {'C02-R12'}, 'C16-R6',
                     'the unwrap helpers of the IR peel exactly the wrappers their names say '
                     '(shared with C02-R12)')
    from ..effects import run_decisions
    from ..ownership import OWN
    run_decisions(pm, ctx, 'C16-RD', OWN['C16'])
    from .. import exprdrift
    exprdrift.run(pm, ctx, 'C16-RE', OWN['C16'])
    from ..effects import run_calls
    run_calls(pm, ctx, 'C16-RC', OWN['C16'])
    from .. import memo
    memo.run(pm, ctx, 'C16-MK', OWN['C16'])
    from .. import interface
    interface.run(pm, ctx, 'C16-RI', OWN['C16'])
    from .. import mutation
    mutation.run(pm, ctx, 'C16-MU', OWN['C16'])
