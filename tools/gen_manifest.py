#!/venv/bin/python
"""Regenerate MANIFEST.json from the rule modules' metadata."""
import importlib
import json
import os
import sys

HERE = os.path.dirname(os.path.dirname(os.path.abspath(__file__)))
sys.path.insert(0, HERE)
sys.dont_write_bytecode = True

NOT_BUILT = 'check not built yet (see DESIGN.md section 4 for the planned structural rules)'
NA = {}

props = [json.loads(l) for l in open(os.path.join(HERE, 'properties.jsonl'))]
checks, na = [], []
for p in props:
    pid = p['id']
    path = os.path.join(HERE, 'stonelint', 'rules', pid + '.py')
    if not os.path.exists(path) or pid in NA:
        na.append({'property_id': pid, 'reason': NA.get(pid, NOT_BUILT)})
        continue
    mod = importlib.import_module('stonelint.rules.' + pid)
    meta = getattr(mod, 'MANIFEST', {})
    checks.append({
        'property_id': pid,
        'quick_cmd': './check %s --tier quick' % pid,
        'thorough_cmd': './check %s --tier thorough' % pid,
        'evidence_file': '/verif/evidence/%s.json' % pid,
        'replay_cmd_template': './check %s --replay {path}' % pid,
        'engine': 'stonelint',
        'level_claimed': {
            'category': 'other',
            'text': meta.get('level_text') or (
                'Static analysis (ast, structured path conditions, call graph) of the current '
                'working tree: decides the structural necessary conditions of the property named '
                'in DESIGN.md section 4/%s on every path of the source, not the runtime behaviour '
                'itself.' % pid),
            'design_ref': 'DESIGN.md section 4/%s' % pid,
        },
        'level_note': meta.get('level_note') or '; '.join(mod.ASSUMPTIONS),
        'technique': meta.get('technique', 'static analysis: ast + path conditions'),
    })

manifest = {
    'version': 1,
    'setup_cmd': '/venv/bin/python /verif/check --help > /dev/null',
    'hooks': {
        'guard': 'STONE_VERIF',
        'enable': 'none needed: the checks parse /repo\'s working tree with ast; nothing in '
                  '/repo is instrumented and no hook commits exist',
        'baseline_off_cmd': 'cd /repo && /venv/bin/python -m pytest -ra -q -p no:cacheprovider '
                            '--timeout=900 --continue-on-collection-errors',
        'source_commits': [],
        'add_only': True,
    },
    'engines': [{
        'name': 'stonelint',
        'path': '/verif/stonelint',
        'serves_properties': [c['property_id'] for c in checks],
        'kind_free_text': 'repository-specific static analyser written for dropbox/stone: ast '
                          'program model, class-lattice partitions, structured path conditions, '
                          'call graph, exception-escape and order-taint dataflow, sibling '
                          'agreement, LALR table inspection',
    }],
    'checks': checks,
    'not_applicable': na,
    'notes': 'All checks are static: they never import stone from /repo, compile a spec or run '
             'generated code. Exit 2 + ANALYSIS-ERROR means the analysis could not decide (e.g. a '
             'vanished anchor). Known findings are listed in /verif/known_findings.json.',
}
with open(os.path.join(HERE, 'MANIFEST.json'), 'w') as f:
    json.dump(manifest, f, indent=1)
print('MANIFEST: %d checks, %d not_applicable' % (len(checks), len(na)))
