"""Alpha-normalisation of local variable names against the reference tree.

Many rule instances are phrased over the locals of one function ("the value
that `unwrap_nullable(data_type)` is unpacked into", spelled ``dt`` today).
Renaming a local is a behaviour-preserving edit and must not change a verdict.
Instead of re-deriving every role in every rule, the program model renames the
locals of the *current* tree back to the spelling they have in the reference
tree (``reference/locals.json``, generated from /repo when the rules were
confirmed) whenever a local is recognisably the same variable:

* every local of a function gets a *descriptor*: the multiset of its bindings,
  each ``(kind, text of the bound expression with every local name replaced by
  a placeholder)``; parameters, attributes, callees and constants stay;
* a current local is matched to the reference local with the same descriptor
  and the same ordinal among equal descriptors (source order of first
  binding); when the function's descriptor multiset differs from the
  reference's (the function really changed) only descriptors that are unique
  on both sides are matched;
* the renaming is applied to the in-memory AST only when it is a consistent
  bijection that collides with no other name of the function.

A consistent renaming preserves the meaning of the function, so every verdict
computed on the renamed AST is a verdict about the original.  Locals that are
not matched keep their spelling (and rules that need them behave as before).
"""
import ast
import json
import os

PLACEHOLDER = '§'


def _locals_of(fn):
    """Names bound in the function's own scope or in its comprehensions (not
    parameters, not names bound in nested defs)."""
    params = {a.arg for a in fn.args.posonlyargs + fn.args.args + fn.args.kwonlyargs}
    if fn.args.vararg:
        params.add(fn.args.vararg.arg)
    if fn.args.kwarg:
        params.add(fn.args.kwarg.arg)
    declared = set()
    binds = {}     # name -> [(order, kind, expr)]
    counter = [0]

    def bind(target, kind, expr):
        if isinstance(target, ast.Name):
            counter[0] += 1
            binds.setdefault(target.id, []).append((counter[0], kind, expr))
        elif isinstance(target, (ast.Tuple, ast.List)):
            for i, t in enumerate(target.elts):
                bind(t, '%s[%d/%d]' % (kind, i, len(target.elts)), expr)
        elif isinstance(target, ast.Starred):
            bind(target.value, kind + '*', expr)

    def walk(n):
        for c in ast.iter_child_nodes(n):
            if isinstance(c, (ast.FunctionDef, ast.AsyncFunctionDef, ast.ClassDef)):
                counter[0] += 1
                binds.setdefault(c.name, []).append((counter[0], 'def', None))
                continue
            if isinstance(c, ast.Lambda):
                continue
            if isinstance(c, (ast.Global, ast.Nonlocal)):
                declared.update(c.names)
            if isinstance(c, ast.Assign):
                for t in c.targets:
                    bind(t, 'assign', c.value)
            elif isinstance(c, ast.AnnAssign) and c.value is not None:
                bind(c.target, 'assign', c.value)
            elif isinstance(c, ast.AugAssign):
                bind(c.target, 'aug', c.value)
            elif isinstance(c, (ast.For, ast.AsyncFor)):
                bind(c.target, 'for', c.iter)
            elif isinstance(c, ast.comprehension):
                bind(c.target, 'comp', c.iter)
            elif isinstance(c, (ast.With, ast.AsyncWith)):
                for it in c.items:
                    if it.optional_vars is not None:
                        bind(it.optional_vars, 'with', it.context_expr)
            elif isinstance(c, ast.NamedExpr):
                bind(c.target, 'walrus', c.value)
            elif isinstance(c, ast.ExceptHandler) and c.name:
                counter[0] += 1
                binds.setdefault(c.name, []).append((counter[0], 'except', c.type))
            elif isinstance(c, (ast.Import, ast.ImportFrom)):
                for a in c.names:
                    nm = (a.asname or a.name).split('.')[0]
                    counter[0] += 1
                    binds.setdefault(nm, []).append((counter[0], 'import:' + a.name, None))
            walk(c)
    walk(fn)
    for nm in list(binds):
        if nm in params or nm in declared:
            del binds[nm]
    return params, binds


def _text(expr, local_names):
    """Text of ``expr`` with every local name replaced by the placeholder
    (names are patched in place and restored: no copy)."""
    if expr is None:
        return ''
    touched = []
    for n in ast.walk(expr):
        if isinstance(n, ast.Name) and n.id in local_names:
            touched.append((n, n.id))
            n.id = PLACEHOLDER
    try:
        return ast.unparse(expr)
    finally:
        for n, old in touched:
            n.id = old


def ordered_names(fn):
    _, binds = _locals_of(fn)
    return [nm for nm, bs in sorted(binds.items(), key=lambda kv: min(o for o, _, _ in kv[1]))]


def descriptors(fn):
    """[(name, descriptor, first_order)] for the locals of ``fn``."""
    params, binds = _locals_of(fn)
    names = set(binds)
    out = []
    for nm, bs in binds.items():
        desc = tuple(sorted((kind, _text(expr, names)) for _, kind, expr in bs))
        out.append((nm, desc, min(o for o, _, _ in bs)))
    out.sort(key=lambda t: t[2])
    return params, out


def reference_entry(fn):
    """What is stored per function: [[name, descriptor-as-text], ...] in
    first-binding order."""
    _, ds = descriptors(fn)
    return [[nm, json.dumps(desc)] for nm, desc, _ in ds]


def _all_names(fn):
    out = set()
    for n in ast.walk(fn):
        if isinstance(n, ast.Name):
            out.add(n.id)
        elif isinstance(n, ast.arg):
            out.add(n.arg)
    return out


def mapping_for(fn, ref):
    """{current name: reference name} for one function, or {}."""
    ref = [(nm, d) for nm, d in ref]
    if ordered_names(fn) == [n for n, _ in ref]:
        return {}
    params, cur = descriptors(fn)
    cur = [(nm, json.dumps(desc)) for nm, desc, _ in cur]
    same_shape = sorted(d for _, d in cur) == sorted(d for _, d in ref)

    def by_desc(items):
        t = {}
        for nm, d in items:
            t.setdefault(d, []).append(nm)
        return t
    cd, rd = by_desc(cur), by_desc(ref)
    m = {}
    for d, names in cd.items():
        rn = rd.get(d)
        if not rn:
            continue
        if same_shape and len(rn) == len(names):
            for a, b in zip(names, rn):
                m[a] = b
        elif len(rn) == 1 and len(names) == 1:
            m[names[0]] = rn[0]
    m = {a: b for a, b in m.items() if a != b}
    if not m:
        return {}
    # consistent bijection without collisions
    if len(set(m.values())) != len(m):
        return {}
    existing = _all_names(fn)
    for a, b in m.items():
        if b in existing and b not in m:      # target spelling is taken by something else
            return {}
        if b in params:
            return {}
    return m


def apply(fn, m):
    for n in ast.walk(fn):
        if isinstance(n, ast.Name) and n.id in m:
            n.id = m[n.id]
        elif isinstance(n, ast.ExceptHandler) and n.name in m:
            n.name = m[n.name]


def load_reference(verif_root):
    p = os.path.join(verif_root, 'reference', 'locals.json')
    if not os.path.exists(p):
        return None
    with open(p, encoding='utf-8') as f:
        return json.load(f)['functions']


_MUTATORS = {'append', 'extend', 'add', 'update', 'insert', 'pop', 'remove', 'clear', 'sort',
             'setdefault', 'discard', 'reverse', 'popitem', 'appendleft', 'write'}


_PURE_CALLS = {'len', 'isinstance', 'issubclass', 'str', 'repr', 'int', 'float', 'bool', 'tuple',
               'type', 'id', 'hasattr', 'getattr', 'min', 'max', 'abs', 'ord', 'chr', 'sorted',
               'list', 'dict', 'set', 'frozenset', 'any', 'all', 'sum', 'zip', 'enumerate',
               'range', 'format', 'callable', 'divmod', 'round', 'bytes'}
_PURE_METHODS = {'format', 'join', 'lower', 'upper', 'startswith', 'endswith', 'strip', 'lstrip',
                 'rstrip', 'split', 'rsplit', 'replace', 'capitalize', 'title', 'isdigit',
                 'isalpha', 'isalnum', 'isupper', 'islower', 'encode', 'decode', 'get', 'keys',
                 'values', 'items', 'index', 'count', 'find', 'rfind', 'partition', 'rpartition',
                 'splitlines', 'zfill', 'ljust', 'rjust', 'copy', 'isidentifier', 'group',
                 'groups', 'span', 'start', 'end'}


def _pure_call(c, ms=None):
    """No object state is changed by the call: a builtin / string / mapping reader, or (with the
    modification sets) a call none of whose possible callees assigns or updates anything."""
    pure_functions = ()
    if ms is not None and not ms.mod_of_call(c):
        return True
    f = c.func
    if isinstance(f, ast.Name):
        return f.id in _PURE_CALLS or f.id in pure_functions
    if isinstance(f, ast.Attribute):
        return f.attr in _PURE_METHODS or f.attr in pure_functions
    return False


def _dfs(node, out=None):
    if out is None:
        out = []
    out.append(node)
    for c in ast.iter_child_nodes(node):
        _dfs(c, out)
    return out


def _may_move(fn, stmt, nm, ms, pure_functions):
    """May the evaluation of ``stmt.value`` move from the assignment to every read of ``nm``?
    (i) a value with an impure call: only to a single read in the head of the statement that
    directly follows; (ii) otherwise, when impure calls lie between the assignment and the last
    read, the value must not read state they may change (modset.ModSets: the attributes the
    callees assign or update in place, transitively, against the attributes the value depends
    on, properties expanded)."""
    order = _dfs(fn)
    pos = {id(n): i for i, n in enumerate(order)}
    reads = [n for n in order if isinstance(n, ast.Name) and n.id == nm and
             isinstance(n.ctx, ast.Load)]
    if not reads:
        return True
    value = stmt.value
    v_calls = [x for x in ast.walk(value) if isinstance(x, ast.Call)]
    if len(reads) > 1 and (isinstance(value, ast.GeneratorExp) or (
            isinstance(value, ast.Call) and isinstance(value.func, ast.Name) and
            value.func.id in ('map', 'filter', 'zip', 'iter', 'reversed', 'enumerate'))):
        return False        # an iterator read twice is not two iterators
    impure_value = any(not _pure_call(c, ms) for c in v_calls)
    # the block holding the assignment, and the statement after it
    nxt = None
    for n in order:
        for field in ('body', 'orelse', 'finalbody'):
            blk = getattr(n, field, None)
            if isinstance(blk, list) and stmt in blk:
                i = blk.index(stmt)
                nxt = blk[i + 1] if i + 1 < len(blk) else None
    if impure_value:
        if len(reads) != 1 or nxt is None:
            return False
        if isinstance(nxt, (ast.If, ast.While)):
            head = nxt.test
        elif isinstance(nxt, (ast.For, ast.AsyncFor)):
            head = nxt.iter
        elif isinstance(nxt, (ast.With, ast.Try, ast.FunctionDef, ast.ClassDef)):
            return False
        else:
            head = nxt
        inside = {id(x) for x in ast.walk(head)}
        if id(reads[0]) not in inside:
            return False
        # not under a lambda / comprehension / conditional expression of that head
        for x in ast.walk(head):
            if isinstance(x, (ast.Lambda, ast.ListComp, ast.SetComp, ast.DictComp,
                              ast.GeneratorExp, ast.IfExp, ast.BoolOp)):
                if any(y is reads[0] for y in ast.walk(x)) and not (
                        isinstance(x, ast.BoolOp) and any(y is reads[0]
                                                          for y in ast.walk(x.values[0]))):
                    return False
        return True
    lo = pos[id(stmt)] + len(_dfs(stmt)) - 1
    hi = max(pos[id(r)] for r in reads)
    # a read inside a loop the assignment is outside of: the whole loop lies between
    parents = {}
    for n in order:
        for c in ast.iter_child_nodes(n):
            parents[id(c)] = n
    for r in reads:
        p = parents.get(id(r))
        while p is not None and p is not fn:
            if isinstance(p, (ast.For, ast.AsyncFor, ast.While)) and \
                    not any(y is stmt for y in ast.walk(p)):
                hi = max(hi, pos[id(p)] + len(_dfs(p)) - 1)
            p = parents.get(id(p))
    between = order[lo + 1:hi + 1]
    if not isinstance(value, (ast.Name, ast.Constant)):
        # a test between the assignment and a read that looks at what the value is computed
        # from may be the guard that makes computing it safe (`n = len(val)` hoisted above
        # `if not isinstance(val, list): raise`): the evaluation stays where it is
        def paths(e):
            # maximal name.attr.attr chains of an expression
            out, inner = set(), set()
            for x in ast.walk(e):
                if isinstance(x, (ast.Name, ast.Attribute)):
                    t, parts = x, []
                    while isinstance(t, ast.Attribute):
                        parts.append(t.attr)
                        t = t.value
                        inner.add(id(t))
                    if isinstance(t, ast.Name) and id(x) not in inner:
                        out.add(tuple([t.id] + parts[::-1]))
            return out
        vpaths = {p_ for p_ in paths(value) if p_[0] != nm}
        for x in between:
            t = None
            if isinstance(x, (ast.If, ast.While, ast.IfExp, ast.Assert)):
                t = x.test
            elif isinstance(x, ast.comprehension):
                t = ast.Tuple(elts=list(x.ifs), ctx=ast.Load()) if x.ifs else None
            elif isinstance(x, ast.BoolOp):
                t = x
            if t is not None and any(a[:len(b)] == b or b[:len(a)] == a
                                     for a in vpaths for b in paths(t)):
                return False
        # ... and a read inside a try block the assignment is outside of would move the
        # evaluation under its handlers
        for r in reads:
            p = parents.get(id(r))
            while p is not None and p is not fn:
                if isinstance(p, ast.Try) and not any(y is stmt for y in ast.walk(p)):
                    return False
                p = parents.get(id(p))
    calls_between = [x for x in between if isinstance(x, ast.Call) and
                     not _pure_call(x, ms)]
    stores_between = [x for x in between if isinstance(x, (ast.Attribute, ast.Subscript)) and
                      isinstance(x.ctx, (ast.Store, ast.Del))]
    if not calls_between and not stores_between:
        return True
    if ms is None:
        return False
    modset = set()
    for c in calls_between:
        modset |= ms.mod_of_call(c)
    for x in stores_between:
        b = x if isinstance(x, ast.Attribute) else x.value
        if isinstance(b, ast.Attribute):
            modset.add(b.attr)
        elif isinstance(b, ast.Name):
            modset.add('<name:%s>' % b.id)
        else:
            modset.add('*')
    if '*' in modset:
        return False
    deps = set()
    for x in ast.walk(value):
        if isinstance(x, ast.Attribute):
            deps |= ms.reads(x.attr)
        elif isinstance(x, ast.Name):
            deps.add('<name:%s>' % x.id)
            if isinstance(getattr(x, 'ctx', None), ast.Load) and x.id in ms.by_name:
                deps |= ms.reads(x.id)
    return not (deps & modset)


def propagate_new_locals(fn, ref_names, ms=None, pure_functions=frozenset()):
    """Introducing a local for an expression (to name it, or to evaluate it
    once) is undone: a local the reference function does not have, bound exactly
    once by a plain assignment, is replaced by its value at every read and the
    assignment is dropped -- provided the evaluation may move there (``_may_move``).
    -> names propagated."""
    import copy
    done = []
    for _ in range(3):
        params, binds = _locals_of(fn)
        cand = None
        for nm, bs in sorted(binds.items(), key=lambda kv: min(o for o, _, _ in kv[1])):
            if nm in ref_names or nm in params or nm in done or len(bs) != 1:
                continue
            if bs[0][1] != 'assign':
                continue
            # the binding statement: a plain `nm = value`
            stmt = None
            for n in ast.walk(fn):
                if isinstance(n, ast.Assign) and len(n.targets) == 1 and \
                        isinstance(n.targets[0], ast.Name) and n.targets[0].id == nm:
                    stmt = n if stmt is None else False
                elif isinstance(n, (ast.AugAssign, ast.AnnAssign)) and \
                        isinstance(n.target, ast.Name) and n.target.id == nm:
                    stmt = False
                elif isinstance(n, ast.Delete) and any(isinstance(t, ast.Name) and t.id == nm
                                                       for t in n.targets):
                    stmt = False
                elif isinstance(n, (ast.Global, ast.Nonlocal)) and nm in n.names:
                    stmt = False
            if not stmt:
                continue
            if any(isinstance(x, (ast.Yield, ast.YieldFrom, ast.Await, ast.NamedExpr, ast.Lambda))
                   for x in ast.walk(stmt.value)):
                continue
            if any(isinstance(x, ast.Name) and x.id == nm for x in ast.walk(stmt.value)):
                continue
            # every name the value reads keeps one meaning throughout the function
            # (`orig = env` before `env` is rebound is a different value later on)
            stable = True
            stores = {}
            for y in ast.walk(fn):
                if isinstance(y, ast.Name) and isinstance(y.ctx, (ast.Store, ast.Del)):
                    stores[y.id] = stores.get(y.id, 0) + 1
            for x in ast.walk(stmt.value):
                if isinstance(x, ast.Name):
                    if x.id in params and stores.get(x.id, 0) > 0:
                        stable = False
                    elif x.id in binds and (len(binds[x.id]) > 1 or stores.get(x.id, 0) > 1):
                        stable = False
            if not stable:
                continue
            # the local is only read, never updated in place
            mutated = False
            for x in ast.walk(fn):
                if isinstance(x, ast.Attribute) and isinstance(x.value, ast.Name) and \
                        x.value.id == nm and x.attr in _MUTATORS:
                    mutated = True
                elif isinstance(x, ast.Subscript) and isinstance(x.value, ast.Name) and \
                        x.value.id == nm and isinstance(x.ctx, (ast.Store, ast.Del)):
                    mutated = True
            if mutated or isinstance(stmt.value, (ast.List, ast.Dict, ast.Set, ast.ListComp,
                                                  ast.DictComp, ast.SetComp)):
                continue
            # not read by a nested function (it would capture the variable)
            nested = False
            for n in ast.walk(fn):
                if n is not fn and isinstance(n, (ast.FunctionDef, ast.AsyncFunctionDef,
                                                  ast.Lambda)):
                    if any(isinstance(x, ast.Name) and x.id == nm for x in ast.walk(n)):
                        nested = True
            if nested:
                continue
            if not _may_move(fn, stmt, nm, ms, pure_functions):
                continue
            cand = (nm, stmt)
            break
        if cand is None:
            break
        nm, stmt = cand
        value = stmt.value

        class Sub(ast.NodeTransformer):
            def visit_Name(self, node):
                if node.id == nm and isinstance(node.ctx, ast.Load):
                    new = copy.deepcopy(value)
                    for x in ast.walk(new):
                        if isinstance(x, (ast.expr, ast.stmt)):
                            x.lineno, x.col_offset = node.lineno, node.col_offset
                            x.end_lineno = getattr(node, 'end_lineno', node.lineno)
                            x.end_col_offset = getattr(node, 'end_col_offset', node.col_offset)
                    return new
                return node
        Sub().visit(fn)
        for n in ast.walk(fn):
            for field in ('body', 'orelse', 'finalbody'):
                blk = getattr(n, field, None)
                if isinstance(blk, list) and stmt in blk:
                    blk.remove(stmt)
                    if not blk and field == 'body':
                        blk.append(ast.copy_location(ast.Pass(), stmt))
        done.append(nm)
    return done


def normalise_module(tree, modname, ref, stats, known=None, ms=None):
    """Rename locals of every function of one module tree in place."""
    def visit(body, prefix):
        for s in body:
            if isinstance(s, (ast.FunctionDef, ast.AsyncFunctionDef)):
                q = prefix + '.' + s.name
                r = ref.get(q)
                if r is not None:
                    m = mapping_for(s, r)
                    if m:
                        apply(s, m)
                        stats.append((q, m))
                if known is not None and (r is not None or q in known):
                    ref_names = {nm for nm, _ in (r or [])}
                    done = propagate_new_locals(s, ref_names, ms)
                    if done:
                        stats.append((q, {nm: '<propagated>' for nm in done}))
                visit(s.body, q + '.<locals>')
            elif isinstance(s, ast.ClassDef):
                visit(s.body, prefix + '.' + s.name)
            elif isinstance(s, (ast.If, ast.Try)):
                visit(getattr(s, 'body', []), prefix)
                visit(getattr(s, 'orelse', []), prefix)
    visit(tree.body, modname)


def build_reference(modules):
    """{qualname: reference_entry} for {modname: tree}."""
    out = {}

    def visit(body, prefix):
        for s in body:
            if isinstance(s, (ast.FunctionDef, ast.AsyncFunctionDef)):
                q = prefix + '.' + s.name
                e = reference_entry(s)
                if e:
                    out[q] = e
                visit(s.body, q + '.<locals>')
            elif isinstance(s, ast.ClassDef):
                visit(s.body, prefix + '.' + s.name)
            elif isinstance(s, (ast.If, ast.Try)):
                visit(getattr(s, 'body', []), prefix)
                visit(getattr(s, 'orelse', []), prefix)
    for modname, tree in modules.items():
        visit(tree.body, modname)
    return out


def normalise_comparisons(tree):
    """`CONST == x` -> `x == CONST` (also !=, is, is not): operand order of a
    symmetric comparison with a constant carries no meaning, so the model
    keeps one spelling."""
    n = 0
    for node in ast.walk(tree):
        if isinstance(node, ast.Compare) and len(node.ops) == 1 and \
                isinstance(node.ops[0], (ast.Eq, ast.NotEq, ast.Is, ast.IsNot)) and \
                isinstance(node.left, ast.Constant) and \
                not isinstance(node.comparators[0], ast.Constant):
            node.left, node.comparators[0] = node.comparators[0], node.left
            n += 1
    return n


def normalise_conditional_assignments(tree):
    """``if c: x = A`` / ``else: x = B``  ->  ``x = A if c else B`` (both arms
    exactly one plain assignment to the same simple name): the two spellings
    evaluate the same expressions in the same order."""
    n = 0
    for node in ast.walk(tree):
        for field in ('body', 'orelse', 'finalbody'):
            blk = getattr(node, field, None)
            if not isinstance(blk, list):
                continue
            for i, st in enumerate(blk):
                if isinstance(st, ast.If) and len(st.body) == 1 and len(st.orelse) == 1 and \
                        all(isinstance(a, ast.Assign) and len(a.targets) == 1 and
                            isinstance(a.targets[0], ast.Name) for a in (st.body[0], st.orelse[0])) \
                        and st.body[0].targets[0].id == st.orelse[0].targets[0].id:
                    new = ast.Assign(
                        targets=[ast.Name(id=st.body[0].targets[0].id, ctx=ast.Store())],
                        value=ast.IfExp(test=st.test, body=st.body[0].value,
                                        orelse=st.orelse[0].value))
                    ast.copy_location(new, st)
                    ast.copy_location(new.targets[0], st.body[0].targets[0])
                    ast.copy_location(new.value, st)
                    new.end_lineno = st.end_lineno
                    new.end_col_offset = st.end_col_offset
                    blk[i] = new
                    n += 1
    return n


def normalise_negated_tests(tree):
    """``if not c: A else: B`` -> ``if c: B else: A`` and ``A if not c else B``
    -> ``B if c else A``: which arm is written first carries no meaning (an
    ``elif`` is just an ``if`` nested in the else arm)."""
    n = 0

    def neg(t):
        if isinstance(t, ast.UnaryOp) and isinstance(t.op, ast.Not):
            return t.operand
        if isinstance(t, ast.BoolOp):      # De Morgan
            return ast.copy_location(ast.BoolOp(
                op=ast.And() if isinstance(t.op, ast.Or) else ast.Or(),
                values=[neg(v) for v in t.values]), t)
        return ast.copy_location(ast.UnaryOp(op=ast.Not(), operand=t), t)
    for node in ast.walk(tree):
        for _ in range(4):
            changed = False
            # `if c: A else: pass`  ->  `if c: A`
            if isinstance(node, ast.If) and node.orelse and node.body and \
                    all(isinstance(s, ast.Pass) for s in node.orelse) and \
                    not all(isinstance(s, ast.Pass) for s in node.body):
                node.orelse = []
                changed = True
            # `if c: pass else: B`  ->  `if not c: B`
            if isinstance(node, ast.If) and node.orelse and \
                    all(isinstance(s, ast.Pass) for s in node.body):
                node.test = neg(node.test)
                node.body, node.orelse = node.orelse, []
                changed = True
            while isinstance(node, ast.If) and node.orelse and \
                    isinstance(node.test, ast.UnaryOp) and isinstance(node.test.op, ast.Not):
                node.test = node.test.operand
                node.body, node.orelse = node.orelse, node.body
                changed = True
            if not changed:
                break
            n += 1
        while isinstance(node, ast.IfExp) and isinstance(node.test, ast.UnaryOp) and \
                isinstance(node.test.op, ast.Not):
            node.test = node.test.operand
            node.body, node.orelse = node.orelse, node.body
            n += 1
    return n
