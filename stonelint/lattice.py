"""Closed class families and dispatch partitions (analysis A4).

A *family* is the set of classes of one module that descend from a root
(IR ``DataType``, runtime ``Validator``, frontend ``_Element``).  Tests such
as ``isinstance(x, (A, B))``, ``is_struct_type(x)`` or ``x.__class__ == C``
are interpreted as subsets of the family's concrete class set, so "which
classes reach this branch" is a finite, exact computation.
"""
import ast

from .model import (AnalysisError, ClassInfo, FuncInfo, dotted, own_nodes, single_return_expr,
                    unparse)
from .pathcond import decompose, path_info


class Family:
    def __init__(self, pm, module, root, abstract, aliases=()):
        self.pm = pm
        self.module = pm.module(module)
        self.root = pm.cls(module + '.' + root)
        self.classes = {c.name: c for c in pm.subclasses(self.root)
                        if c.module is self.module}
        self.abstract = set(abstract)
        missing = self.abstract - set(self.classes)
        if missing:
            raise AnalysisError('anchor=%s.%s (abstract class table out of date: %s)' % (
                module, root, sorted(missing)))
        for a in self.abstract:
            pass
        self.concrete = sorted(set(self.classes) - self.abstract)
        self.aliases = tuple(aliases)   # module aliases such as 'bv'

    def below(self, name):
        """Concrete classes that are ``name`` or a subclass of it."""
        c = self.classes.get(name)
        if c is None:
            return None
        return frozenset(k for k in self.concrete
                         if self.pm.is_subclass(self.classes[k], c))

    def class_of_expr(self, module, expr):
        """Name of the family class an expression denotes (Name, alias.Name)."""
        d = dotted(expr)
        if d is None:
            return None
        r = self.pm.resolve_expr(module, expr)
        if isinstance(r, ClassInfo) and r.name in self.classes and \
                self.classes[r.name] is r:
            return r.name
        # alias-qualified (bv.Struct) when the alias is a plain module import
        parts = d.split('.')
        if len(parts) == 2 and parts[0] in self.aliases and parts[1] in self.classes:
            return parts[1]
        return None

    def universe(self):
        return frozenset(self.concrete)


IR_ABSTRACT = ('DataType', 'Primitive', 'Composite', '_BoundedInteger', '_BoundedFloat',
               'UserDefined')
BV_ABSTRACT = ('Validator', 'Primitive', 'Composite', 'Integer', 'Real')

_fams = {}


def ir_family(pm):
    k = (id(pm), 'ir')
    if k not in _fams:
        _fams[k] = Family(pm, 'stone.ir.data_types', 'DataType', IR_ABSTRACT)
    return _fams[k]


def bv_family(pm):
    k = (id(pm), 'bv')
    if k not in _fams:
        _fams[k] = Family(pm, 'stone.backends.python_rsrc.stone_validators', 'Validator',
                          BV_ABSTRACT, aliases=('bv',))
    return _fams[k]


# ----------------------------------------------------------------------
# predicates such as is_struct_type -> class sets, derived from their bodies

def predicate_sets(pm, fam):
    """{'is_struct_type': frozenset({'Struct'}), ...} for one-argument
    predicate functions of the family's module whose body is a boolean
    combination of isinstance tests / other predicates on the argument."""
    cache = getattr(fam, '_preds', None)
    if cache is not None:
        return cache
    preds = {}
    pending = {}
    for name, f in fam.module.functions.items():
        if len(f.node.args.args) != 1 or single_return_expr(f.node) is None:
            continue
        pending[name] = f
    progress = True
    while progress and pending:
        progress = False
        for name, f in list(pending.items()):
            arg = f.node.args.args[0].arg
            s = _expr_set(pm, fam, f.module, single_return_expr(f.node), arg, preds)
            if s is not None:
                preds[name] = s
                del pending[name]
                progress = True
    fam._preds = preds
    return preds


def _expr_set(pm, fam, module, e, subject, preds):
    """Set of concrete classes for which boolean expression ``e`` over
    ``subject`` is true, or None when ``e`` is not a pure class test."""
    if isinstance(e, ast.BoolOp):
        parts = [_expr_set(pm, fam, module, v, subject, preds) for v in e.values]
        if any(p is None for p in parts):
            return None
        out = parts[0]
        for p in parts[1:]:
            out = (out & p) if isinstance(e.op, ast.And) else (out | p)
        return out
    if isinstance(e, ast.UnaryOp) and isinstance(e.op, ast.Not):
        p = _expr_set(pm, fam, module, e.operand, subject, preds)
        return None if p is None else fam.universe() - p
    if isinstance(e, ast.Call):
        fn = e.func
        if isinstance(fn, ast.Name) and fn.id == 'isinstance' and len(e.args) == 2 and \
                unparse(e.args[0]) == subject:
            c = e.args[1]
            elts = c.elts if isinstance(c, ast.Tuple) else [c]
            out = frozenset()
            for x in elts:
                nm = fam.class_of_expr(module, x)
                if nm is None:
                    return None
                out |= fam.below(nm)
            return out
        nm = fn.id if isinstance(fn, ast.Name) else (
            fn.attr if isinstance(fn, ast.Attribute) else None)
        if nm in preds and len(e.args) == 1 and unparse(e.args[0]) == subject:
            # the name must resolve to the family's predicate (or be imported from it)
            r = pm.resolve_expr(module, fn)
            if isinstance(r, FuncInfo) and r.module is fam.module:
                return preds[nm]
    if isinstance(e, ast.Compare) and len(e.ops) == 1 and isinstance(e.ops[0], (ast.Eq, ast.Is)):
        l, r = e.left, e.comparators[0]
        for a, b in ((l, r), (r, l)):
            if unparse(a) in (subject + '.__class__', 'type(%s)' % subject):
                nm = fam.class_of_expr(module, b)
                if nm is not None:
                    return frozenset([nm]) & fam.universe()
    return None


def class_test(pm, fam, module, expr, subject):
    """Public wrapper: set of concrete classes satisfying ``expr`` (a test on
    ``subject``), or None if it is not a class test on that subject."""
    return _expr_set(pm, fam, module, expr, subject, predicate_sets(pm, fam))


def reaching_classes(pm, fam, func, node, subject, universe=None, subst=None):
    """Concrete classes of ``subject`` for which ``node`` can be reached,
    using every class-test atom on the structured path.  Non-class atoms are
    ignored (over-approximation: they can only shrink the set).

    ``subst`` maps alternative spellings of the subject (e.g. a local bound to
    it) to the canonical name."""
    pi = path_info(func.node)
    cur = set(universe if universe is not None else fam.universe())
    for e, pol in pi.at(node):
        for subj in [subject] + list(subst or ()):
            s = class_test(pm, fam, func.module, e, subj)
            if s is not None:
                cur &= (s if pol else (fam.universe() - s))
                break
    return frozenset(cur)


def dispatch_branches(pm, fam, func, subject, universe=None, subst=None):
    """For a function that dispatches on ``subject``: list of
    (statement, classes_reaching) for every return/raise/assert-false and the
    implicit fall-off-the-end, in source order."""
    out = []
    pi = path_info(func.node)
    for s in pi.order:
        if isinstance(s, (ast.Return, ast.Raise)) or \
                (isinstance(s, ast.Assert) and isinstance(s.test, ast.Constant)
                 and not s.test.value):
            out.append((s, reaching_classes(pm, fam, func, s, subject, universe, subst)))
    return out


def raising_fallthrough(pm, fam, func, subject, universe=None, subst=None, exempt=()):
    """Classes of ``subject`` that reach a ``raise``/``assert False`` (a
    dispatch default) in ``func``.  Returns list of (stmt, classes)."""
    res = []
    for s, classes in dispatch_branches(pm, fam, func, subject, universe, subst):
        if isinstance(s, ast.Return):
            continue
        if classes:
            res.append((s, classes))
    return res
