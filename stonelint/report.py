"""Obligation bookkeeping, known findings, evidence and replay files."""
import json
import os
import time

from .model import AnalysisError

VERIF = os.path.dirname(os.path.dirname(os.path.abspath(__file__)))
KNOWN = os.path.join(VERIF, 'known_findings.json')
_IMPORT_CACHE = {}


def load_known():
    if not os.path.exists(KNOWN):
        return {'findings': [], 'fixed': []}
    with open(KNOWN, encoding='utf-8') as f:
        return json.load(f)


class Ctx:
    """Collects the outcome of every rule instance for one property run."""

    def __init__(self, prop, tier='quick', seed=0, repo='/repo', quiet=False,
                 write_files=True):
        self.prop = prop
        self.tier = tier
        self.seed = seed
        self.repo = repo
        self.quiet = quiet
        self.write_files = write_files
        self.t0 = time.time()
        self.obligations = []     # dicts
        self.violations = []
        self.known_hits = []
        self.notes = []
        self.by_rule = {}
        self.exemptions = []
        self.extra = {}
        self.rules_doc = {}
        k = load_known()
        self.known = {}
        for f in k.get('findings', []):
            if prop in f.get('properties', [f.get('property')]):
                self.known[f['key']] = f

    # ------------------------------------------------------------------
    def rule(self, rule_id, text):
        self.rules_doc[rule_id] = text
        self.by_rule.setdefault(rule_id, {'instances': 0, 'ok': 0, 'violations': 0,
                                          'known': 0})

    def _rec(self, rule, status, instance, where, detail, nontrivial=True):
        r = self.by_rule.setdefault(rule, {'instances': 0, 'ok': 0, 'violations': 0,
                                           'known': 0})
        r['instances'] += 1
        r[status] += 1
        o = {'rule': rule, 'instance': instance, 'where': where, 'verdict': status,
             'nontrivial': nontrivial}
        if detail:
            o['detail'] = detail
        self.obligations.append(o)
        return o

    def ok(self, rule, instance, where='', detail='', nontrivial=True):
        self._rec(rule, 'ok', instance, where, detail, nontrivial)

    def check(self, rule, cond, instance, where='', msg='', key=None, detail=''):
        """Record an obligation: discharged when ``cond`` else a violation."""
        if cond:
            self.ok(rule, instance, where, detail)
        else:
            self.violation(rule, key or '%s|%s' % (rule, instance), where,
                           msg or instance, detail)
        return bool(cond)

    def violation(self, rule, key, where, msg, detail=''):
        if not key.startswith(rule):
            key = rule + '|' + key
        if key in self.known:
            o = self._rec(rule, 'known', key, where, detail)
            o['msg'] = msg
            if key not in [k['key'] for k in self.known_hits]:
                self.known_hits.append({'key': key, 'where': where, 'msg': msg,
                                        'what': self.known[key].get('what', msg)})
            return
        o = self._rec(rule, 'violations', key, where, detail)
        o['msg'] = msg
        if key not in [v['key'] for v in self.violations]:
            self.violations.append({'rule': rule, 'key': key, 'where': where,
                                    'msg': msg, 'detail': detail})

    # ------------------------------------------------------------------
    def import_rules(self, pm, from_prop, rules, as_rule, title, only=None):
        """Run rules of another property under a rule id of this one.

        A mechanism is often a necessary condition of several properties (the
        generated validators serve decoding, round trips, compatibility ...).
        The rule lives where it was written; properties that also depend on it
        import its instances so that their own check decides it too.  Keys are
        re-rooted (``<as_rule>|<original key without its rule id>``); a known
        finding of the source property is not inherited."""
        import importlib
        self.rule(as_rule, title)
        if getattr(self, '_importing', False):
            return 0      # a sub-run only needs the rules the property owns
        ck = (id(pm), from_prop)
        sub = _IMPORT_CACHE.get(ck)
        if sub is None or sub[0] is not pm:
            sctx = Ctx(from_prop, tier=self.tier, seed=self.seed, repo=self.repo, quiet=True,
                       write_files=False)
            sctx.known = {}
            sctx._importing = True
            importlib.import_module('stonelint.rules.' + from_prop).run(pm, sctx)
            _IMPORT_CACHE[ck] = (pm, sctx)
            sub = _IMPORT_CACHE[ck]
        sctx = sub[1]
        n = 0
        for o in sctx.obligations:
            if o['rule'] not in rules:
                continue
            key = o['instance']
            if only is not None and not only(o):
                continue
            n += 1
            if o['verdict'] == 'ok':
                self.ok(as_rule, o['instance'], o['where'], o.get('detail', ''))
            else:
                k = o['instance']
                suffix = k.split('|', 1)[1] if '|' in k else k
                self.violation(as_rule, '%s|%s' % (as_rule, suffix), o['where'],
                               o.get('msg', k), o.get('detail', ''))
        self.floor(as_rule, n, 1, 'instances imported from %s %s' % (from_prop, sorted(rules)))
        return n

    def exempt(self, rule, symbol, reason):
        self.exemptions.append({'rule': rule, 'symbol': symbol, 'reason': reason})

    def note(self, text):
        self.notes.append(text)

    def floor(self, rule, found, minimum, what):
        """A rule that matches fewer instances than were confirmed by hand
        would pass vacuously: make that an analysis error."""
        if found < minimum:
            raise AnalysisError(
                'rule=%s matched %d %s, fewer than the %d confirmed by reading '
                '(anchor moved or rule no longer applies)' % (rule, found, what, minimum))

    # ------------------------------------------------------------------
    def finish(self, explanation, assumptions, level='other'):
        wall = time.time() - self.t0
        n = len(self.obligations)
        distinct = len({(o['rule'], o['instance']) for o in self.obligations
                        if o.get('nontrivial', True)})
        samples = []
        seen_rules = set()
        # one sample per rule first, then fill up
        rot = self.seed % max(1, n)
        ordered = self.obligations[rot:] + self.obligations[:rot]
        for o in ordered:
            if o['rule'] not in seen_rules:
                seen_rules.add(o['rule'])
                samples.append(o)
        for o in ordered:
            if len(samples) >= 40:
                break
            if o not in samples:
                samples.append(o)
        for o in self.obligations:
            if o['verdict'] != 'ok' and o not in samples:
                samples.append(o)
        report_paths = []
        if self.write_files:
            os.makedirs(os.path.join(VERIF, 'reports'), exist_ok=True)
            # stale reports of this property are removed so a replay path is
            # always from the latest run
            for fn in os.listdir(os.path.join(VERIF, 'reports')):
                if fn.startswith(self.prop + '-'):
                    os.unlink(os.path.join(VERIF, 'reports', fn))
        for i, v in enumerate(self.violations):
            path = os.path.join(VERIF, 'reports', '%s-%02d.json' % (self.prop, i + 1))
            if self.write_files:
                with open(path, 'w', encoding='utf-8') as f:
                    json.dump({'property': self.prop, 'rule': v['rule'], 'key': v['key'],
                               'where': v['where'], 'message': v['msg'],
                               'detail': v['detail'],
                               'rule_text': self.rules_doc.get(v['rule'], ''),
                               'repo': self.repo}, f, indent=1)
            report_paths.append(path)
        ev = {
            'property_id': self.prop,
            'tier': self.tier,
            'seed': int(self.seed),
            'level': level,
            'coverage': {
                'explanation': explanation,
                'evaluations': n,
                'distinct_nontrivial': distinct,
                'rule': 'one evaluation = one rule instance (a construct of the current '
                        'source matched by a rule and decided); distinct_nontrivial counts '
                        'distinct (rule, construct) pairs whose obligation needed an '
                        'analysis result (guard, callee, partition, profile), i.e. not a '
                        'mere existence check',
                'obligations': n,
                'discharged': sum(1 for o in self.obligations if o['verdict'] == 'ok'),
                'known_findings_reported': len(self.known_hits),
                'instances_by_rule': self.by_rule,
                'rules': self.rules_doc,
                'exemptions_used': self.exemptions,
                'notes': self.notes,
                'samples': samples,
                'exhaustive': True,
            },
            'assumptions': assumptions,
            'wall_s': round(wall, 3),
            'violations': len(self.violations),
        }
        ev['coverage'].update(self.extra)
        if self.write_files:
            os.makedirs(os.path.join(VERIF, 'evidence'), exist_ok=True)
            with open(os.path.join(VERIF, 'evidence', self.prop + '.json'), 'w',
                      encoding='utf-8') as f:
                json.dump(ev, f, indent=1, default=str)
        if not self.quiet:
            print('%s tier=%s: %d rule instances over %d rules, %d discharged, '
                  '%d known findings, %d violations (%.2fs)' % (
                      self.prop, self.tier, n, len(self.by_rule),
                      ev['coverage']['discharged'], len(self.known_hits),
                      len(self.violations), wall))
            for r in sorted(self.by_rule):
                b = self.by_rule[r]
                print('  %-10s instances=%-4d ok=%-4d known=%-2d violations=%d' % (
                    r, b['instances'], b['ok'], b['known'], b['violations']))
        for k in self.known_hits:
            print('KNOWN-FINDING: property=%s %s [%s @ %s]' % (
                self.prop, k['what'], k['key'], k['where']))
        for v, p in zip(self.violations, report_paths):
            print('  rule %s violated at %s: %s' % (v['rule'], v['where'], v['msg']))
            print('    key: %s' % v['key'])
            print('VIOLATION property=%s replay=%s' % (self.prop, p))
        return 1 if self.violations else 0
