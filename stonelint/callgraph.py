"""Call graph over the program model (class-hierarchy + name based)."""
import ast

from .model import ClassInfo, FuncInfo, Module, own_nodes

# method names that exist on builtin containers/strings: a call ``x.m()`` with
# one of these names is resolved to repo methods only when the receiver is
# ``self``/``cls``/a resolved class, never by bare name.
BUILTIN_METHODS = {
    'append', 'extend', 'insert', 'remove', 'pop', 'clear', 'index', 'count', 'sort',
    'reverse', 'copy', 'keys', 'values', 'items', 'get', 'setdefault', 'update',
    'popitem', 'add', 'discard', 'union', 'intersection', 'difference', 'join',
    'split', 'rsplit', 'strip', 'lstrip', 'rstrip', 'startswith', 'endswith',
    'format', 'replace', 'lower', 'upper', 'capitalize', 'encode', 'decode', 'find',
    'rfind', 'isalnum', 'isdigit', 'title', 'match', 'search', 'finditer', 'group',
    'groups', 'span', 'write', 'read', 'close', 'popleft', 'total_seconds',
    'utcoffset', 'strftime', 'hexdigest', 'splitlines', 'partition', 'rpartition',
    'zfill', 'ljust', 'rjust', 'center', 'islower', 'isupper', 'isalpha', 'swapcase',
    'most_common', 'elements', 'fromkeys', 'sub', 'findall', 'fullmatch', 'compile',
    'exists', 'parse_args', 'add_argument', 'info', 'debug', 'warning', 'error',
    'render', 'get_template', 'getvalue', 'seek', 'flush', 'rstrip',
}


class CallGraph:
    def __init__(self, pm, scope_modules=None, name_based=True, properties=False):
        """scope_modules: iterable of module-name prefixes limiting name-based
        resolution (None = whole program)."""
        self.pm = pm
        self.scope = tuple(scope_modules) if scope_modules else None
        self.name_based = name_based
        self.properties = properties
        self._methods_by_name = {}
        self._props_by_name = {}
        for f in pm.functions.values():
            if f.cls is not None and self._in_scope(f):
                self._methods_by_name.setdefault(f.name, []).append(f)
                if f.is_property:
                    self._props_by_name.setdefault(f.name, []).append(f)
        self._cache = {}
        self.unresolved = {}

    def _in_scope(self, f):
        if self.scope is None:
            return True
        n = f.module.name
        return any(n == p or n.startswith(p + '.') for p in self.scope)

    # ------------------------------------------------------------------
    def class_methods(self, cls, name, include_overrides=True):
        out = []
        m = self.pm.lookup_method(cls, name)
        if m is not None:
            out.append(m)
        if include_overrides:
            for sub in self.pm.subclasses(cls, strict=True):
                if name in sub.methods and sub.methods[name] not in out:
                    out.append(sub.methods[name])
        return out

    def resolve_call(self, func, call):
        """Possible repo callees (FuncInfo list) of one ast.Call in ``func``."""
        pm = self.pm
        fn = call.func
        out = []
        if isinstance(fn, ast.Name):
            # nested helper of an enclosing function?
            f = func
            while f is not None:
                if fn.id in f.nested:
                    return [f.nested[fn.id]]
                f = f.parent
            r = pm.resolve_symbol(func.module.name, fn.id)
            if isinstance(r, FuncInfo):
                return [r]
            if isinstance(r, ClassInfo):
                return self._ctor(r)
            return []
        if isinstance(fn, ast.Attribute):
            name = fn.attr
            recv = fn.value
            # super().m()
            if isinstance(recv, ast.Call) and isinstance(recv.func, ast.Name) and \
                    recv.func.id == 'super':
                owner = self._owner_class(func)
                if owner is not None:
                    for k in pm.mro(owner)[1:]:
                        if name in k.methods:
                            return [k.methods[name]]
                return []
            if isinstance(recv, ast.Name) and recv.id in ('self', 'cls'):
                owner = self._owner_class(func)
                if owner is not None:
                    ms = self.class_methods(owner, name)
                    if ms:
                        return ms
                    # attribute holding a callable: unknown
                    return []
            r = pm.resolve_expr(func.module, fn)
            if isinstance(r, FuncInfo):
                return [r]
            if isinstance(r, ClassInfo):
                return self._ctor(r)
            base = pm.resolve_expr(func.module, recv)
            if isinstance(base, (Module, ClassInfo)) or \
                    (isinstance(base, tuple) and base[0] == 'external'):
                return []  # resolved receiver, symbol not a repo function
            if self.name_based and name not in BUILTIN_METHODS:
                out = list(self._methods_by_name.get(name, []))
        return out

    def _ctor(self, cls):
        m = self.pm.lookup_method(cls, '__init__')
        return [m] if m is not None else []

    def _owner_class(self, func):
        f = func
        while f is not None:
            if f.cls is not None:
                return f.cls
            f = f.parent
        return None

    # ------------------------------------------------------------------
    def callees(self, func):
        r = self._cache.get(func.qualname)
        if r is not None:
            return r
        out = []
        seen = set()
        for n in own_nodes(func.node):
            cands = []
            if isinstance(n, ast.Call):
                cands = self.resolve_call(func, n)
                if not cands:
                    self.unresolved[func.qualname] = self.unresolved.get(func.qualname, 0) + 1
                # callables passed as arguments (callbacks) are edges too
                for a in list(n.args) + [k.value for k in n.keywords]:
                    if isinstance(a, ast.Attribute) and isinstance(a.value, ast.Name) and \
                            a.value.id in ('self', 'cls'):
                        owner = self._owner_class(func)
                        if owner is not None:
                            cands = cands + self.class_methods(owner, a.attr)
                    elif isinstance(a, ast.Name):
                        f = func
                        while f is not None:
                            if a.id in f.nested:
                                cands = cands + [f.nested[a.id]]
                                break
                            f = f.parent
                        else:
                            rr = self.pm.resolve_symbol(func.module.name, a.id)
                            if isinstance(rr, FuncInfo):
                                cands = cands + [rr]
            elif self.properties and isinstance(n, ast.Attribute) and \
                    isinstance(n.ctx, ast.Load) and n.attr in self._props_by_name:
                if isinstance(n.value, ast.Name) and n.value.id == 'self':
                    owner = self._owner_class(func)
                    cands = self.class_methods(owner, n.attr) if owner else []
                else:
                    cands = self._props_by_name[n.attr]
            for c in cands:
                if c.qualname not in seen:
                    seen.add(c.qualname)
                    out.append((n, c))
        # nested functions defined here are reachable when referenced; be
        # conservative and treat definition as a potential call
        for nf in func.nested.values():
            if nf.qualname not in seen:
                seen.add(nf.qualname)
                out.append((nf.node, nf))
        self._cache[func.qualname] = out
        return out

    def reachable(self, roots, stop=None):
        """{qualname: (FuncInfo, parent_qualname)} reachable from roots."""
        seen = {}
        work = [(r, None) for r in roots]
        while work:
            f, parent = work.pop()
            if f.qualname in seen:
                continue
            if stop and stop(f):
                continue
            seen[f.qualname] = (f, parent)
            for _, c in self.callees(f):
                if c.qualname not in seen:
                    work.append((c, f.qualname))
        return seen

    def chain(self, reach, qualname):
        out = []
        q = qualname
        while q is not None and q in reach:
            out.append(q)
            q = reach[q][1]
        return list(reversed(out))
