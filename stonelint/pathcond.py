"""Structured path conditions (DESIGN section 2).

For every statement of a function: the list of (test-expression, polarity)
atoms that hold whenever the statement executes, including the effect of
early exits, plus the stack of enclosing ``try`` parts and loops.  Exact for
structured control flow, which is all this repository uses.
"""
import ast

from .model import dotted, unparse


EXIT_CALLS = {'sys.exit', 'exit', 'os._exit', '_cmdline_parser.error'}


def terminates(stmts, local_raisers=()):
    """True when control never falls off the end of ``stmts``."""
    for s in stmts:
        if _stmt_terminates(s, local_raisers):
            return True
    return False


def _stmt_terminates(s, local_raisers=()):
    if isinstance(s, (ast.Raise, ast.Return, ast.Continue, ast.Break)):
        return True
    if isinstance(s, ast.Assert):
        t = s.test
        return isinstance(t, ast.Constant) and not t.value
    if isinstance(s, ast.Expr) and isinstance(s.value, ast.Call):
        d = dotted(s.value.func)
        if d in EXIT_CALLS or d in local_raisers:
            return True
        return False
    if isinstance(s, ast.If):
        return bool(s.orelse) and terminates(s.body, local_raisers) and \
            terminates(s.orelse, local_raisers)
    if isinstance(s, (ast.With, ast.AsyncWith)):
        return terminates(s.body, local_raisers)
    if isinstance(s, ast.Try):
        if s.finalbody and terminates(s.finalbody, local_raisers):
            return True
        body_t = terminates(s.body, local_raisers) or \
            (s.orelse and terminates(s.orelse, local_raisers))
        return bool(body_t) and all(terminates(h.body, local_raisers) for h in s.handlers)
    return False


def _conj_expr(atoms):
    parts = []
    for e, pol in atoms:
        parts.append(e if pol else ast.UnaryOp(op=ast.Not(), operand=e))
    if len(parts) == 1:
        return parts[0]
    return ast.BoolOp(op=ast.And(), values=parts)


def _disjunction(a, b):
    """Synthetic test `(<a...>) or (<b...>)`; the operand nodes are shared with the tree (they
    keep their own parent links), the connectives are new nodes without a parent."""
    n = ast.BoolOp(op=ast.Or(), values=[_conj_expr(a), _conj_expr(b)])
    n._synthetic = True
    return n


def decompose(expr, pol):
    """Split a test into atoms: (a and b, True) -> (a,True),(b,True); De
    Morgan for (a or b, False); ``not`` flips."""
    if isinstance(expr, ast.UnaryOp) and isinstance(expr.op, ast.Not):
        return decompose(expr.operand, not pol)
    if isinstance(expr, ast.BoolOp):
        if (isinstance(expr.op, ast.And) and pol) or (isinstance(expr.op, ast.Or) and not pol):
            out = []
            for v in expr.values:
                out.extend(decompose(v, pol))
            return out
    return [(expr, pol)]


class PathInfo:
    """Result of analysing one function body."""

    def __init__(self, funcnode):
        self.funcnode = funcnode
        self.conds = {}    # id(stmt) -> tuple[(expr, pol)]
        self.trys = {}     # id(stmt) -> tuple[(Try, part, index)]
        self.loops = {}    # id(stmt) -> tuple[loop stmt]
        self.withs = {}    # id(stmt) -> tuple[With stmt]
        self.order = []    # statements in source order
        self.block_of = {}  # id(stmt) -> (list_of_stmts, index)
        self.local_raisers = set()
        body = funcnode.body if isinstance(funcnode.body, list) else []
        # nested helper functions whose body always raises act like raise
        for s in body:
            if isinstance(s, ast.FunctionDef) and terminates(s.body) and \
                    not any(isinstance(n, ast.Return) for n in ast.walk(s)):
                self.local_raisers.add(s.name)
        self._walk(body, (), (), (), ())

    def _walk(self, stmts, conds, trys, loops, withs):
        """Annotate ``stmts``; return the atoms (beyond ``conds``) known to
        hold when control falls off the end of the block, or None when the
        block never falls through."""
        extra = ()
        dead = False
        for i, s in enumerate(stmts):
            cur = conds + extra
            self.conds[id(s)] = cur
            self.trys[id(s)] = trys
            self.loops[id(s)] = loops
            self.withs[id(s)] = withs
            self.block_of[id(s)] = (stmts, i)
            self.order.append(s)
            if isinstance(s, ast.If):
                t = tuple(decompose(s.test, True))
                f = tuple(decompose(s.test, False))
                b_end = self._walk(s.body, cur + t, trys, loops, withs)
                o_end = self._walk(s.orelse, cur + f, trys, loops, withs)
                if b_end is None and o_end is None:
                    dead = True
                elif b_end is None:
                    extra = extra + f + o_end
                elif o_end is None:
                    extra = extra + t + b_end
                elif b_end or o_end:
                    # both arms can fall through, but one of them only under further
                    # conditions (`if a: (if f: return)`): what follows runs under
                    # (a and <what the then-arm knows>) or (not a and <what the else-arm knows>)
                    extra = extra + ((_disjunction(t + b_end, f + o_end), True),)
            elif isinstance(s, (ast.For, ast.AsyncFor)):
                self._walk(s.body, cur, trys, loops + (s,), withs)
                self._walk(s.orelse, cur, trys, loops, withs)
            elif isinstance(s, ast.While):
                t = tuple(decompose(s.test, True))
                self._walk(s.body, cur + t, trys, loops + (s,), withs)
                self._walk(s.orelse, cur, trys, loops, withs)
            elif isinstance(s, (ast.With, ast.AsyncWith)):
                w_end = self._walk(s.body, cur, trys, loops, withs + (s,))
                if w_end is None:
                    dead = True
                else:
                    extra = extra + w_end
            elif isinstance(s, ast.Try):
                b_end = self._walk(s.body, cur, trys + ((s, 'body', 0),), loops, withs)
                h_ends = []
                for k, h in enumerate(s.handlers):
                    h_ends.append(self._walk(h.body, cur, trys + ((s, 'handler', k),),
                                             loops, withs))
                e_end = self._walk(s.orelse, cur, trys + ((s, 'else', 0),), loops, withs)
                f_end = self._walk(s.finalbody, cur, trys + ((s, 'finally', 0),), loops, withs)
                if f_end is None:
                    dead = True
                elif all(h is None for h in h_ends):
                    if b_end is None or e_end is None:
                        dead = True
                    else:
                        extra = extra + b_end + e_end
            elif isinstance(s, ast.Assert):
                # after ``assert c`` the rest of the block runs under c
                if isinstance(s.test, ast.Constant) and not s.test.value:
                    dead = True
                else:
                    extra = extra + tuple(decompose(s.test, True))
            elif _stmt_terminates(s, self.local_raisers):
                dead = True
            # nested defs/classes: not entered (separate functions)
        return None if dead else extra

    # ------------------------------------------------------------------
    def stmt_containing(self, node):
        n = node
        while n is not None and id(n) not in self.conds:
            n = getattr(n, '_parent', None)
        return n

    def at(self, node):
        """All atoms that hold when ``node`` (statement or expression inside
        this function) is evaluated."""
        s = self.stmt_containing(node)
        if s is None:
            return ()
        out = list(self.conds[id(s)])
        if node is not s:
            out.extend(expr_conditions(node, s))
        return tuple(out)

    def trys_at(self, node):
        s = self.stmt_containing(node)
        return self.trys.get(id(s), ()) if s is not None else ()

    def loops_at(self, node):
        s = self.stmt_containing(node)
        return self.loops.get(id(s), ()) if s is not None else ()


def expr_conditions(node, stop):
    """Atoms established by short-circuit operators / conditional expressions
    / comprehension filters between ``node`` and its statement ``stop``."""
    out = []
    child = node
    parent = getattr(node, '_parent', None)
    while parent is not None and child is not stop:
        if isinstance(parent, ast.BoolOp):
            idx = next((i for i, v in enumerate(parent.values) if v is child), 0)
            pol = isinstance(parent.op, ast.And)
            for v in parent.values[:idx]:
                out.extend(decompose(v, pol))
        elif isinstance(parent, ast.IfExp):
            if child is parent.body:
                out.extend(decompose(parent.test, True))
            elif child is parent.orelse:
                out.extend(decompose(parent.test, False))
        elif isinstance(parent, (ast.ListComp, ast.SetComp, ast.GeneratorExp, ast.DictComp)):
            is_elt = child is getattr(parent, 'elt', None) or \
                child is getattr(parent, 'key', None) or \
                child is getattr(parent, 'value', None)
            if is_elt:
                for g in parent.generators:
                    for c in g.ifs:
                        out.extend(decompose(c, True))
        elif isinstance(parent, ast.comprehension):
            # a later ``if`` of the same generator runs under the earlier ones
            if child in parent.ifs:
                for c in parent.ifs[:parent.ifs.index(child)]:
                    out.extend(decompose(c, True))
        child, parent = parent, getattr(parent, '_parent', None)
    return out


def ifexp_leaves(expr):
    """The alternative values of an expression: the arms of (nested)
    conditional expressions, or the expression itself.  ``PathInfo.at(leaf)``
    includes the conditions that select the arm, so a conditional expression
    and the equivalent if/else statement read the same."""
    if isinstance(expr, ast.IfExp):
        return ifexp_leaves(expr.body) + ifexp_leaves(expr.orelse)
    return [expr]


def assigned_alternatives(funcnode, name):
    """[(value expression, statement)] over every plain assignment to the
    local ``name``, conditional expressions split into their arms."""
    out = []
    from .model import own_nodes
    for n in own_nodes(funcnode):
        if isinstance(n, ast.Assign) and len(n.targets) == 1 and \
                isinstance(n.targets[0], ast.Name) and n.targets[0].id == name:
            for leaf in ifexp_leaves(n.value):
                out.append((leaf, n))
    return out


_cache = {}


def path_info(funcnode):
    r = _cache.get(id(funcnode))
    if r is None or r.funcnode is not funcnode:
        r = _cache[id(funcnode)] = PathInfo(funcnode)
    return r


# ----------------------------------------------------------------------
# atom matchers

def atom_text(atom):
    e, pol = atom
    return ('' if pol else 'not ') + unparse(e)


def isinstance_atom(atom):
    """(subject_text, [class exprs], polarity) for ``isinstance(x, C)`` /
    ``isinstance(x, (A, B))`` atoms, else None."""
    e, pol = atom
    if isinstance(e, ast.Call) and isinstance(e.func, ast.Name) and \
            e.func.id == 'isinstance' and len(e.args) == 2:
        c = e.args[1]
        classes = list(c.elts) if isinstance(c, ast.Tuple) else [c]
        return unparse(e.args[0]), classes, pol
    return None


def truth_table(expr, atom_key):
    """Evaluate a boolean expression over all assignments of its atoms.

    ``atom_key(node)`` maps a leaf test to a hashable key (or None to use the
    unparsed text).  Returns (sorted_keys, {assignment_tuple: bool})."""
    leaves = []

    def collect(e):
        if isinstance(e, ast.BoolOp):
            for v in e.values:
                collect(v)
        elif isinstance(e, ast.UnaryOp) and isinstance(e.op, ast.Not):
            collect(e.operand)
        else:
            k = atom_key(e)
            k = unparse(e) if k is None else k
            if k not in leaves:
                leaves.append(k)
    collect(expr)
    keys = sorted(leaves, key=str)

    def ev(e, env):
        if isinstance(e, ast.BoolOp):
            vals = [ev(v, env) for v in e.values]
            return all(vals) if isinstance(e.op, ast.And) else any(vals)
        if isinstance(e, ast.UnaryOp) and isinstance(e.op, ast.Not):
            return not ev(e.operand, env)
        k = atom_key(e)
        k = unparse(e) if k is None else k
        return env[k]

    table = {}
    for mask in range(1 << len(keys)):
        env = {k: bool(mask >> i & 1) for i, k in enumerate(keys)}
        table[tuple(env[k] for k in keys)] = bool(ev(expr, env))
    return keys, table


def conds_truth(atoms, atom_key, keys):
    """Truth table of a conjunction of (expr, pol) atoms over ``keys``.
    Atoms whose key is not in ``keys`` are ignored (treated as true)."""
    table = {}
    for mask in range(1 << len(keys)):
        env = {k: bool(mask >> i & 1) for i, k in enumerate(keys)}
        val = True
        for e, pol in atoms:
            val = val and _eval_keyed(e, pol, env, atom_key, keys)
        table[tuple(env[k] for k in keys)] = val
    return table


def _eval_keyed(e, pol, env, atom_key, keys):
    def ev(x):
        if isinstance(x, ast.BoolOp):
            vals = [ev(v) for v in x.values]
            vals = [v for v in vals if v is not None]
            if not vals:
                return None
            if isinstance(x.op, ast.And):
                return all(vals)
            return any(vals)
        if isinstance(x, ast.UnaryOp) and isinstance(x.op, ast.Not):
            r = ev(x.operand)
            return None if r is None else (not r)
        k = atom_key(x)
        if k in env:
            return env[k]
        if isinstance(k, tuple) and len(k) == 2 and k[0] == 'not' and k[1] in env:
            return not env[k[1]]
        return None
    r = ev(e)
    if r is None:
        return True
    return r if pol else (not r)
