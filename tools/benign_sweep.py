#!/venv/bin/python
"""Behaviour-preserving sweep: no check may alarm on a refactoring that leaves
behaviour unchanged.

For every non-vendored module under /repo/stone three variants are produced on
a scratch copy (under $TMPDIR, removed immediately), each by an AST-level
transformation followed by ast.unparse of the whole file:

  T0  unparse round trip (layout, quotes, comments, parentheses only)
  T1  every eligible local variable of every function renamed (x -> x_r)
  T2  every two-armed `if c: A else: B` rewritten to `if not c: B else: A`

and every check is run against the copy.  Expected: exit 0 everywhere.  An
exit 1 is a false alarm of a rule; an exit 2 means a rule depends on the
source shape so much that it cannot decide (also reported).

usage: benign_sweep.py [--jobs N] [--only stone/backends/x.py ...] [--props C01 ...]
                       [--transforms T0,T1,T2]
"""
import argparse
import ast
import builtins
import io
import os
import shutil
import sys
import tempfile
from concurrent.futures import ProcessPoolExecutor
from contextlib import redirect_stdout

HERE = os.path.dirname(os.path.dirname(os.path.abspath(__file__)))
sys.path.insert(0, HERE)
REPO = '/repo'


class Renamer(ast.NodeTransformer):
    """Rename the locals of one function (not parameters, not names that a
    nested scope, a global/nonlocal statement, an import or an except clause
    touches)."""

    def __init__(self, mapping):
        self.mapping = mapping

    def visit_Name(self, node):
        if node.id in self.mapping:
            node.id = self.mapping[node.id]
        return node


def eligible_locals(fn, module_names):
    params = {a.arg for a in fn.args.posonlyargs + fn.args.args + fn.args.kwonlyargs}
    if fn.args.vararg:
        params.add(fn.args.vararg.arg)
    if fn.args.kwarg:
        params.add(fn.args.kwarg.arg)
    stores, banned, loads = set(), set(params), set()

    def walk(n, nested):
        for c in ast.iter_child_nodes(n):
            if isinstance(c, (ast.FunctionDef, ast.AsyncFunctionDef, ast.Lambda, ast.ClassDef)):
                for x in ast.walk(c):
                    if isinstance(x, ast.Name):
                        banned.add(x.id)
                    if isinstance(x, ast.arg):
                        banned.add(x.arg)
                if isinstance(c, (ast.FunctionDef, ast.AsyncFunctionDef, ast.ClassDef)):
                    banned.add(c.name)
                continue
            if isinstance(c, (ast.Global, ast.Nonlocal)):
                banned.update(c.names)
            if isinstance(c, (ast.Import, ast.ImportFrom)):
                for a in c.names:
                    banned.add((a.asname or a.name).split('.')[0])
            if isinstance(c, ast.ExceptHandler) and c.name:
                banned.add(c.name)
            if isinstance(c, ast.Name):
                (stores if isinstance(c.ctx, (ast.Store, ast.Del)) else loads).add(c.id)
            if isinstance(c, ast.keyword) and c.arg:
                pass
            walk(c, nested)
    walk(fn, False)
    out = {}
    taken = stores | loads | banned | module_names | set(dir(builtins))
    for nm in sorted(stores - banned):
        if nm.startswith('__') or nm == '_':
            continue
        new = nm + '_r'
        while new in taken:
            new += 'r'
        taken.add(new)
        out[nm] = new
    return out


def t1(tree):
    module_names = {n.id for n in ast.walk(tree) if isinstance(n, ast.Name)} | \
        {n.name for n in ast.walk(tree)
         if isinstance(n, (ast.FunctionDef, ast.AsyncFunctionDef, ast.ClassDef))}
    n = 0
    for fn in [x for x in ast.walk(tree) if isinstance(x, (ast.FunctionDef, ast.AsyncFunctionDef))]:
        # only outermost functions and methods: nested ones are banned wholesale by their parent
        m = eligible_locals(fn, module_names)
        if m:
            r = Renamer(m)
            for stmt in fn.body:
                r.visit(stmt)
            n += len(m)
    return n


def t2(tree):
    n = 0
    for node in ast.walk(tree):
        if isinstance(node, ast.If) and node.orelse and not (
                len(node.orelse) == 1 and isinstance(node.orelse[0], ast.If)):
            # keep `if _MYPY:` style module guards and elif chains untouched
            par_is_elif = False
            node.test = ast.UnaryOp(op=ast.Not(), operand=node.test)
            node.body, node.orelse = node.orelse, node.body
            n += 1
    return n


def t0(tree):
    return 1


def t3(tree):
    """Swap the operands of == / != / is / is not when the right one is a constant."""
    n = 0
    for node in ast.walk(tree):
        if isinstance(node, ast.Compare) and len(node.ops) == 1 and \
                isinstance(node.ops[0], (ast.Eq, ast.NotEq, ast.Is, ast.IsNot)) and \
                isinstance(node.comparators[0], ast.Constant) and \
                not isinstance(node.left, ast.Constant):
            node.left, node.comparators[0] = node.comparators[0], node.left
            n += 1
    return n


def t4(tree):
    """`x = A if c else B` -> if c: x = A / else: x = B."""
    n = 0
    for node in ast.walk(tree):
        for field in ('body', 'orelse', 'finalbody'):
            blk = getattr(node, field, None)
            if not isinstance(blk, list):
                continue
            out = []
            for st in blk:
                if isinstance(st, ast.Assign) and len(st.targets) == 1 and \
                        isinstance(st.targets[0], ast.Name) and isinstance(st.value, ast.IfExp):
                    ie = st.value
                    out.append(ast.If(test=ie.test,
                                      body=[ast.Assign(targets=[ast.Name(id=st.targets[0].id,
                                                                         ctx=ast.Store())],
                                                       value=ie.body)],
                                      orelse=[ast.Assign(targets=[ast.Name(id=st.targets[0].id,
                                                                           ctx=ast.Store())],
                                                         value=ie.orelse)]))
                    n += 1
                else:
                    out.append(st)
            if n:
                setattr(node, field, out)
    return n


def t6(tree):
    """Insert a new, unused local as the first statement of every function."""
    n = 0
    for fn in ast.walk(tree):
        if isinstance(fn, (ast.FunctionDef, ast.AsyncFunctionDef)):
            i = 1 if (fn.body and isinstance(fn.body[0], ast.Expr) and
                      isinstance(fn.body[0].value, ast.Constant) and
                      isinstance(fn.body[0].value.value, str)) else 0
            fn.body.insert(i, ast.Assign(targets=[ast.Name(id='_sweep_marker', ctx=ast.Store())],
                                         value=ast.Constant(value=0)))
            n += 1
    return n


TRANSFORMS = {'T0': t0, 'T1': t1, 'T2': t2, 'T3': t3, 'T4': t4, 'T6': t6}


def nested_function_ids(tree):
    out = set()
    for fn in ast.walk(tree):
        if isinstance(fn, (ast.FunctionDef, ast.AsyncFunctionDef, ast.Lambda)):
            for c in ast.walk(fn):
                if c is not fn and isinstance(c, (ast.FunctionDef, ast.AsyncFunctionDef)):
                    out.add(id(c))
    return out


def make_variant(rel, tname):
    from stonelint.selftest import make_copy
    tmp = make_copy()
    path = os.path.join(tmp, rel)
    src = open(path, encoding='utf-8').read()
    tree = ast.parse(src)
    if tname == 'T1':
        nested = nested_function_ids(tree)
        # process outer functions only
        fns = [x for x in ast.walk(tree)
               if isinstance(x, (ast.FunctionDef, ast.AsyncFunctionDef)) and id(x) not in nested]
        module_names = {n.id for n in ast.walk(tree) if isinstance(n, ast.Name)} | \
            {n.name for n in ast.walk(tree)
             if isinstance(n, (ast.FunctionDef, ast.AsyncFunctionDef, ast.ClassDef))}
        n = 0
        for fn in fns:
            m = eligible_locals(fn, module_names)
            if m:
                r = Renamer(m)
                for stmt in fn.body:
                    r.visit(stmt)
                n += len(m)
    else:
        n = TRANSFORMS[tname](tree)
    ast.fix_missing_locations(tree)
    new = ast.unparse(tree) + '\n'
    compile(new, path, 'exec')
    open(path, 'w', encoding='utf-8').write(new)
    return tmp, n


def run_variant(args):
    rel, tname, props = args
    import importlib
    spec = importlib.util.spec_from_loader('check', loader=None)
    try:
        tmp, n = make_variant(rel, tname)
    except Exception as e:  # pragma: no cover
        return rel, tname, 0, {'*': (3, ['variant failed: %r' % e])}
    res = {}
    try:
        src = open(os.path.join(HERE, 'check')).read()
        ns = {'__name__': 'check_mod', '__file__': os.path.join(HERE, 'check')}
        exec(compile(src, 'check', 'exec'), ns)
        from stonelint.model import AnalysisError, Program
        try:
            pm = Program(tmp)
        except AnalysisError as e:
            return rel, tname, n, {'*': (2, ['ANALYSIS-ERROR %s' % e])}
        for p in props:
            buf = io.StringIO()
            try:
                with redirect_stdout(buf):
                    code, _ = ns['run_property'](p, 'quick', 0, tmp, quiet=False,
                                                 write_files=False, pm=pm)
            except AnalysisError as e:
                code = 2
                buf.write('ANALYSIS-ERROR %s\n' % e)
            except Exception as e:
                code = 2
                buf.write('ANALYSIS-ERROR unexpected %r\n' % e)
            if code != 0:
                lines = [l.strip() for l in buf.getvalue().splitlines()
                         if l.strip().startswith(('key:', 'ANALYSIS-ERROR'))]
                res[p] = (code, lines[:6])
    finally:
        shutil.rmtree(tmp, ignore_errors=True)
    return rel, tname, n, res


def main():
    ap = argparse.ArgumentParser()
    ap.add_argument('--jobs', type=int, default=16)
    ap.add_argument('--only', nargs='*')
    ap.add_argument('--props', nargs='*')
    ap.add_argument('--transforms', default='T0,T1,T2,T3,T4,T6')
    a = ap.parse_args()
    props = a.props or sorted(f[:3] for f in os.listdir(os.path.join(HERE, 'stonelint', 'rules'))
                              if f.startswith('C') and f.endswith('.py'))
    files = []
    for dp, dn, fn in os.walk(os.path.join(REPO, 'stone')):
        dn[:] = [d for d in dn if d not in ('_vendor', '__pycache__')]
        for f in sorted(fn):
            if f.endswith('.py'):
                files.append(os.path.relpath(os.path.join(dp, f), REPO))
    if a.only:
        files = [f for f in files if f in a.only]
    jobs = [(f, t, props) for f in sorted(files) for t in a.transforms.split(',')]
    bad = 0
    with ProcessPoolExecutor(max_workers=a.jobs) as ex:
        for rel, tname, n, res in ex.map(run_variant, jobs):
            if res:
                bad += 1
                for p, (code, lines) in sorted(res.items()):
                    print('%-6s %-2s %-45s rc=%s %s' % (p, tname, rel, code, lines))
            else:
                print('quiet  %-2s %-45s (%d edits)' % (tname, rel, n))
            sys.stdout.flush()
    print('benign sweep: %d variants, %d with a non-zero check' % (len(jobs), bad))
    return 1 if bad else 0


if __name__ == '__main__':
    sys.exit(main())
