#!/venv/bin/python
"""Re-create a sub-agent patch that no longer applies on /repo HEAD: apply the
equivalent text edit in a scratch worktree and write the new diff next to the
original (patch.orig.diff keeps the agent's version).
usage: port_seed.py <seed dir> <file> <old> <new> [<file> <old> <new> ...]"""
import os, shutil, subprocess, sys
d = sys.argv[1]
edits = sys.argv[2:]
wt = '/tmp/port-%d' % os.getpid()
subprocess.run('git -C /repo worktree add --detach %s -q' % wt, shell=True, check=True)
try:
    for i in range(0, len(edits), 3):
        p = os.path.join(wt, edits[i])
        s = open(p).read()
        old, new = edits[i + 1].encode().decode('unicode_escape'), edits[i + 2].encode().decode('unicode_escape')
        assert s.count(old) == 1, (edits[i], s.count(old))
        open(p, 'w').write(s.replace(old, new))
    out = subprocess.run('git diff', shell=True, cwd=wt, capture_output=True, text=True).stdout
    assert out.strip()
    if not os.path.exists(os.path.join(d, 'patch.orig.diff')):
        shutil.copy(os.path.join(d, 'patch.diff'), os.path.join(d, 'patch.orig.diff'))
    open(os.path.join(d, 'patch.diff'), 'w').write(out)
    print('ported', d, len(out.splitlines()), 'lines')
finally:
    subprocess.run('git -C /repo worktree remove --force %s' % wt, shell=True)
    shutil.rmtree(wt, ignore_errors=True)
