"""Use-def drift (rule ``<ID>-RU``): which assignments of a local can reach a statement that
reads it.

Expression drift compares statements and the effect rule their conditions; neither claims *added*
code.  An added assignment changes what an existing statement computes exactly when it reaches a
read of the variable: ``value = NOT_SET`` slipped in front of ``setattr(instance, self.name,
value)`` stores something else, although the ``setattr`` statement, its condition and every
other statement are as before.

Per function the reference (``reference/usedef.json``) keeps, for every read of a local or
parameter that has an assignment in the function, the set of assignments that can reach it
(dataflow.reaching: top-level re-bindings kill, loop-carried bindings reach around the loop),
keyed by the variable and the normalised text of the reading statement or compound head.  A
binding that reaches a read it did not reach on the confirmed tree is a violation; reads and
variables the reference does not have are not compared (new code is judged by the other rules),
and a binding that no longer reaches is left to expression drift (statement dropped) and the
effect rule.
"""
import ast
import json
import os

from .dataflow import defs, reaching
from .model import own_nodes, unparse
from .orderdrift import _site

REF = os.path.join(os.path.dirname(os.path.dirname(os.path.abspath(__file__))), 'reference',
                   'usedef.json')


_EMPTY = {'assign []', 'assign {}', 'assign set()', 'assign list()', 'assign dict()',
          'assign OrderedDict()', 'assign collections.OrderedDict()'}


def _fresh_container(text):
    try:
        v = ast.parse(text.split(' ', 1)[1], mode='eval').body
    except (SyntaxError, IndexError):
        return False
    return isinstance(v, (ast.List, ast.Dict, ast.Set, ast.ListComp, ast.DictComp, ast.SetComp))


def table_of(f):
    """{'var|reader text': sorted binding texts}"""
    node = f.node
    d = defs(node)
    out = {}
    params = set(d.params) - {'self', 'cls'}
    if not d.values and not params:
        return {}
    for n in own_nodes(node):
        if not (isinstance(n, ast.Name) and isinstance(n.ctx, ast.Load)):
            continue
        if n.id not in d.values:
            if n.id in params:
                # a parameter the function never re-binds: every read sees the argument
                st, key = _site(n, node)
                if st is not None:
                    out.setdefault('%s|%s' % (n.id, key), set()).add('<parameter>')
            continue
        st, key = _site(n, node)
        if st is None:
            continue
        try:
            rs, live = reaching(node, n.id, n)
        except Exception:
            continue
        texts = set()
        for kind, v, stmt in rs:
            if kind.startswith('iter'):
                texts.add('%s %s' % (kind, unparse(v) if v is not None else '?'))
            elif isinstance(stmt, ast.AugAssign):
                texts.add(unparse(stmt))
            else:
                texts.add('%s %s' % (kind, unparse(v) if v is not None else '?'))
        if live and n.id in d.params:
            texts.add('<parameter>')
        out.setdefault('%s|%s' % (n.id, key), set()).update(texts)
    # result slots and object fields: `p[0] = v`, `x.attr = v` -- everything the function may
    # leave there (an added conditional overwrite changes what the caller finds)
    for n in own_nodes(node):
        if isinstance(n, ast.Assign) and len(n.targets) == 1:
            t = n.targets[0]
            path = None
            if isinstance(t, ast.Subscript) and isinstance(t.value, ast.Name) and \
                    isinstance(t.slice, ast.Constant):
                path = '%s[%r]' % (t.value.id, t.slice.value)
            elif isinstance(t, ast.Attribute) and isinstance(t.value, ast.Name):
                path = '%s.%s' % (t.value.id, t.attr)
            if path:
                out.setdefault('%s|<stored>' % path, set()).add('assign ' + unparse(n.value))
    return {k: sorted(v) for k, v in out.items()}


def _kind(v):
    if isinstance(v, (ast.Set, ast.SetComp)):
        return 'set'
    if isinstance(v, (ast.List, ast.ListComp)):
        return 'list'
    if isinstance(v, (ast.Dict, ast.DictComp)):
        return 'dict'
    if isinstance(v, ast.Tuple):
        return 'tuple'
    if isinstance(v, ast.Call):
        f = v.func
        nm = f.attr if isinstance(f, ast.Attribute) else getattr(f, 'id', None)
        return {'set': 'set', 'frozenset': 'set', 'list': 'list', 'sorted': 'list', 'dict': 'dict',
                'OrderedDict': 'dict', 'defaultdict': 'dict', 'tuple': 'tuple'}.get(nm)
    return None


def kinds_of(f):
    """{local: 'set' | 'list' | 'dict' | 'tuple'} for locals every plain assignment of which
    builds a container of one kind, and that are used for more than membership tests."""
    d = defs(f.node)
    out = {}
    for nm, vals in d.values.items():
        if nm in d.params:
            continue
        ks = {_kind(v) for kind, v, stmt in vals if kind == 'assign' and
              not isinstance(stmt, ast.AugAssign)}
        if len(ks) != 1 or None in ks:
            continue
        other_use = False
        for n in own_nodes(f.node):
            if isinstance(n, ast.Name) and n.id == nm and isinstance(n.ctx, ast.Load):
                par = getattr(n, '_parent', None)
                if isinstance(par, ast.Compare) and n in par.comparators and \
                        all(isinstance(o, (ast.In, ast.NotIn)) for o in par.ops):
                    continue
                other_use = True
        if other_use:
            out[nm] = ks.pop()
    return out


def build_reference(pm):
    fns = {}
    kinds = {}
    for q, f in sorted(pm.functions.items()):
        t = table_of(f)
        if t:
            fns[q] = t
        k = kinds_of(f)
        if k:
            kinds[q] = k
    return {'note': 'per function: the bindings of a local that can reach each statement reading '
                    'it, at /repo HEAD; see stonelint/usedef.py', 'functions': fns,
            'kinds': kinds}


_CACHE = {}


def load_reference():
    if 'ref' not in _CACHE:
        try:
            j = json.load(open(REF))
            _CACHE['ref'] = j['functions']
            _CACHE['kinds'] = j.get('kinds', {})
        except (OSError, ValueError, KeyError):
            _CACHE['ref'] = None
    return _CACHE['ref']


def run(pm, ctx, rule, patterns):
    from .model import AnalysisError
    from .ownership import select
    ctx.rule(rule, 'every statement reading a local is reached only by the assignments of that '
                   'local that reached it on the confirmed tree (reference/usedef.json)')
    ref = load_reference()
    if ref is None:
        raise AnalysisError('anchor=reference/usedef.json')
    n = reads = 0
    for f in select(pm, patterns):
        r = ref.get(f.qualname)
        if not r:
            continue
        n += 1
        cur = table_of(f)
        new = []
        for k, rt in r.items():
            c = cur.get(k)
            if c is None:
                continue
            reads += 1
            extra = [t for t in c if t not in rt]
            if extra and rt == ['<parameter>'] and '<parameter>' not in c:
                # the argument itself no longer reaches the statement: it reads a transformed
                # value (`x = x or []`, `s = s.replace(...)` put in front of it)
                new.append((k, extra))
                continue
            # a re-spelled binding replaces its text one for one; only a read that more
            # bindings reach than before sees a value it never saw
            if extra and any(t in _EMPTY for t in rt):
                # a container filled in place on the confirmed tree and built by a
                # comprehension / display in one arm now: how it is built carries no meaning
                extra = [t for t in extra if not _fresh_container(t)]
            if extra and len(c) > len(rt):
                new.append((k, extra))
        var, site = new[0][0].split('|', 1) if new else ('', '')
        ctx.check(rule, not new, '%s: reads reached by the confirmed bindings' % f.short, f.loc,
                  msg=('%s: %s is now also left as `%s`: a value its readers never found there '
                       'on the confirmed tree' % (f.short, var, new[0][1][0][:90] if new else ''))
                  if site == '<stored>' else
                  '%s: `%s` now also reads %s as bound by `%s`: a value the statement never '
                  'saw on the confirmed tree' % (f.short, site[:90], var,
                                                 new[0][1][0][:90] if new else ''),
                  key='%s|%s|%s|%s' % (rule, f.qualname, var, (new[0][1][0][:50] if new else '')))
        rk = _CACHE.get('kinds', {}).get(f.qualname)
        if rk:
            ck = kinds_of(f)
            for var, k in sorted(rk.items()):
                c = ck.get(var)
                if c is None or c == k or {c, k} != {'set', 'list'}:
                    continue
                ctx.check(rule, False, '', f.loc,
                          msg='%s: %s was a %s on the confirmed tree and is a %s now: %s' % (
                              f.short, var, k, c,
                              'duplicates are kept and remove() takes out one occurrence only'
                              if c == 'list' else 'duplicates collapse and the iteration order '
                              'is no longer the insertion order'),
                          key='%s|%s|kind|%s' % (rule, f.qualname, var))
    ctx.extra['%s_functions' % rule] = n
    ctx.extra['%s_reads' % rule] = reads
    ctx.floor(rule, n, 1, 'functions compared with the reference')
