#!/venv/bin/python
"""Regenerate seeded/INDEX.md from the meta.json files verify_seeds.py wrote."""
import json, os
HERE = os.path.dirname(os.path.dirname(os.path.abspath(__file__)))
root = os.path.join(HERE, 'seeded')
rows = []
for d in sorted(os.listdir(root)):
    p = os.path.join(root, d, 'meta.json')
    if not os.path.exists(p):
        continue
    m = json.load(open(p))
    cb = m.get('caught_by', {})
    own = sorted({k.split('|')[0] for k in cb.get(m['property'], [])})
    others = sorted({k.split('|')[0] for p_, ks in cb.items() if p_ != m['property'] for k in ks})
    files = ', '.join(os.path.basename(f) for f in m.get('files_touched', []))
    summ = (m.get('summary') or '').replace('\n', ' ').replace('|', '/')
    rows.append('| %s | %s | %s | %s | %s |' % (d, files, summ[:160] + ('…' if len(summ) > 160 else ''),
                                              ', '.join(own) or '—', ', '.join(others) or ''))
open(os.path.join(root, 'INDEX.md'), 'w').write(
    '# Seeded changes (confirmed: suite 189 passed with the patch, demo fails with it, passes without)\n\n'
    'k = 1–3: first round of sub-agents; 4–6: second (non-obvious sites); 7–9: third (no condition '
    'changes); 10–12: fourth (added code); 13–15: fifth (cooperating edits, non-control-flow edits, '
    'shared helpers); 16–18: sixth (library-call substitutions, mutable state, boundaries, exception '
    'handling, templates / CLI).\n'
    '"own rules" are the rules of the property the change was written against that fire on it;\n'
    '"also" lists rules of other properties that fire as well.\n\n'
    '| seed | files | change | own rules | also |\n|---|---|---|---|---|\n' + '\n'.join(rows) + '\n')
print(len(rows), 'seeds indexed')
