ST = 'stone/backends/python_type_stubs.py'
PT = 'stone/backends/python_types.py'
TM = 'stone/backends/python_type_mapping.py'
MUTANTS = [
    dict(id='stub-is-helpers-skip-void', expect='fire', rule='C15-R1', edits=[(ST,
        "        for field in union.fields:\n            field_name = fmt_func(field.name)\n            self.emit('def is_{}(self) -> bool: ...'.format(field_name))",
        "        for field in union.fields:\n            if is_void_type(field.data_type):\n                continue\n            field_name = fmt_func(field.name)\n            self.emit('def is_{}(self) -> bool: ...'.format(field_name))")]),
    dict(id='stub-getters-renamed', expect='fire', rule='C15-R1', edits=[(ST,
        "        for field in data_type.fields:\n            field_name = fmt_func(field.name)\n\n            if not is_void_type(field.data_type):\n                # generate getter for field\n                val_type",
        "        for field in data_type.fields:\n            field_name = fmt_class(field.name)\n\n            if not is_void_type(field.data_type):\n                # generate getter for field\n                val_type")]),
    dict(id='runtime-creator-renamed', expect='fire', rule='C15-R1', edits=[(PT,
        "                field_name_reserved_check = fmt_func(field.name, check_reserved=True)\n                if is_nullable_type(field.data_type):\n                    field_dt = field.data_type.data_type\n                else:\n                    field_dt = field.data_type\n                self.emit('@classmethod')",
        "                field_name_reserved_check = fmt_func(field.name)\n                if is_nullable_type(field.data_type):\n                    field_dt = field.data_type.data_type\n                else:\n                    field_dt = field.data_type\n                self.emit('@classmethod')")]),
    dict(id='stub-init-own-fields', expect='fire', rule='C15-R1', edits=[(ST,
        "        args = [\"self\"]\n        for field in struct.all_fields:", "        args = [\"self\"]\n        for field in struct.fields:")]),
    dict(id='stub-base-class-object', expect='fire', rule='C15-R1', edits=[(ST,
        "                # Use a handwritten base class\n                extends = 'bb.Struct'\n            elif is_union_type(data_type):\n                extends = 'bb.Union'\n            else:\n                extends = 'object'\n        return 'class {}({}):'.format(\n            class_name_for_data_type(data_type), extends)\n\n    def _generate_struct_class_init(self, ns, struct):",
        "                # Use a handwritten base class\n                extends = 'object'\n            elif is_union_type(data_type):\n                extends = 'bb.Union'\n            else:\n                extends = 'object'\n        return 'class {}({}):'.format(\n            class_name_for_data_type(data_type), extends)\n\n    def _generate_struct_class_init(self, ns, struct):")]),
    dict(id='seed-stub-alias-gate', expect='fire', rule='C15-R1', edits=[(ST,
        "        self._generate_validator_for(alias)\n\n        unwrapped_dt, _ = unwrap_aliases(alias)\n        if is_user_defined_type(unwrapped_dt):", "        self._generate_validator_for(alias)\n\n        if is_user_defined_type(alias.data_type):")]),
    dict(id='stub-route-no-version', expect='fire', rule='C15-R1', edits=[(ST,
        "                    method_name=fmt_func(route.name, version=route.version)))", "                    method_name=fmt_func(route.name)))")]),
    dict(id='stub-validator-raw-name', expect='fire', rule='C15-R1', edits=[(ST,
        "        cls_name = class_name_for_data_type(data_type)\n        self.emit(\"{}_validator: bv.Validator = ...\".format(", "        cls_name = fmt_class(data_type.name)\n        self.emit(\"{}_validator: bv.Validator = ...\".format(")]),
    dict(id='seed-map-callback-drops-override', expect='fire', rule='C15-R2', edits=[(ST,
        "                map_stone_type_to_python_type(ns, map_type.value_data_type, override_dict)\n            )\n\n        def upon_encountering_nullable", "                map_stone_type_to_python_type(ns, map_type.value_data_type)\n            )\n\n        def upon_encountering_nullable")]),
    dict(id='seed-foreign-type-raw-namespace', expect='fire', rule='C15-R2', edits=[(TM,
        "                fmt_namespace(user_defined_type.namespace.name), class_name)", "                user_defined_type.namespace.name, class_name)")]),
    dict(id='mapping-drops-map', expect='fire', rule='C15-R2', edits=[(TM,
        "    elif is_map_type(data_type):\n        map_type = cast(Map, data_type)", "    elif False:\n        map_type = cast(Map, data_type)")]),
    dict(id='optional-not-registered', expect='fire', rule='C15-R3', edits=[(ST,
        "            if field.has_default:\n                self.import_tracker._register_typing_import('Optional')\n                field_type", "            if field.has_default:\n                field_type")]),
    dict(id='dict-not-registered', expect='fire', rule='C15-R3', edits=[(ST,
        "            self.import_tracker._register_typing_import(\"Dict\")\n", "")]),
    dict(id='placeholder-filled-first', expect='fire', rule='C15-R3', edits=[(ST,
        "        self._generate_routes(namespace)\n        self._generate_imports_needed_for_typing()", "        self._generate_imports_needed_for_typing()\n        self._generate_routes(namespace)")]),
    dict(id='benign-stub-comment', expect='silent', edits=[(ST,
        "        # Generate import statements for all referenced namespaces.\n        self._generate_imports_for_referenced_namespaces(namespace)\n\n        self._generate_typevars()",
        "        # Imports of referenced namespaces.\n        self._generate_imports_for_referenced_namespaces(namespace)\n\n        self._generate_typevars()")]),
    # --- generator totality (C15-R4)
    dict(id='stub-union-loop-reads-has-default', expect='fire', rule='C15-R4', edits=[('stone/backends/python_type_stubs.py',
        "        for field in union.fields:\n", "        for field in union.fields:\n            if field.has_default:\n                continue\n")]),
    dict(id='benign-correct-cache-typeref', expect='silent', edits=[('stone/backends/python_type_mapping.py',
        """        class_name = class_name_for_data_type(user_defined_type)
        if user_defined_type.namespace.name != ns.name:
            return '{}.{}'.format(
                fmt_namespace(user_defined_type.namespace.name), class_name)
        else:
            return class_name
""", """        ck = (ns.name, user_defined_type.namespace.name, user_defined_type.name)
        if ck not in _refs:
            class_name = class_name_for_data_type(user_defined_type)
            if user_defined_type.namespace.name != ns.name:
                class_name = '{}.{}'.format(
                    fmt_namespace(user_defined_type.namespace.name), class_name)
            _refs[ck] = class_name
        return _refs[ck]
"""), ('stone/backends/python_type_mapping.py', "def map_stone_type_to_python_type(", "_refs = {}\n\n\ndef map_stone_type_to_python_type(")]),
]
