#!/venv/bin/python
"""Re-run every check against the filed seeds (scratch copy + patch, no test
suite, no demo) and refresh `caught_by` in their meta.json; the verdicts of the
check as it stood when the seed was confirmed are kept once as
`caught_by_first_pass`.  usage: refresh_caught.py [seed-id-regex]"""
import json, os, re, shutil, subprocess, sys
from concurrent.futures import ThreadPoolExecutor
HERE = os.path.dirname(os.path.dirname(os.path.abspath(__file__)))
sys.path.insert(0, HERE)
from stonelint.selftest import make_copy
pat = re.compile(sys.argv[1] if len(sys.argv) > 1 else '.')
props = sorted(f[:3] for f in os.listdir(os.path.join(HERE, 'stonelint', 'rules'))
               if f.startswith('C') and f.endswith('.py'))


def one(sid):
    d = os.path.join(HERE, 'seeded', sid)
    tmp = make_copy()
    try:
        r = subprocess.run(['patch', '-p1', '-s', '-d', tmp, '-i', os.path.join(d, 'patch.diff')],
                           capture_output=True, text=True)
        if r.returncode != 0:
            return sid, None
        fired = {}
        for p in props:
            r = subprocess.run(['/venv/bin/python', os.path.join(HERE, 'check'), p, '--repo', tmp,
                                '--no-write'], capture_output=True, text=True)
            keys = [l.strip()[5:] for l in r.stdout.splitlines() if l.strip().startswith('key: ')]
            if r.returncode == 1:
                fired[p] = keys
            elif r.returncode != 0:
                fired[p] = ['ANALYSIS-ERROR']
        return sid, fired
    finally:
        shutil.rmtree(tmp, ignore_errors=True)


seeds = [s for s in sorted(os.listdir(os.path.join(HERE, 'seeded')))
         if os.path.exists(os.path.join(HERE, 'seeded', s, 'patch.diff')) and pat.search(s)]
with ThreadPoolExecutor(max_workers=8) as ex:
    for sid, fired in ex.map(one, seeds):
        mp = os.path.join(HERE, 'seeded', sid, 'meta.json')
        m = json.load(open(mp))
        if fired is None:
            print(sid, 'PATCH FAILED')
            continue
        if 'caught_by_first_pass' not in m:
            m['caught_by_first_pass'] = m.get('caught_by', {})
        m['caught_by'] = fired
        json.dump(m, open(mp, 'w'), indent=1)
        own = fired.get(m['property'])
        print(sid, 'own=%s others=%s' % (sorted({k.split('|')[0] for k in own}) if own else 'SILENT',
                                         sorted(p for p in fired if p != m['property'])))
