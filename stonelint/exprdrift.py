"""Expression drift (cross-check through time, companion of conddrift).

For every function the reference keeps five fingerprints (taken after the
model's normal forms and alpha-normalisation, so renaming locals or
re-formatting changes none of them):

  attrs   attribute names in source order
  names   variable reads in source order
  stmts   the text of the simple statements in source order
  calls   (callee text, argument texts) in source order
  consts  integer literals used in arithmetic, slices, subscripts, comparisons

A function whose fingerprints differ from the reference is reported only when
the difference has one of these exact shapes -- each of them changes what the
function computes, none of them is produced by a behaviour-preserving edit:

  A  same attrs length, 1-2 positions differ, the new attribute name already
     exists in the reference tree (so it is a substitution, e.g. `.fields`
     for `.all_fields`, not a rename)                      -> attribute substituted
  B  same names length (attrs equal), 1-2 positions differ, both names are
     variables of the function                              -> operand substituted
  C  stmts == reference stmts minus exactly one statement that is a call or
     an assignment (logging excluded), nothing else changed -> statement dropped
  D  same consts length, exactly one differs (everything else equal)
                                                            -> constant changed
  E  same callees; one call has its reference arguments in another order
                                                            -> arguments swapped

Anything else (statements added, rewritten, moved; several things at once) is
not claimed.
"""
import ast
import json
import os

from .model import own_nodes, unparse

LOGGING = ('logger', 'logging', 'log')
EFFECT_METHODS = ('append', 'extend', 'insert', 'add', 'update', 'emit', 'emit_raw', 'write',
                  'setdefault', 'pop', 'remove')


def _simple_statements(fnode):
    out = []
    for n in own_nodes(fnode):
        if isinstance(n, (ast.Assign, ast.AugAssign, ast.AnnAssign, ast.Expr, ast.Return,
                          ast.Raise, ast.Delete, ast.Assert, ast.Break, ast.Continue)):
            if isinstance(n, ast.Expr) and isinstance(n.value, ast.Constant):
                continue      # docstrings
            out.append(n)
    return out


def _kw_canon(n, kw, mode='exec'):
    """The node with the keyword arguments of calls to repository functions in normal form
    (inline.positional_keywords), as a fresh tree; the node itself when nothing applies."""
    if not kw or not any(isinstance(x, ast.Call) and x.keywords for x in ast.walk(n)):
        return n
    from .inline import positional_keywords
    try:
        c = ast.parse(unparse(n), mode=mode)
    except SyntaxError:
        return n
    if not positional_keywords(c, kw):
        return n
    return c.body[0] if mode == 'exec' else c.body


def fingerprint(f, kw=None):
    node = f.node
    attrs, names, calls, consts = [], [], [], []
    for n in own_nodes(node):
        if isinstance(n, ast.Attribute):
            attrs.append(n.attr)
        elif isinstance(n, ast.Name) and isinstance(n.ctx, ast.Load):
            names.append(n.id)
        elif isinstance(n, ast.Call):
            n = _kw_canon(n, kw, 'eval')
            calls.append([unparse(n.func), [unparse(a) for a in n.args] +
                          ['%s=%s' % (k.arg, unparse(k.value)) for k in n.keywords]])
        elif isinstance(n, ast.Constant) and isinstance(n.value, int) and \
                not isinstance(n.value, bool):
            par = getattr(n, '_parent', None)
            gp = getattr(par, '_parent', None)
            if isinstance(par, (ast.BinOp, ast.Slice, ast.Compare, ast.UnaryOp)) or \
                    (isinstance(par, ast.Subscript) and par.slice is n) or \
                    isinstance(gp, ast.Slice):
                consts.append(n.value)
    simple = _simple_statements(node)
    stmts = [unparse(_kw_canon(s, kw)) for s in simple]
    compound_ids = {}
    for n in own_nodes(node):
        if isinstance(n, (ast.If, ast.For, ast.AsyncFor, ast.While, ast.Try, ast.With)):
            compound_ids[id(n)] = len(compound_ids)
    depth = []
    for st in simple:
        path = []
        child, par = st, getattr(st, '_parent', None)
        while par is not None and par is not node:
            if id(par) in compound_ids:
                arm = next((a for a in ('body', 'orelse', 'finalbody')
                            if isinstance(getattr(par, a, None), list) and
                            child in getattr(par, a)), 'x')
                from .pathcond import terminates
                if isinstance(par, ast.If) and arm == 'orelse' and terminates(par.body):
                    # `if c: return ... else: B` is `if c: return ...` followed by B
                    pass
                else:
                    path.append('%s%d.%s' % (type(par).__name__, compound_ids[id(par)], arm))
            child, par = par, getattr(par, '_parent', None)
        depth.append('/'.join(reversed(path)))
    kinds = [type(n).__name__ for n in own_nodes(node)
             if isinstance(n, (ast.If, ast.For, ast.While, ast.Try, ast.With))]
    from .conddrift import _clean, _subst_text
    iters = []
    for n in own_nodes(node):
        if isinstance(n, (ast.For, ast.AsyncFor, ast.comprehension)):
            iters.append([unparse(n.target), _clean(_subst_text(f, n.iter))])
    return {'attrs': attrs, 'names': names, 'stmts': stmts, 'calls': calls, 'consts': consts,
            'compound': kinds, 'depth': depth, 'iters': iters}


def build(pm):
    out = {}

    def add(f):
        out[f.qualname] = fingerprint(f, pm.kw_table)
        for g in f.nested.values():
            add(g)
    for f in pm.functions.values():
        if f.parent is None:
            add(f)
    # attributes the repository's own classes define (methods, class attributes, self.x):
    # substituting one of these for another is never a re-spelling
    vocab = set()
    for c in pm.classes.values():
        vocab.update(c.methods)
        vocab.update(c.attrs)
        for m in c.methods.values():
            for n in own_nodes(m.node):
                if isinstance(n, ast.Attribute) and isinstance(n.ctx, ast.Store) and \
                        isinstance(n.value, ast.Name) and n.value.id == 'self':
                    vocab.add(n.attr)
    return {'functions': out, 'attr_vocabulary': sorted(vocab)}


def _diff_positions(a, b):
    return [i for i, (x, y) in enumerate(zip(a, b)) if x != y]


def compare(ref, cur, vocab, local_names, local_names_ref=frozenset()):
    """[(kind, detail)] for the recognised shapes; [] when unchanged or not
    claimed."""
    if ref == cur:
        return []
    out = []
    same = {k: ref[k] == cur.get(k) for k in ref}
    # K: the collection a loop runs over is wrapped in something that drops elements
    if ref.get('iters') is not None and cur.get('iters') is not None and not same['iters'] and \
            [t for t, _ in ref['iters']] == [t for t, _ in cur['iters']]:
        for (t, ri), (_, ci) in zip(ref['iters'], cur['iters']):
            if ri != ci:
                why = _collapsed(ri, ci)
                if why:
                    out.append(('loop collection collapsed', 'for %s in %s -> %s (%s)' % (
                        t, ri[:60], ci[:80], why)))
                    return out
    # A: attribute substituted
    if not same['attrs'] and len(ref['attrs']) == len(cur['attrs']) and same['compound'] and \
            same['names'] and len(ref['stmts']) == len(cur['stmts']):
        pos = _diff_positions(ref['attrs'], cur['attrs'])
        if 1 <= len(pos) <= 2 and all(cur['attrs'][i] in vocab and ref['attrs'][i] in vocab
                                      for i in pos) and \
                sorted(ref['attrs']) != sorted(cur['attrs']):   # not a mere reordering
            out.append(('attribute substituted', ', '.join(
                '.%s -> .%s' % (ref['attrs'][i], cur['attrs'][i]) for i in pos)))
            return out
    # B: operand substituted
    if not same['names'] and len(ref['names']) == len(cur['names']) and same['attrs'] and \
            same['compound'] and len(ref['stmts']) == len(cur['stmts']) and same['consts']:
        pos = _diff_positions(ref['names'], cur['names'])
        known = set(ref['names']) | local_names_ref
        if 1 <= len(pos) <= 2 and sorted(ref['names']) != sorted(cur['names']) and \
                all(cur['names'][i] in known and cur['names'][i] in local_names and
                    ref['names'][i] in local_names for i in pos):
            out.append(('operand substituted', ', '.join(
                '%s -> %s' % (ref['names'][i], cur['names'][i]) for i in pos)))
            return out
    # C: statement dropped
    if len(cur['stmts']) == len(ref['stmts']) - 1 and same['compound']:
        r = list(ref['stmts'])
        for i in range(len(r)):
            if r[:i] + r[i + 1:] == cur['stmts']:
                st = r[i]
                if not any(st.startswith(p) or ('.' + p + '.') in st or st.startswith('self.' + p)
                           for p in LOGGING) and not st.startswith(('assert ', 'pass')):
                    if st.startswith(('return', 'continue', 'break')) and st in cur['stmts']:
                        return out      # two exits with one text merged into one: decided by
                        #                 the effect-condition rule
                    # `v = E` removed and E now written where v was read: the local was inlined
                    try:
                        a_ = ast.parse(st).body[0]
                    except (SyntaxError, IndexError):
                        a_ = None
                    if isinstance(a_, ast.Assign) and len(a_.targets) == 1 and \
                            isinstance(a_.targets[0], ast.Name) and \
                            a_.targets[0].id not in cur['names'] and \
                            (any(unparse(a_.value) in c for c in cur['stmts'] + [
                                t for _, t in cur.get('iters', [])]) or
                             (sorted(map(str, ref['calls'])) == sorted(map(str, cur['calls'])) and
                              sorted(ref['attrs']) == sorted(cur['attrs']))):
                        return out      # every call and attribute of its value is still there
                    out.append(('statement dropped', st[:120]))
                return out
    # E: arguments swapped
    if not same['calls'] and len(ref['calls']) == len(cur['calls']) and same['attrs'] and \
            same['compound'] and same['consts'] and sorted(ref['names']) == sorted(cur['names']):
        swapped = []
        for (rf, ra), (cf, ca) in zip(ref['calls'], cur['calls']):
            if rf != cf:
                swapped = None
                break
            if ra != ca:
                if sorted(ra) == sorted(ca):
                    swapped.append('%s(%s) -> (%s)' % (rf, ', '.join(ra), ', '.join(ca)))
                elif ''.join(sorted(''.join(ra))) == ''.join(sorted(''.join(ca))):
                    # an enclosing call whose text contains the swapped inner call
                    continue
                else:
                    swapped = None
                    break
        if swapped:
            out.append(('arguments swapped', swapped[0][:200]))
            return out
    # H: an attribute access added to / dropped from an operand (x.name <-> x)
    if same['names'] and same['compound'] and same['consts'] and \
            len(ref['stmts']) == len(cur['stmts']) and \
            abs(len(ref['attrs']) - len(cur['attrs'])) == 1:
        longer, shorter = (ref['attrs'], cur['attrs']) if len(ref['attrs']) > len(cur['attrs']) \
            else (cur['attrs'], ref['attrs'])
        for i in range(len(longer)):
            if longer[:i] + longer[i + 1:] == shorter:
                if len(_diff_positions(ref['stmts'], cur['stmts'])) == 1 and longer[i] in vocab:
                    out.append(('attribute access %s' % (
                        'dropped' if longer is ref['attrs'] else 'added'), '.' + longer[i]))
                    return out
                break
    # I: an argument dropped from / added to one call
    if not same['calls'] and len(ref['calls']) == len(cur['calls']) and same['compound'] and \
            len(ref['stmts']) == len(cur['stmts']):
        diffs = [(r_, c_) for r_, c_ in zip(ref['calls'], cur['calls']) if r_ != c_]
        inner = [d for d in diffs if d[0][0] == d[1][0] and abs(len(d[0][1]) - len(d[1][1])) == 1]

        def _contains_inner(d):
            # an enclosing call / method call on the result: its text contains the changed call
            (rf0, ra0), (cf0, ca0) = inner[-1]
            it_r = '%s(%s)' % (rf0, ', '.join(ra0))
            it_c = '%s(%s)' % (cf0, ', '.join(ca0))
            return d[0][0].replace(it_r, it_c) == d[1][0]
        if inner and all(d[0][0] == d[1][0] or _contains_inner(d) for d in diffs):
            (rf, ra), (cf, ca) = inner[-1]
            longer, shorter = (ra, ca) if len(ra) > len(ca) else (ca, ra)
            if any(longer[:i] + longer[i + 1:] == shorter for i in range(len(longer))):
                gone = [x for x in longer if x not in shorter] or longer[-1:]
                if gone[0] in ('None',) or gone[0].endswith('=None'):
                    return out      # an explicit None that equals the usual default
                # the other differing calls are enclosing calls whose text contains this one
                if all(d is inner[-1] or len(d[0][1]) == len(d[1][1]) for d in diffs):
                    out.append(('argument %s' % ('dropped' if longer is ra else 'added'),
                                '%s(...%s...)' % (rf, gone[0][:60])))
                    return out
    # J: the order of effects on one receiver changed
    if sorted(ref['stmts']) == sorted(cur['stmts']) and \
            sorted(ref['compound']) == sorted(cur['compound']) and ref['stmts'] != cur['stmts']:
        def effects(stmts):
            seq = {}
            for t in stmts:
                try:
                    st = ast.parse(t).body[0]
                except (SyntaxError, IndexError):
                    continue
                if isinstance(st, ast.Expr) and isinstance(st.value, ast.Call) and \
                        isinstance(st.value.func, ast.Attribute) and \
                        st.value.func.attr in EFFECT_METHODS:
                    recv = unparse(st.value.func.value)
                    key = recv if st.value.func.attr not in ('emit', 'emit_raw') else recv + '.emit'
                    seq.setdefault(key, []).append(t)
            return seq
        re_, ce = effects(ref['stmts']), effects(cur['stmts'])
        for k in re_:
            if k in ce and sorted(re_[k]) == sorted(ce[k]) and re_[k] != ce[k]:
                out.append(('order of effects changed', 'on %s: %s' % (
                    k, ' / '.join(x[:50] for x in ce[k][:3]))))
                return out
    # F: operands swapped inside one statement
    if len(ref['stmts']) == len(cur['stmts']) and same['compound'] and same['consts'] and \
            sorted(ref['attrs']) == sorted(cur['attrs']) and \
            sorted(ref['names']) == sorted(cur['names']):
        pos = _diff_positions(ref['stmts'], cur['stmts'])
        if len(pos) == 1:
            a, b = ref['stmts'][pos[0]], cur['stmts'][pos[0]]
            if _tokens(a) == _tokens(b) and _kw_sorted(a) != _kw_sorted(b):
                out.append(('operands swapped', '%s -> %s' % (a[:90], b[:90])))
                return out
    # G: an effect moved to another place in the nesting of loops and branches
    if sorted(ref['stmts']) == sorted(cur['stmts']) and ref.get('depth') is not None and \
            same['compound'] and len(ref['stmts']) == len(cur['stmts']):
        moved = []
        used = [False] * len(cur['stmts'])
        for i, t in enumerate(ref['stmts']):
            js = [j for j, u in enumerate(cur['stmts']) if u == t and not used[j]]
            if not js:
                moved = None
                break
            # prefer a partner at the same depth
            j = next((x for x in js if cur['depth'][x] == ref['depth'][i]), js[0])
            used[j] = True
            if cur['depth'][j] != ref['depth'][i]:
                moved.append((t, ref['depth'][i], cur['depth'][j]))
        if moved and len(moved) == 2 and moved[0][1] == moved[1][2] and \
                moved[0][2] == moved[1][1]:
            moved = []      # two statements changed places: an inverted early exit
        if moved and len(moved) <= 2 and all(_is_effect(t) for t, _, _ in moved):
            out.append(('statement moved into or out of a loop or branch', '; '.join(
                '%s (%s -> %s)' % (t[:80], a or 'top', b or 'top') for t, a, b in moved)))
            return out
    # M: a collection that was rebuilt on every iteration of a loop (`x = [..comprehension..]`
    # inside the loop) is now initialised outside that loop and only appended to inside
    if ref.get('depth') is not None and cur.get('depth') is not None:
        def loops(path):
            return sum(1 for part in path.split('/') if part.startswith(('For', 'While')))
        for i, t in enumerate(ref['stmts']):
            if t in cur['stmts']:
                continue
            try:
                st = ast.parse(t).body[0]
            except (SyntaxError, IndexError):
                continue
            if isinstance(st, ast.Assign) and len(st.targets) == 1 and \
                    isinstance(st.targets[0], ast.Name) and \
                    isinstance(st.value, (ast.ListComp, ast.SetComp, ast.DictComp)):
                nm = st.targets[0].id
                inits = [j for j, u in enumerate(cur['stmts'])
                         if u in ('%s = []' % nm, '%s = {}' % nm, '%s = set()' % nm)]
                if len(inits) == 1 and not any(
                        u in ('%s = []' % nm, '%s = {}' % nm, '%s = set()' % nm)
                        for u in ref['stmts']) and \
                        loops(cur['depth'][inits[0]]) < loops(ref['depth'][i]):
                    out.append(('statement moved into or out of a loop or branch',
                                '%s = <empty> is now initialised outside the loop that rebuilt it'
                                % nm))
                    return out
    # P: the value of an assignment / argument now passes through copy.copy / deepcopy / list /
    # dict / set / sorted: another object than the one every other holder of it sees
    if len(ref['stmts']) == len(cur['stmts']) and same['compound']:
        pos = _diff_positions(ref['stmts'], cur['stmts'])
        if len(pos) == 1:
            try:
                ta, tb = ast.parse(ref['stmts'][pos[0]]), ast.parse(cur['stmts'][pos[0]])
            except SyntaxError:
                ta = tb = None
            d = _first_difference(ta, tb) if ta is not None else None
            if d is not None:
                x, y = d
                for old_, new_, what in ((x, y, 'now passed through'), (y, x, 'no longer passed through')):
                    if isinstance(new_, ast.Call) and len(new_.args) == 1 and not new_.keywords and \
                            isinstance(old_, ast.AST) and ast.dump(new_.args[0]) == ast.dump(old_) and \
                            unparse(new_.func).rsplit('.', 1)[-1] in (
                                'copy', 'deepcopy', 'list', 'dict', 'set', 'sorted', 'tuple',
                                'frozenset', 'OrderedDict'):
                        out.append(('value copied', '%s %s %s()' % (
                            unparse(old_)[:50], what, unparse(new_.func))))
                        return out
    # O: a library operation replaced by a near relative (split/rsplit, strip/lstrip,
    # copy/deepcopy, sorted/list, min/max, any/all, match/search/fullmatch, get/setdefault ...):
    # the two differ on some input by definition
    if len(ref['calls']) == len(cur['calls']) and same['compound'] and \
            len(ref['stmts']) == len(cur['stmts']):
        diffs = [(r_, c_) for r_, c_ in zip(ref['calls'], cur['calls']) if r_ != c_]
        for (rf, ra), (cf, ca) in diffs:
            if ra != ca or rf == cf:
                continue
            rl, cl = rf.rsplit('.', 1)[-1], cf.rsplit('.', 1)[-1]
            if rf.rsplit('.', 1)[0] != cf.rsplit('.', 1)[0] and '.' in rf and '.' in cf:
                continue
            fam = next((fm for fm in _FAMILIES if rl in fm and cl in fm), None)
            if fam is not None and rl != cl:
                out.append(('library call substituted', '%s -> %s' % (rf[:60], cf[:60])))
                return out
    # N: elements dropped from one tuple / list / set display of an otherwise unchanged statement
    # (the components of a key, of a hash, of a comparison tuple)
    if len(ref['stmts']) == len(cur['stmts']) and same['compound']:
        pos = _diff_positions(ref['stmts'], cur['stmts'])
        if len(pos) == 1:
            try:
                ta, tb = ast.parse(ref['stmts'][pos[0]]), ast.parse(cur['stmts'][pos[0]])
            except SyntaxError:
                ta = tb = None
            d = _first_difference(ta, tb) if ta is not None else None
            if d is not None:
                x, y = d
                if type(x) is type(y) and isinstance(x, (ast.Tuple, ast.List, ast.Set)) and \
                        isinstance(getattr(x, 'ctx', ast.Load()), ast.Load):
                    ex, ey = [ast.dump(e) for e in x.elts], [ast.dump(e) for e in y.elts]
                    if len(ey) < len(ex) and _is_subsequence(ey, ex):
                        gone = [unparse(e) for e in x.elts if ast.dump(e) not in ey]
                        out.append(('elements dropped', '%s no longer part of %s' % (
                            ', '.join(gone)[:100], unparse(x)[:60])))
                        return out
    # L: the constant a flag / attribute is set to was replaced (by another constant or by an
    # expression), or an expression was replaced by a constant
    if len(ref['stmts']) == len(cur['stmts']) and same['compound']:
        pos = _diff_positions(ref['stmts'], cur['stmts'])
        if len(pos) == 1:
            a, b = ref['stmts'][pos[0]], cur['stmts'][pos[0]]
            try:
                sa, sb = ast.parse(a).body[0], ast.parse(b).body[0]
            except (SyntaxError, IndexError):
                sa = sb = None
            if isinstance(sa, ast.Assign) and isinstance(sb, ast.Assign) and \
                    [unparse(t) for t in sa.targets] == [unparse(t) for t in sb.targets] and \
                    (isinstance(sa.value, ast.Constant) or isinstance(sb.value, ast.Constant)) and \
                    not (isinstance(sa.value, ast.Constant) and isinstance(sa.value.value, str) and
                         isinstance(sb.value, ast.Constant) and isinstance(sb.value.value, str)):
                out.append(('assigned constant replaced', '%s -> %s' % (a[:80], b[:80])))
                return out
    # D: constant changed
    if not same['consts'] and len(ref['consts']) == len(cur['consts']) and same['attrs'] and \
            same['names'] and same['compound'] and len(ref['stmts']) == len(cur['stmts']):
        pos = _diff_positions(ref['consts'], cur['consts'])
        if len(pos) == 1:
            out.append(('constant changed', '%r -> %r' % (ref['consts'][pos[0]],
                                                          cur['consts'][pos[0]])))
    return out


COLLAPSING = {'dict': 'entries with the same key collapse into one',
              'set': 'equal elements collapse and the order is lost',
              'frozenset': 'equal elements collapse and the order is lost',
              'OrderedDict': 'entries with the same key collapse into one'}


def _collapsed(ref_iter, cur_iter):
    """The current iterable is the reference one passed through dict()/set()/a slice."""
    try:
        tree = ast.parse(cur_iter, mode='eval').body
    except SyntaxError:
        return None
    for n in ast.walk(tree):
        if isinstance(n, ast.Call) and isinstance(n.func, ast.Name) and n.func.id in COLLAPSING \
                and len(n.args) == 1 and unparse(n.args[0]) == ref_iter:
            return '%s(): %s' % (n.func.id, COLLAPSING[n.func.id])
        if isinstance(n, ast.Subscript) and isinstance(n.slice, ast.Slice) and \
                unparse(n.value) == ref_iter:
            return 'slice: elements are left out'
    return None


_FAMILIES = [
    {'strip', 'lstrip', 'rstrip'},
    {'startswith', 'endswith'},
    {'copy', 'deepcopy'},
    {'sorted', 'list', 'tuple', 'set', 'frozenset', 'reversed'},
    {'min', 'max'}, {'any', 'all'},
    {'get', 'setdefault', 'pop'},
    {'int', 'float', 'round', 'bool'}, {'str', 'repr'},
    {'append', 'extend', 'insert'}, {'add', 'update'},
    {'lower', 'upper', 'title', 'capitalize', 'casefold'},
    {'find', 'rfind', 'index', 'rindex'},
    {'join', 'normpath', 'abspath', 'realpath', 'relpath'},
    {'floor', 'ceil', 'trunc'},
    {'items', 'keys', 'values'},
    {'isdigit', 'isalnum', 'isalpha', 'isnumeric', 'isdecimal'},
]


def _is_subsequence(short, long_):
    it = iter(long_)
    return all(any(x == y for y in it) for x in short)


def _first_difference(a, b):
    """The first pair of nodes at which two trees of the same shape differ, or None."""
    if type(a) is not type(b):
        return (a, b)
    if isinstance(a, (ast.Tuple, ast.List, ast.Set)) and len(a.elts) != len(b.elts):
        return (a, b)
    for (fa, va), (fb, vb) in zip(ast.iter_fields(a), ast.iter_fields(b)):
        if isinstance(va, list) and isinstance(vb, list):
            if len(va) != len(vb):
                return (a, b)
            for x, y in zip(va, vb):
                if isinstance(x, ast.AST) and isinstance(y, ast.AST):
                    d = _first_difference(x, y)
                    if d is not None:
                        return d
                elif x != y:
                    return (a, b)
        elif isinstance(va, ast.AST) and isinstance(vb, ast.AST):
            d = _first_difference(va, vb)
            if d is not None:
                return d
        elif va != vb and fa not in ('lineno', 'col_offset', 'end_lineno', 'end_col_offset',
                                     'ctx', 'kind', 'type_comment'):
            return (a, b)
    return None


def _tokens(text):
    try:
        tree = ast.parse(text)
    except SyntaxError:
        return None
    return sorted([n.id for n in ast.walk(tree) if isinstance(n, ast.Name)] +
                  [n.attr for n in ast.walk(tree) if isinstance(n, ast.Attribute)] +
                  [repr(n.value) for n in ast.walk(tree) if isinstance(n, ast.Constant)])


def _kw_sorted(text):
    """The statement with the keyword arguments of every call sorted (their
    order carries no meaning)."""
    try:
        tree = ast.parse(text)
    except SyntaxError:
        return text
    fmt_operands = {id(n.right) for n in ast.walk(tree)
                    if isinstance(n, ast.BinOp) and isinstance(n.op, ast.Mod)}
    for n in ast.walk(tree):
        if isinstance(n, ast.Call):
            n.keywords.sort(key=lambda k: k.arg or '')
        elif isinstance(n, (ast.List, ast.Tuple, ast.Set)) and id(n) not in fmt_operands and \
                isinstance(getattr(n, 'ctx', ast.Load()), ast.Load):
            # the order of the items of a collection literal is data, not computation
            n.elts.sort(key=ast.unparse)
    text = ast.unparse(tree)
    if any(isinstance(n, ast.List) and n.elts and all(isinstance(e, ast.Constant) for e in n.elts)
           for n in ast.walk(tree)):
        # a list display of literals and the tuple of the same literals hold the same operands
        class T(ast.NodeTransformer):
            def visit_List(self, n):
                self.generic_visit(n)
                if n.elts and all(isinstance(e, ast.Constant) for e in n.elts) and \
                        isinstance(n.ctx, ast.Load):
                    return ast.Tuple(elts=n.elts, ctx=ast.Load())
                return n
        text = ast.unparse(T().visit(tree))
    return text


def _is_effect(text):
    """A statement whose number of executions matters: a call for effect, or
    the (re-)initialisation of a container."""
    try:
        st = ast.parse(text).body[0]
    except (SyntaxError, IndexError):
        return False
    if isinstance(st, (ast.Break, ast.Continue, ast.Return, ast.Raise)):
        return True
    if isinstance(st, ast.Expr) and isinstance(st.value, ast.Call):
        f = unparse(st.value.func)
        return not any(f.startswith(p) or ('.' + p + '.') in f for p in LOGGING)
    if isinstance(st, (ast.Assign, ast.AugAssign)):
        v = st.value
        if isinstance(st, ast.AugAssign):
            return True
        tnames = {t.id for t in st.targets if isinstance(t, ast.Name)}
        if tnames & {x.id for x in ast.walk(v) if isinstance(x, ast.Name)}:
            return True      # x = f(x): an accumulator update
        if isinstance(v, (ast.List, ast.Dict, ast.Set)) and not (getattr(v, 'elts', None) or
                                                                  getattr(v, 'keys', None)):
            return True
        if isinstance(v, ast.Call) and unparse(v.func) in ('set', 'dict', 'list', 'OrderedDict',
                                                           'collections.OrderedDict',
                                                           'defaultdict', 'collections.defaultdict'):
            return True
        if isinstance(v, ast.Constant) and isinstance(v.value, (bool, int)):
            return True      # a flag or counter
    return False


def load_reference(verif_root):
    p = os.path.join(verif_root, 'reference', 'expressions.json')
    if not os.path.exists(p):
        return None
    with open(p, encoding='utf-8') as fh:
        return json.load(fh)


def run(pm, ctx, rule, patterns, min_funcs=1):
    import re
    from .dataflow import defs
    from .model import AnalysisError
    ctx.rule(rule, 'the expressions of the functions the property is anchored in are those '
                   'confirmed on the reference tree: no attribute or variable substituted for '
                   'another, no call or assignment dropped, no arguments swapped, no integer '
                   'literal of an arithmetic/slice/comparison changed (other edits are not claimed)')
    verif = os.path.dirname(os.path.dirname(os.path.abspath(__file__)))
    ref = load_reference(verif)
    if ref is None:
        raise AnalysisError('anchor=reference/expressions.json (missing)')
    vocab = set(ref['attr_vocabulary'])
    from .ownership import select
    todo = select(pm, patterns)
    n = 0
    for f in todo:
        r = ref['functions'].get(f.qualname)
        if r is None:
            continue
        n += 1
        cur = fingerprint(f, pm.kw_table)
        d = defs(f.node)
        local_names = set(d.values) | set(f.params)
        g = f.parent
        while g is not None:
            local_names |= set(defs(g.node).values) | set(g.params)
            g = g.parent
        probs = compare(r, cur, vocab, local_names, set(f.params))
        ctx.check(rule, not probs, '%s: expressions as confirmed' % f.short, f.loc,
                  msg='%s: %s (%s): the function computes something else than on the reference '
                      'tree' % (f.short, probs[0][0] if probs else '', probs[0][1] if probs else ''),
                  key='%s|%s|%s' % (rule, f.qualname, probs[0][0] if probs else 'expr'))
    ctx.extra['%s_functions' % rule] = n
    ctx.floor(rule, n, min_funcs, 'functions matched with the reference')
