"""Local def-use helpers (flow-insensitive, per function)."""
import ast

from .model import own_nodes, unparse


def _ifexp_leaves(e):
    if isinstance(e, ast.IfExp):
        return _ifexp_leaves(e.body) + _ifexp_leaves(e.orelse)
    return [e]


class Defs:
    """All bindings of local names in one function."""

    def __init__(self, funcnode):
        self.funcnode = funcnode
        self.values = {}   # name -> list of (kind, value_expr, stmt)
        a = funcnode.args
        self.params = [x.arg for x in a.posonlyargs + a.args + a.kwonlyargs]
        if a.vararg:
            self.params.append(a.vararg.arg)
        if a.kwarg:
            self.params.append(a.kwarg.arg)
        for n in own_nodes(funcnode):
            if isinstance(n, ast.Assign):
                for t in n.targets:
                    self._bind(t, n.value, n, 'assign')
            elif isinstance(n, ast.AnnAssign) and n.value is not None:
                self._bind(n.target, n.value, n, 'assign')
            elif isinstance(n, ast.AugAssign):
                self._bind(n.target, n.value, n, 'aug')
            elif isinstance(n, (ast.For, ast.AsyncFor)):
                self._bind(n.target, n.iter, n, 'iter')
            elif isinstance(n, (ast.With, ast.AsyncWith)):
                for it in n.items:
                    if it.optional_vars is not None:
                        self._bind(it.optional_vars, it.context_expr, n, 'with')
            elif isinstance(n, ast.comprehension):
                self._bind(n.target, n.iter, n, 'iter')
            elif isinstance(n, ast.ExceptHandler) and n.name:
                self.values.setdefault(n.name, []).append(('except', n.type, n))
            elif isinstance(n, ast.NamedExpr):
                self._bind(n.target, n.value, n, 'assign')

    def _bind(self, target, value, stmt, kind):
        if isinstance(target, ast.Name):
            if kind == 'assign' and isinstance(value, ast.IfExp):
                # a conditional expression binds either arm: same facts as the
                # equivalent if/else statement with two assignments
                for leaf in _ifexp_leaves(value):
                    self.values.setdefault(target.id, []).append((kind, leaf, stmt))
                return
            self.values.setdefault(target.id, []).append((kind, value, stmt))
        elif isinstance(target, (ast.Tuple, ast.List)):
            for i, t in enumerate(target.elts):
                if isinstance(value, (ast.Tuple, ast.List)) and len(value.elts) == len(target.elts) \
                        and kind == 'assign':
                    self._bind(t, value.elts[i], stmt, kind)
                else:
                    self._bind(t, value, stmt, kind + '-unpack:%d' % i)
        elif isinstance(target, ast.Starred):
            self._bind(target.value, value, stmt, kind + '-star')

    def single(self, name):
        """The defining expression of a local assigned exactly once by a plain
        assignment, else None."""
        v = self.values.get(name, [])
        if len(v) == 1 and v[0][0] == 'assign' and name not in self.params:
            return v[0][1]
        return None

    def all_values(self, name):
        return [v for _, v, _ in self.values.get(name, []) if v is not None]

    def origin_attrs(self, name, depth=3):
        """Attribute names mentioned in any expression that (transitively)
        flows into local ``name``."""
        out, seen = set(), set()

        def go(nm, d):
            if nm in seen or d < 0:
                return
            seen.add(nm)
            for v in self.all_values(nm):
                for n in ast.walk(v):
                    if isinstance(n, ast.Attribute):
                        out.add(n.attr)
                    elif isinstance(n, ast.Constant) and isinstance(n.value, str):
                        out.add(n.value)
                    elif isinstance(n, ast.Name) and n.id != nm:
                        go(n.id, d - 1)
        go(name, depth)
        return out

    def resolve(self, expr, depth=4):
        """Substitute single-assignment locals by their definitions."""
        if depth <= 0:
            return expr
        if isinstance(expr, ast.Name):
            d = self.single(expr.id)
            if d is not None:
                return self.resolve(d, depth - 1)
        return expr


_cache = {}


def defs(funcnode):
    d = _cache.get(id(funcnode))
    if d is None or d.funcnode is not funcnode:
        d = _cache[id(funcnode)] = Defs(funcnode)
    return d


def names_in(expr):
    return {n.id for n in ast.walk(expr) if isinstance(n, ast.Name)}


def attrs_in(expr):
    return {n.attr for n in ast.walk(expr) if isinstance(n, ast.Attribute)}


def mentions(expr, name):
    return any(isinstance(n, ast.Name) and n.id == name for n in ast.walk(expr))


def text(node):
    return unparse(node)


def _loops_of(node):
    out = []
    child, par = node, getattr(node, '_parent', None)
    while par is not None:
        if isinstance(par, (ast.For, ast.AsyncFor)):
            out.append((par, 'iter' if child is par.iter else 'body'))
        elif isinstance(par, ast.While):
            out.append((par, 'body'))
        elif isinstance(par, (ast.FunctionDef, ast.AsyncFunctionDef, ast.Lambda)):
            break
        child, par = par, getattr(par, '_parent', None)
    return out


def _is_within(node, root):
    x = node
    while x is not None:
        if x is root:
            return True
        x = getattr(x, '_parent', None)
    return False


def _pos(node):
    """Position of a node in the (normalised) tree: its pre-order number when the model
    assigned one - source lines no longer say which statement comes first once arms were
    swapped or code was spliced in - else its line."""
    o = getattr(node, '_ord', None)
    return o if o is not None else node.lineno


def _ln(stmt):
    o = getattr(stmt, '_ord', None)
    if o is not None:
        return o
    ln = getattr(stmt, 'lineno', None)
    return ln if ln is not None else stmt.target.lineno


def _end(stmt):
    o = getattr(stmt, '_ord_end', None)
    if o is not None:
        return o
    ln = getattr(stmt, 'end_lineno', None)
    return ln if ln is not None else stmt.iter.end_lineno


def reaching(funcnode, name, at):
    """Bindings of local ``name`` that can reach the read at ``at``:
    ([(kind, value, stmt)], parameter_still_live).  A binding is considered
    only where it can reach the read; an unconditional (top-level) rebinding
    before the read kills the earlier ones; a later binding reaches only
    around a loop both are in the body of, unless that loop's own target
    rebinds the name at every iteration."""
    d = defs(funcnode)
    vals = d.values.get(name, [])
    if at is None or getattr(at, 'lineno', None) is None:
        return list(vals), True
    at_loops = _loops_of(at)
    killer = None
    for kind, v, stmt in vals:
        if getattr(stmt, '_parent', None) is funcnode and not kind.startswith('iter') and \
                _end(stmt) < _pos(at) and (killer is None or _ln(stmt) > _ln(killer)):
            killer = stmt
    out = []
    for kind, v, stmt in vals:
        if killer is not None and _ln(stmt) < _ln(killer):
            continue
        if isinstance(stmt, ast.comprehension):
            # a comprehension variable is bound for the whole comprehension (the element
            # expression is written before the `for` clause) and nowhere else
            owner = getattr(stmt, '_parent', None)
            inside = False
            x = at
            while x is not None:
                if x is owner:
                    inside = True
                    break
                x = getattr(x, '_parent', None)
            if inside and not (x is owner and _is_within(at, stmt.iter)):
                out.append((kind, v, stmt))
            continue
        if _ln(stmt) <= _pos(at):
            if kind.startswith('iter') and any(l is stmt and part == 'iter'
                                               for l, part in at_loops):
                continue
            # the statement that contains the read does not bind before it evaluates
            if _ln(stmt) <= _pos(at) <= _end(stmt) and any(x is at for x in ast.walk(stmt)) and \
                    not kind.startswith('iter'):
                continue
            out.append((kind, v, stmt))
            continue
        st_loops = {id(l) for l, part in _loops_of(stmt) if part == 'body'}
        if any(id(l) in st_loops and part == 'body' and not (
                isinstance(l, (ast.For, ast.AsyncFor)) and
                any(isinstance(t, ast.Name) and t.id == name for t in ast.walk(l.target)))
                for l, part in at_loops):
            out.append((kind, v, stmt))
    return out, killer is None
