"""Spec grammar and lexer tables read from the source (never from a running parser).

The language a stone spec is written in is defined by two tables that live in
*strings*: the BNF in the docstrings of ``ParserFactory.p_*`` and the token
regexes of ``Lexer`` (docstrings of ``t_*`` functions, ``t_X = r'..'`` strings,
``KEYWORDS`` / ``RESERVED`` / ``t_ignore`` / ``states``).  None of the ast
rules sees a change there.  This module extracts both tables with ``ast`` and
decides

* GR1  well-formedness of the grammar (every symbol defined, every
       nonterminal reachable and productive, every terminal a declared token);
* GR2  every ``p[k]`` of a production action exists in every alternative the
       path's ``len(p)`` tests admit (else IndexError at parse time);
* GR3  the token-level language against ``reference/grammar.json``: when the
       production sets differ (up to a renaming of nonterminals) a *witness
       sentence* is searched - a token string one grammar's LALR table accepts
       and the other's refuses; only a witness is a violation;
* GR4  the lexer tables against the reference: keyword table, ignored
       characters, and - through the master regular expression ply would build
       for each state - a *witness text* whose first token differs.

GR3/GR4 are exact in one direction: a report always carries a concrete
sentence / text on which the two versions of the language differ; if none is
found up to the stated bound the change is not claimed.
"""
import ast
import importlib.util
import itertools
import json
import os
import re

from .model import AnalysisError, own_nodes, unparse
from . import consteval

LANGS = {
    'spec': dict(parser='stone.frontend.parser.ParserFactory', lexer='stone.frontend.lexer.Lexer',
                 min_prods=100, min_rules=20, min_reads=150, what='spec'),
    'filter': dict(parser='stone.cli_helpers.FilterExprParser',
                   lexer='stone.cli_helpers.FilterExprLexer',
                   min_prods=8, min_rules=10, min_reads=10, what='route filter'),
}
PARSER = LANGS['spec']['parser']
LEXER = LANGS['spec']['lexer']
REF = os.path.join(os.path.dirname(os.path.dirname(os.path.abspath(__file__))),
                   'reference', 'grammar.json')


# ---------------------------------------------------------------------------
# extraction
# ---------------------------------------------------------------------------

def _doc(fnode):
    return ast.get_docstring(fnode, clean=False)


def parse_bnf(doc, where='?'):
    """ply's own reading of a p_ docstring: one rule per line, a line starting
    with ``|`` continues the previous left-hand side."""
    out = []
    lhs = None
    for line in doc.splitlines():
        p = line.split()
        if not p:
            continue
        if p[0] == '|':
            if lhs is None:
                raise AnalysisError('grammar: misplaced | in %s' % where)
            rhs = p[1:]
        else:
            if len(p) < 2 or p[1] not in (':', '::='):
                raise AnalysisError('grammar: cannot read rule %r in %s' % (line, where))
            lhs = p[0]
            rhs = p[2:]
        # alternatives may also be separated by | inside one line
        cur = []
        for s in rhs:
            if s == '|':
                out.append((lhs, tuple(cur)))
                cur = []
            else:
                cur.append(s)
        out.append((lhs, tuple(cur)))
    return out


def class_table(cls):
    """Fold the constant class-level tables of a class body in statement order
    (``tokens += (...)``, ``tokens += tuple(RESERVED.values())``)."""
    env = {}
    for st in cls.node.body:
        tgt = val = None
        aug = False
        if isinstance(st, ast.Assign) and len(st.targets) == 1 and \
                isinstance(st.targets[0], ast.Name):
            tgt, val = st.targets[0].id, st.value
        elif isinstance(st, ast.AnnAssign) and isinstance(st.target, ast.Name) and st.value:
            tgt, val = st.target.id, st.value
        elif isinstance(st, ast.AugAssign) and isinstance(st.target, ast.Name) and \
                isinstance(st.op, ast.Add):
            tgt, val, aug = st.target.id, st.value, True
        if tgt is None:
            continue
        v = _fold(val, env)
        if v is _NO:
            continue
        if aug:
            if tgt in env:
                try:
                    env[tgt] = env[tgt] + v
                except TypeError:
                    env.pop(tgt, None)
        else:
            env[tgt] = v
    return env


_NO = object()


def _fold(node, env):
    # tuple(X.values()) / list(X.keys()) / tuple(X) over a folded table
    if isinstance(node, ast.Call) and isinstance(node.func, ast.Name) and \
            node.func.id in ('tuple', 'list', 'sorted', 'set', 'frozenset') and \
            len(node.args) == 1 and not node.keywords:
        a = node.args[0]
        inner = _NO
        if isinstance(a, ast.Call) and isinstance(a.func, ast.Attribute) and not a.args and \
                a.func.attr in ('values', 'keys', 'items'):
            base = _fold(a.func.value, env)
            if isinstance(base, dict):
                inner = list(getattr(base, a.func.attr)())
        else:
            inner = _fold(a, env)
        if inner is _NO:
            return _NO
        try:
            return {'tuple': tuple, 'list': list, 'sorted': sorted, 'set': set,
                    'frozenset': frozenset}[node.func.id](inner)
        except TypeError:
            return _NO
    try:
        return consteval.fold(node, env)
    except (consteval.NotConstant, TypeError, ValueError, ZeroDivisionError, OverflowError):
        return _NO


def spec_grammar(pm, lang='spec'):
    cfg = LANGS[lang]
    cls = pm.cls(cfg['parser'])
    prods = []
    funcs = {}
    for name, f in cls.methods.items():
        if not name.startswith('p_') or name == 'p_error':
            continue
        doc = _doc(f.node)
        if not doc:
            continue
        alts = parse_bnf(doc, f.qualname)
        funcs[name] = (f, alts)
        for lhs, rhs in alts:
            prods.append((lhs, rhs, name))
    # ply orders productions by the line of their function
    prods.sort(key=lambda p: cls.methods[p[2]].node.lineno)
    tab = class_table(cls)
    start = tab.get('start')
    if not isinstance(start, str):
        raise AnalysisError('grammar: %s.start is not a constant string' % cls.name)
    ltab = class_table(pm.cls(cfg['lexer']))
    tokens = ltab.get('tokens')
    if not isinstance(tokens, tuple) or not all(isinstance(t, str) for t in tokens):
        raise AnalysisError('grammar: Lexer.tokens does not fold to a tuple of names')
    if len(prods) < cfg['min_prods']:
        raise AnalysisError('grammar: only %d productions found (anchor moved?)' % len(prods))
    prec = []
    for e in tab.get('precedence', ()) or ():
        if isinstance(e, tuple) and all(isinstance(x, str) for x in e):
            prec.append(list(e))
    return {'start': start, 'tokens': list(tokens), 'precedence': prec,
            'productions': [(l, list(r), n) for l, r, n in prods], 'funcs': funcs}


def lexer_table(pm, lang='spec'):
    """What ply's lex reads from the Lexer class: per state the ordered rule
    list (function rules in source order, then string rules by decreasing
    regex length), the ignored characters, plus the keyword tables."""
    cfg = LANGS[lang]
    cls = pm.cls(cfg['lexer'])
    tab = class_table(cls)
    states = {'INITIAL': 'inclusive'}
    for s in tab.get('states', ()) or ():
        if isinstance(s, tuple) and len(s) == 2:
            states[s[0]] = s[1]

    def split_name(n):
        parts = n.split('_')[1:]
        sts = []
        i = 0
        while i < len(parts) and (parts[i] in states or parts[i] == 'ANY'):
            sts.append(parts[i])
            i += 1
        tok = '_'.join(parts[i:])
        if 'ANY' in sts:
            sts = list(states)
        if not sts:
            sts = ['INITIAL']
        return sts, tok

    frules = {s: [] for s in states}
    srules = {s: [] for s in states}
    ignore = {s: '' for s in states}
    for name, f in cls.methods.items():
        if not name.startswith('t_'):
            continue
        sts, tok = split_name(name)
        if tok in ('error', 'eof'):
            continue
        doc = _doc(f.node)
        if doc is None:
            raise AnalysisError('lexer: rule %s has no regex docstring' % name)
        for s in sts:
            frules[s].append((f.node.lineno, tok, doc))
    for name, v in tab.items():
        if not name.startswith('t_') or not isinstance(v, str):
            continue
        sts, tok = split_name(name)
        if tok == 'ignore':
            for s in sts:
                ignore[s] = v
        elif tok not in ('error', 'eof'):
            for s in sts:
                srules[s].append((tok, v))
    rules = {}
    for s in states:
        fr = [(t, r, 'func') for _, t, r in sorted(frules[s])]
        sr = [(t, r, 'str') for t, r in sorted(srules[s], key=lambda x: len(x[1]), reverse=True)]
        rules[s] = fr + sr
    # inclusive states add the INITIAL rules after their own (ply.lex)
    for s, kind in states.items():
        if s != 'INITIAL' and kind == 'inclusive':
            rules[s] = rules[s] + rules['INITIAL']
            if not ignore[s]:
                ignore[s] = ignore['INITIAL']
    kw = tab.get('KEYWORDS')
    rs = tab.get('RESERVED', {})
    if isinstance(kw, dict):          # word -> token type
        rs = dict(kw)
        kw = list(kw)
    if not isinstance(kw, list) or not isinstance(rs, dict):
        raise AnalysisError('lexer: KEYWORDS / RESERVED do not fold to constant tables')
    if sum(len(v) for v in rules.values()) < cfg['min_rules']:
        raise AnalysisError('lexer: only %d token rules found' % sum(len(v) for v in rules.values()))
    return {'states': states, 'rules': {s: [list(r) for r in v] for s, v in rules.items()},
            'ignore': ignore, 'keywords': list(kw), 'reserved': dict(rs)}


def build_reference(pm):
    out = {'note': 'token-level grammars (spec language, route filter expressions) and lexer '
                   'tables at /repo HEAD, extracted by stonelint/grammar.py; the reference of '
                   'rules GR3/GR4'}
    for lang in LANGS:
        g = spec_grammar(pm, lang)
        out[lang] = {'grammar': {'start': g['start'], 'tokens': g['tokens'],
                                 'precedence': g['precedence'],
                                 'productions': [[l, r] for l, r, _ in g['productions']]},
                     'lexer': lexer_table(pm, lang)}
    return out


def load_reference():
    with open(REF, encoding='utf-8') as f:
        return json.load(f)


# ---------------------------------------------------------------------------
# GR1 well-formedness
# ---------------------------------------------------------------------------

def wellformed(g):
    """-> list of (kind, symbol) problems."""
    prods = g['productions']
    nts = {p[0] for p in prods}
    toks = set(g['tokens'])
    out = []
    for lhs, rhs, fn in prods:
        for s in rhs:
            if s not in nts and s not in toks:
                out.append(('undefined', s, fn))
    # productive
    productive = set()
    changed = True
    while changed:
        changed = False
        for lhs, rhs, fn in prods:
            if lhs not in productive and all(s in productive or s in toks for s in rhs):
                productive.add(lhs)
                changed = True
    for n in sorted(nts - productive):
        out.append(('unproductive', n, next(p[2] for p in prods if p[0] == n)))
    # reachable
    reach = {g['start']}
    work = [g['start']]
    while work:
        a = work.pop()
        for lhs, rhs, fn in prods:
            if lhs == a:
                for s in rhs:
                    if s in nts and s not in reach:
                        reach.add(s)
                        work.append(s)
    for n in sorted(nts - reach):
        out.append(('unreachable', n, next(p[2] for p in prods if p[0] == n)))
    if g['start'] not in nts:
        out.append(('undefined', g['start'], 'start'))
    return out


# ---------------------------------------------------------------------------
# GR2 action index bounds
# ---------------------------------------------------------------------------

def _len_p_test(test, pname):
    """-> (op, n) when ``test`` is ``len(p) <op> n`` (either operand order)."""
    if not isinstance(test, ast.Compare) or len(test.ops) != 1:
        return None
    l, r = test.left, test.comparators[0]
    op = type(test.ops[0])

    def is_len(e):
        return isinstance(e, ast.Call) and isinstance(e.func, ast.Name) and e.func.id == 'len' \
            and len(e.args) == 1 and isinstance(e.args[0], ast.Name) and e.args[0].id == pname

    flip = {ast.Lt: ast.Gt, ast.Gt: ast.Lt, ast.LtE: ast.GtE, ast.GtE: ast.LtE,
            ast.Eq: ast.Eq, ast.NotEq: ast.NotEq}
    if is_len(l) and isinstance(r, ast.Constant) and isinstance(r.value, int):
        return op, r.value
    if is_len(r) and isinstance(l, ast.Constant) and isinstance(l.value, int) and op in flip:
        return flip[op], l.value
    return None


def _holds(op, n, length):
    return {ast.Lt: length < n, ast.Gt: length > n, ast.LtE: length <= n, ast.GtE: length >= n,
            ast.Eq: length == n, ast.NotEq: length != n}.get(op)


def _p_index(e, pname):
    if isinstance(e, ast.Subscript) and isinstance(e.value, ast.Name) and e.value.id == pname \
            and isinstance(e.slice, ast.Constant) and isinstance(e.slice.value, int):
        return e.slice.value
    return None


def _fixed_text(lexer, tok):
    """The only text a token can carry when its regex is a plain literal."""
    vals = set()
    for rules in lexer['rules'].values():
        for t, rx, kind in rules:
            if t == tok:
                m = re.fullmatch(r'(?:\\.|[^\\.^$*+?{}\[\]|()])+', rx)
                if not m:
                    return None
                vals.add(re.sub(r'\\(.)', r'\1', rx))
    return vals.pop() if len(vals) == 1 else None


def _narrow(alts, atom, pol, pname, none_nts, lexer):
    """Alternatives (rhs tuples) that survive one path atom."""
    lt = _len_p_test(atom, pname)
    if lt is not None:
        return [a for a in alts if _holds(lt[0], lt[1], len(a) + 1) == pol]
    # truth value / `is not None` of p[j]: the empty nonterminal yields None
    j = _p_index(atom, pname)
    if j is not None and j > 0:
        if pol:
            return [a for a in alts if len(a) >= j and a[j - 1] not in none_nts]
        return alts
    if isinstance(atom, ast.Compare) and len(atom.ops) == 1:
        j = _p_index(atom.left, pname)
        c = atom.comparators[0]
        op = atom.ops[0]
        if j is not None and j > 0 and isinstance(c, ast.Constant):
            if c.value is None and isinstance(op, (ast.Is, ast.IsNot, ast.Eq, ast.NotEq)):
                notnone = isinstance(op, (ast.IsNot, ast.NotEq)) == pol
                if notnone:
                    return [a for a in alts if len(a) >= j and a[j - 1] not in none_nts]
                return alts
            if isinstance(c.value, str) and isinstance(op, (ast.Eq, ast.NotEq)):
                eq = isinstance(op, ast.Eq) == pol
                out = []
                for a in alts:
                    if len(a) < j:
                        out.append(a)
                        continue
                    ft = _fixed_text(lexer, a[j - 1]) if lexer else None
                    if a[j - 1] in none_nts:
                        if not eq:
                            out.append(a)
                    elif ft is None or (ft == c.value) == eq:
                        out.append(a)
                return out
    return alts


def index_bounds(pm, pathinfo, lang='spec'):
    """For every ``p[k]`` (constant k) in a production action: every
    alternative of the function that survives the tests on the path (``len(p)``
    comparisons, truth value / ``is not None`` of a slot that an alternative
    fills with the ``empty`` nonterminal, comparison of a slot with the fixed
    text of a punctuation token; single-assignment flag locals substituted)
    must have more than k slots.  -> [(func, node, k, admitted, bad, store)]"""
    g = spec_grammar(pm, lang)
    try:
        lexer = lexer_table(pm, lang)
    except AnalysisError:
        lexer = None
    # nonterminals that can only produce None: all alternatives empty and the
    # action never assigns p[0]
    none_nts = set()
    for name, (f, alts) in g['funcs'].items():
        if all(len(rhs) == 0 for _, rhs in alts):
            params = [a.arg for a in f.node.args.args]
            assigns = [n for n in own_nodes(f.node) if isinstance(n, ast.Subscript) and
                       isinstance(n.ctx, ast.Store) and isinstance(n.value, ast.Name) and
                       len(params) > 1 and n.value.id == params[1]]
            if not assigns:
                none_nts.update(l for l, _ in alts)
    for lhs in list(none_nts):
        if any(l == lhs and len(r) for l, r, _ in g['productions']):
            none_nts.discard(lhs)
    out = []
    for name, (f, alts) in g['funcs'].items():
        params = [a.arg for a in f.node.args.args]
        if len(params) < 2:
            continue
        pname = params[1]
        all_alts = [tuple(rhs) for _, rhs in alts]
        single = {}
        counts = {}
        for n in own_nodes(f.node):
            if isinstance(n, ast.Assign) and len(n.targets) == 1 and \
                    isinstance(n.targets[0], ast.Name):
                counts[n.targets[0].id] = counts.get(n.targets[0].id, 0) + 1
                single[n.targets[0].id] = n.value
            elif isinstance(n, (ast.AugAssign, ast.For, ast.With, ast.NamedExpr)):
                for t in ast.walk(n.target if hasattr(n, 'target') else n):
                    if isinstance(t, ast.Name) and isinstance(t.ctx, ast.Store):
                        counts[t.id] = counts.get(t.id, 0) + 2
        single = {k: v for k, v in single.items() if counts.get(k) == 1}
        pi = None
        for n in own_nodes(f.node):
            k = _p_index(n, pname)
            if k is None or k < 0:
                continue
            if pi is None:
                pi = pathinfo(f)
            admitted = list(all_alts)
            for test, pol in pi.at(n):
                if isinstance(test, ast.Name) and test.id in single:
                    test = single[test.id]
                for t, tp in _conj_atoms(test, pol):
                    admitted = _narrow(admitted, t, tp, pname, none_nts, lexer)
            bad = [a for a in admitted if k >= len(a) + 1]
            out.append((f, n, k, sorted({len(a) + 1 for a in admitted}),
                        sorted({len(a) + 1 for a in bad}), isinstance(n.ctx, ast.Store)))
    return out


def _conj_atoms(test, pol):
    """Atoms that certainly hold: of ``a and b`` taken true both, of ``a or b``
    taken false both (negated)."""
    if isinstance(test, ast.UnaryOp) and isinstance(test.op, ast.Not):
        return _conj_atoms(test.operand, not pol)
    if isinstance(test, ast.BoolOp):
        if (isinstance(test.op, ast.And) and pol) or (isinstance(test.op, ast.Or) and not pol):
            out = []
            for v in test.values:
                out.extend(_conj_atoms(v, pol))
            return out
        return []
    return [(test, pol)]


# ---------------------------------------------------------------------------
# GR3 language drift with witness
# ---------------------------------------------------------------------------

def canonical(prods, start, rounds=12):
    """Production set up to a renaming of nonterminals (colour refinement)."""
    nts = sorted({p[0] for p in prods})
    colour = {n: ('S' if n == start else 'N') for n in nts}
    for _ in range(rounds):
        new = {}
        for n in nts:
            sig = sorted(tuple(colour.get(s, 'T:' + s) if s in colour else 'T:' + s for s in rhs)
                         for lhs, rhs in prods if lhs == n)
            new[n] = (colour[n], tuple(sig))
        # compress
        ids = {c: i for i, c in enumerate(sorted(set(new.values()), key=repr))}
        nxt = {n: '%s%d' % ('S' if n == start else 'N', ids[new[n]]) for n in nts}
        if len(set(nxt.values())) == len(set(colour.values())) and _ > 0:
            colour = nxt
            break
        colour = nxt
    return sorted((colour[lhs], tuple(colour.get(s, s) for s in rhs)) for lhs, rhs in prods)


def min_lengths(prods, toks):
    ml = {}
    changed = True
    while changed:
        changed = False
        for lhs, rhs in prods:
            if all(s in ml or s in toks for s in rhs):
                L = sum(ml.get(s, 1) for s in rhs)
                if lhs not in ml or L < ml[lhs]:
                    ml[lhs] = L
                    changed = True
    return ml


def min_sentence(prods, toks, ml, sym, _memo=None):
    """A shortest terminal string derivable from ``sym``."""
    if sym in toks:
        return (sym,)
    memo = _memo if _memo is not None else {}
    if sym in memo:
        return memo[sym]
    best = None
    for lhs, rhs in prods:
        if lhs == sym and all(s in ml or s in toks for s in rhs):
            if sum(ml.get(s, 1) for s in rhs) == ml[sym]:
                best = rhs
                break
    memo[sym] = None
    out = ()
    for s in best:
        out += min_sentence(prods, toks, ml, s, memo)
    memo[sym] = out
    return out


def contexts(prods, toks, start, ml):
    """For every nonterminal a shortest (u, v) with start =>* u A v."""
    ctx = {start: ((), ())}
    memo = {}
    changed = True
    while changed:
        changed = False
        for lhs, rhs in prods:
            if lhs not in ctx:
                continue
            u0, v0 = ctx[lhs]
            for i, s in enumerate(rhs):
                if s in toks or s not in ml:
                    continue
                if not all(x in ml or x in toks for x in rhs):
                    continue
                u = u0
                for x in rhs[:i]:
                    u += min_sentence(prods, toks, ml, x, memo)
                v = ()
                for x in rhs[i + 1:]:
                    v += min_sentence(prods, toks, ml, x, memo)
                v += v0
                if s not in ctx or len(u) + len(v) < len(ctx[s][0]) + len(ctx[s][1]):
                    ctx[s] = (u, v)
                    changed = True
    return ctx


def bounded_language(prods, toks, bound):
    """lang[A] = terminal strings of length <= bound[A] derivable from A."""
    nts = {p[0] for p in prods}
    lang = {a: set() for a in nts}
    by = {}
    for lhs, rhs in prods:
        by.setdefault(lhs, []).append(rhs)
    changed = True
    guard = 0
    while changed:
        changed = False
        guard += 1
        if guard > 200:
            break
        for a in nts:
            L = bound.get(a, 0)
            if L <= 0:
                continue
            for rhs in by[a]:
                cur = {()}
                for s in rhs:
                    if s in nts:
                        ws = lang[s]
                        cur = {pre + w for pre in cur for w in ws if len(pre) + len(w) <= L}
                    else:
                        cur = {pre + (s,) for pre in cur if len(pre) < L}
                    if not cur:
                        break
                    if len(cur) > 200000:
                        cur = set(itertools.islice(cur, 200000))
                new = cur - lang[a]
                if new:
                    lang[a] |= new
                    changed = True
    return lang


_YACC = {}


def load_yacc(repo):
    """The vendored ply table generator, loaded by file path (stone itself is
    not imported).  Used only as a grammar analyser on extracted productions."""
    path = os.path.join(repo, 'stone', '_vendor', 'ply', 'yacc.py')
    if path not in _YACC:
        spec = importlib.util.spec_from_file_location('_stonelint_ply_yacc', path)
        mod = importlib.util.module_from_spec(spec)
        spec.loader.exec_module(mod)
        _YACC[path] = mod
    return _YACC[path]


class LRTable:
    def __init__(self, yacc, prods, toks, start, precedence=()):
        g = yacc.Grammar(list(toks))
        for i, e in enumerate(precedence or ()):
            for t in e[1:]:
                g.set_precedence(t, e[0], i + 1)
        for i, (lhs, rhs) in enumerate(prods):
            g.add_production(lhs, list(rhs), 'p_%d' % i, 'grammar', i)
        g.set_start(start)
        g.compute_first()
        g.compute_follow()
        self.lr = yacc.LRGeneratedTable(g, 'LALR')
        self.g = g
        self.sr = list(self.lr.sr_conflicts)
        self.rr = list(self.lr.rr_conflicts)

    def accepts(self, sentence):
        """Plain LR recognition of a token-type string (no error recovery)."""
        action, goto, prods = self.lr.lr_action, self.lr.lr_goto, self.g.Productions
        stack = [0]
        toks = list(sentence) + ['$end']
        i = 0
        steps = 0
        while True:
            steps += 1
            if steps > 100000:
                return False
            st = stack[-1]
            t = action[st].get(toks[i])
            if t is None:
                return False
            if t > 0:
                stack.append(t)
                i += 1
            elif t < 0:
                p = prods[-t]
                if p.len:
                    del stack[-p.len:]
                stack.append(goto[stack[-1]][p.name])
            else:
                return True

    def conflict_keys(self):
        """Conflicts named by what they are about, not by state number."""
        out = set()
        for st, tok, res in self.sr:
            out.add(('sr', tok, res))
        for st, rule, rejected in self.rr:
            out.add(('rr', str(rule), str(rejected)))
        return out


def language_witness(cur, ref, repo, bound_total=14, max_probe=4000):
    """cur/ref: {'start','tokens','productions':[(lhs, rhs)...]}.
    -> (witness dict | None, stats).  A witness is a token string on which the
    LALR tables of the two grammars disagree."""
    stats = {}
    cp = [(l, tuple(r)) for l, r in cur['productions']]
    rp = [(l, tuple(r)) for l, r in ref['productions']]
    pc = [list(e) for e in cur.get('precedence') or ()]
    pr = [list(e) for e in ref.get('precedence') or ()]
    if canonical(cp, cur['start']) == canonical(rp, ref['start']) and \
            set(cur['tokens']) == set(ref['tokens']) and pc == pr:
        return None, {'same_up_to_renaming': True}
    yacc = load_yacc(repo)
    try:
        tcur = LRTable(yacc, cp, cur['tokens'], cur['start'], pc)
    except Exception as e:      # a grammar ply refuses is itself the finding
        return {'sentence': None, 'why': 'ply refuses the current grammar: %s' % e}, stats
    tref = LRTable(yacc, rp, ref['tokens'], ref['start'], pr)
    stats['lalr_states'] = (len(tcur.lr.lr_action), len(tref.lr.lr_action))
    toks_c, toks_r = set(cur['tokens']), set(ref['tokens'])
    mlc, mlr = min_lengths(cp, toks_c), min_lengths(rp, toks_r)
    cxc = contexts(cp, toks_c, cur['start'], mlc)
    cxr = contexts(rp, toks_r, ref['start'], mlr)
    ntc, ntr = {p[0] for p in cp}, {p[0] for p in rp}

    def bounds(cx, nts):
        return {a: max(0, min(9, bound_total - len(cx[a][0]) - len(cx[a][1])))
                if a in cx else 0 for a in nts}
    # per-nonterminal budget: generous where the context is long, the point is a local diff
    bc = {a: (8 if a in cxc else 0) for a in ntc}
    br = {a: (8 if a in cxr else 0) for a in ntr}
    lc = bounded_language(cp, toks_c, bc)
    lr_ = bounded_language(rp, toks_r, br)
    stats['bounded_strings'] = (sum(len(v) for v in lc.values()), sum(len(v) for v in lr_.values()))
    probes = []
    # nonterminals whose own alternatives changed first
    def own(prods, a):
        return sorted(r for l, r in prods if l == a)
    common = sorted(ntc & ntr, key=lambda a: (own(cp, a) == own(rp, a), a))
    for a in common:
        only_c = sorted(lc[a] - lr_[a], key=lambda w: (len(w), w))[:40]
        only_r = sorted(lr_[a] - lc[a], key=lambda w: (len(w), w))[:40]
        for w in only_c:
            if a in cxc:
                probes.append((cxc[a][0] + w + cxc[a][1], a, 'current'))
            if a in cxr:
                probes.append((cxr[a][0] + w + cxr[a][1], a, 'current'))
        for w in only_r:
            if a in cxr:
                probes.append((cxr[a][0] + w + cxr[a][1], a, 'reference'))
            if a in cxc:
                probes.append((cxc[a][0] + w + cxc[a][1], a, 'reference'))
    # nonterminals present on one side only: their shortest sentences in context
    for a in sorted(ntc - ntr):
        if a in cxc:
            for w in sorted(lc[a], key=lambda w: (len(w), w))[:20]:
                probes.append((cxc[a][0] + w + cxc[a][1], a, 'current'))
    for a in sorted(ntr - ntc):
        if a in cxr:
            for w in sorted(lr_[a], key=lambda w: (len(w), w))[:20]:
                probes.append((cxr[a][0] + w + cxr[a][1], a, 'reference'))
    # whole sentences of the start symbol, shortest first (needed when only the
    # precedence table or a conflict resolution changed: every nonterminal then
    # has the same context-free language)
    import time as _time
    t0 = _time.time()
    for which, prods_, toks_, cx_, start_ in (('current', cp, toks_c, cxc, cur['start']),
                                              ('reference', rp, toks_r, cxr, ref['start'])):
        best = set()
        for L in range(5, 14):
            bnd = {a: max(0, L - len(cx_[a][0]) - len(cx_[a][1])) for a in cx_}
            lang = bounded_language(prods_, toks_, bnd)
            best = lang.get(start_, set())
            if sum(len(v) for v in lang.values()) > 120000 or _time.time() - t0 > 10:
                break
        stats.setdefault('start_sentences', []).append(len(best))
        for w in sorted(best, key=lambda w: (-len(w), w))[:6000]:
            probes.append((w, start_, which))
    seen = set()
    n = 0
    max_probe += 12000
    for sent, a, side in probes:
        if sent in seen:
            continue
        seen.add(sent)
        n += 1
        if n > max_probe:
            break
        ac, ar = tcur.accepts(sent), tref.accepts(sent)
        if ac != ar:
            stats['probes'] = n
            return {'sentence': ' '.join(sent), 'nonterminal': a,
                    'accepted_now': ac, 'accepted_before': ar}, stats
    stats['probes'] = n
    new_conf = tcur.conflict_keys() - tref.conflict_keys()
    stats['new_conflicts'] = sorted(map(str, new_conf))[:10]
    return None, stats


# ---------------------------------------------------------------------------
# GR4 lexer drift with witness
# ---------------------------------------------------------------------------

def master(rules):
    """The master regex ply builds for one state (first alternative wins)."""
    parts = []
    names = []
    for i, (tok, rx, kind) in enumerate(rules):
        parts.append('(?P<r%d>%s)' % (i, rx))
        names.append(tok)
    return re.compile('|'.join(parts), re.VERBOSE), names


def first_token(m, names, ignore, text):
    """(token name, matched text) of the first token ply would produce, or
    ('<illegal>', char) / ('<eof>', '')."""
    i = 0
    while i < len(text) and text[i] in ignore:
        i += 1
    if i >= len(text):
        return ('<eof>', '')
    mo = m.match(text, i)
    if not mo or mo.end() == i:
        return ('<illegal>', text[i])
    return (names[int(mo.lastgroup[1:])], mo.group())


def _alphabet(tables):
    chars = set('aZ_-09 \t\n"\\#/.,=()[]{}:?@e+\r\u00e9x')
    for t in tables:
        for rules in t['rules'].values():
            for tok, rx, kind in rules:
                for c in rx:
                    if not c.isalnum() and c not in '\\':
                        chars.add(c)
    return sorted(chars)


def lexer_witness(cur, ref, maxlen=3):
    """-> (witness | None, stats) comparing the two lexer tables."""
    stats = {}
    # 1 keyword tables: word -> token type, as t_ANY_ID maps it
    def kwmap(t):
        return {w: t['reserved'].get(w, 'KEYWORD') for w in t['keywords']}
    kc, kr = kwmap(cur), kwmap(ref)
    for w in sorted(set(kc) | set(kr) | set(cur['reserved']) | set(ref['reserved'])):
        if kc.get(w, 'ID') != kr.get(w, 'ID'):
            return {'text': w, 'state': 'ANY', 'now': kc.get(w, 'ID'),
                    'before': kr.get(w, 'ID'), 'table': 'KEYWORDS/RESERVED'}, stats
    if cur['states'] != ref['states']:
        return {'text': '', 'state': str(cur['states']), 'now': str(cur['states']),
                'before': str(ref['states']), 'table': 'states'}, stats
    for s in ref['states']:
        ic, ir = set(cur['ignore'].get(s, '')), set(ref['ignore'].get(s, ''))
        if ic != ir:
            c = sorted(ic ^ ir)[0]
            return {'text': c, 'state': s, 'now': 'ignored' if c in ic else 'token/illegal',
                    'before': 'ignored' if c in ir else 'token/illegal',
                    'table': 't_ignore'}, stats
    n = 0
    for s in ref['states']:
        rc, rr = cur['rules'].get(s, []), ref['rules'].get(s, [])
        if [tuple(x) for x in rc] == [tuple(x) for x in rr]:
            continue
        try:
            mc, nc = master(rc)
        except re.error as e:
            return {'text': '', 'state': s, 'now': 're.error: %s' % e, 'before': 'compiles',
                    'table': 'token regex'}, stats
        mr, nr = master(rr)
        alpha = _alphabet([cur, ref])
        words = ['true', 'false', 'null', 'truex', 'nullx', 'a-b', 'a1', '1a', '-1', '1.', '1.5',
                 '1e5', '1e-5', '1.e5', '.5', '-1.5e-3', '1e', '--1', '/a/b', '/', '/a-b_c', '//',
                 '"a"', '"a\\"b"', '"a\\\\"', '"a\nb"', '"', '""', '"\\', '# c\n', '#\n\n',
                 '# c', '\n\n', '\n', ' \n', 'a.b', 'A_b-9', '_x', '-x', '9x', '\u00e9',
                 'union_closed', 'annotation_type', '1_0', '0x1', '+1', '1E5', '"\t"', "'a'"]
        words += list(cur['keywords']) + [w + 'x' for w in cur['keywords'][:3]]
        probes = list(words)
        for L in range(1, maxlen + 1):
            for tup in itertools.product(alpha, repeat=L):
                probes.append(''.join(tup))
        ign_c, ign_r = cur['ignore'].get(s, ''), ref['ignore'].get(s, '')
        for text in probes:
            n += 1
            a = first_token(mc, nc, ign_c, text)
            b = first_token(mr, nr, ign_r, text)
            if a != b:
                stats['probes'] = n
                return {'text': text, 'state': s, 'now': '%s %r' % a, 'before': '%s %r' % b,
                        'table': 'token regex'}, stats
    stats['probes'] = n
    return None, stats


# ---------------------------------------------------------------------------
# the rule
# ---------------------------------------------------------------------------

def run(pm, ctx, rule, which=('GR1', 'GR2', 'GR3', 'GR4'), lang='spec'):
    """Run the grammar/lexer table rules of one language under rule id ``rule``."""
    from .pathcond import PathInfo
    cfg = LANGS[lang]
    what = cfg['what']
    ctx.rule(rule, '%s grammar and lexer tables (strings the ast rules do not see): '
                   'well-formed grammar, p[k] within every admitted alternative, token-level '
                   'language and lexer tables unchanged against reference/grammar.json '
                   '(a report carries a witness sentence / text)' % what)
    g = spec_grammar(pm, lang)
    cls = pm.cls(cfg['parser'])
    where = cls.module.relpath
    if 'GR1' in which:
        probs = wellformed(g)
        by = {}
        for kind, sym, fn in probs:
            by.setdefault((kind, sym), fn)
        for (kind, sym), fn in sorted(by.items()):
            f = cls.methods.get(fn)
            ctx.violation(rule, '%s|%s-grammar|%s|%s' % (rule, lang, kind, sym),
                          f.loc if f else where,
                          '%s grammar symbol %s is %s (%s): constructs that need it can no longer '
                          'be parsed' % (what, sym, kind, fn))
        nts = {p[0] for p in g['productions']}
        ctx.ok(rule, '%s grammar well-formed: %d productions, %d nonterminals, %d tokens; every '
                     'symbol defined, reachable from %s and productive' % (
                         what, len(g['productions']), len(nts), len(g['tokens']), g['start']),
               where)
    if 'GR2' in which:
        n = 0
        for f, node, k, admitted, bad, store in index_bounds(pm, lambda f: PathInfo(f.node), lang):
            n += 1
            if k == 0:
                ctx.ok(rule, '%s: p[0] (result slot)' % f.short, '%s:%d' % (
                    f.module.relpath, node.lineno), nontrivial=False)
                continue
            ctx.check(rule, not bad,
                      '%s: p[%d] exists in every admitted alternative (lengths %s)' % (
                          f.short, k, admitted),
                      '%s:%d' % (f.module.relpath, node.lineno),
                      msg='%s reads p[%d] on a path that admits an alternative with only %s '
                          'symbols: IndexError while parsing' % (
                              f.short, k, [b - 1 for b in bad]),
                      key='%s|%s|p[%d]|index' % (rule, f.qualname, k))
        ctx.floor(rule, n, cfg['min_reads'], 'p[k] reads in production actions')
    ref = None
    if 'GR3' in which or 'GR4' in which:
        ref = load_reference()[lang]
    if 'GR3' in which:
        cur = {'start': g['start'], 'tokens': g['tokens'], 'precedence': g['precedence'],
               'productions': [(l, r) for l, r, _ in g['productions']]}
        w, stats = language_witness(cur, ref['grammar'], pm.repo)
        ctx.extra['%s_grammar_drift' % lang] = stats
        if w is None:
            detail = 'identical up to nonterminal names' if stats.get('same_up_to_renaming') \
                else 'production sets differ; no witness among %s probes (not claimed)' % \
                stats.get('probes')
            ctx.ok(rule, 'token-level language of the %s grammar against the reference: ' % what
                   + detail, where)
        elif w.get('sentence') is None:
            ctx.violation(rule, '%s|%s-grammar|language|refused' % (rule, lang), where, w['why'])
        else:
            ctx.violation(
                rule, '%s|%s-grammar|language|%s' % (rule, lang, w['nonterminal']), where,
                'the %s grammar changed its language: the token string `%s` is %s by the LALR '
                'table of the current grammar and %s by the confirmed one (difference found in '
                'nonterminal %s)' % (what, w['sentence'],
                                     'accepted' if w['accepted_now'] else 'refused',
                                     'accepted' if w['accepted_before'] else 'refused',
                                     w['nonterminal']))
    if 'GR4' in which:
        lt = lexer_table(pm, lang)
        w, stats = lexer_witness(lt, ref['lexer'])
        ctx.extra['%s_lexer_drift' % lang] = stats
        lwhere = pm.cls(cfg['lexer']).module.relpath
        if w is None:
            ctx.ok(rule, '%s lexer tables against the reference: %d states, %d rules, keyword '
                         'table, ignored characters - no witness text on which the first token '
                         'differs' % (what, len(lt['states']),
                                      sum(len(v) for v in lt['rules'].values())), lwhere)
        else:
            ctx.violation(
                rule, '%s|%s-lexer|%s|%s' % (rule, lang, w['table'], w['state']), lwhere,
                'the %s lexer changed (%s, state %s): on the text %r the first token is now %s, '
                'it was %s' % (what, w['table'], w['state'], w['text'], w['now'], w['before']))
