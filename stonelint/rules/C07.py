"""C07 -- backwards-compatible spec changes keep peers interoperable.

Structural part decided (DESIGN 4/C07): every rejection of *unknown material*
in the new-style decoder happens only under ``strict``; every lenient fallback
only under ``not strict`` (and, for tags/subtypes, only with a catch-all);
strict decoding does reject each kind of unknown material; the struct-field
loop walks the known field table, never the input's keys; absent fields read
back as their defaults.  The behaviour across two compiled specs is NOT
decided.
"""
import ast

from ..dataflow import defs
from ..model import dotted, own_nodes, unparse
from ..pathcond import conds_truth, path_info

PROP = 'C07'
SER = 'stone.backends.python_rsrc.stone_serializers'
DEC = SER + '.PythonPrimitiveToStoneDecoder'
BASE = 'stone.backends.python_rsrc.stone_base'

EXPLANATION = (
    'Path-condition lint over the new-style JSON decoder '
    '(PythonPrimitiveToStoneDecoder.decode_struct, decode_struct_fields, decode_union, '
    'decode_union_dict, determine_struct_tree_subtype) and bb.Attribute.__get__. Every raise '
    'and every fallback statement is classified by the atoms on its structured path '
    '(unknown field / unknown tag / unknown subtype / payload beside a Void tag; self.strict; '
    'catch-all available) and the boolean function "this statement is reached" is evaluated '
    'over all assignments of {strict, catch_all}. Rules: R1 no rejection of unknown material '
    'is reachable when not strict (and catch-all exists, for tags and subtypes); R2 lenient '
    'fallbacks are reachable only when not strict and substitute exactly the catch-all; '
    'R3 decode_struct_fields iterates the known field table and reads the input only by known '
    'name; R4 Attribute.__get__ yields None/default for an unset slot; R5 under strict each '
    'kind of unknown material reaches a ValidationError. Decides the structural part named in '
    'DESIGN 4/C07, not the two-spec behaviour.'
    ' R7: introducing or inlining an alias is compatible only if an aliased reference keeps its Nullable wrap and bounds: generate_validator_constructor wraps Nullable on every return path (shared with C08-R3).'
    ' R8 (imported from C02-R6): lenient decoding of an unknown tag needs the catch-all the frontend adds to every open union.'
    ' RD (effect-condition drift, stonelint.effects): for the functions this property is anchored in (stonelint.ownership) the path formula of every raise / return / continue / break / assignment / call statement is compared with reference/effects.json by truth table over the leaf tests (so nested vs merged tests, guard clauses vs if/else ladders, De Morgan forms read alike); an effect lost on a path, or a control effect gained on one, is a violation; changed texts and re-spelled tests are not claimed.'
    " RE (expression drift, stonelint.exprdrift): the same functions' attribute names, variable reads, simple statements, calls and arithmetic/slice literals are compared with reference/expressions.json; a substituted attribute or variable, a dropped call or assignment, swapped arguments or a changed literal is a violation; any other edit is not claimed. RC (call-condition drift, stonelint.effects.run_calls): for every call of a repository or imported-library function in those functions, the path conditions of its occurrences are compared with reference/effects.json by truth table; an assignment under which the function used to make the call and now completes without it is a violation (tests on memo tables, emptiness of the iterated collection and earlier refusals excepted; re-spelled conditions are not claimed). MK (memo-key rule, stonelint.memo): a memo table or done-set the reference tree does not have must be keyed by every access path the skipped code reads, injectively and type-aware."
    ' RI (interface drift, stonelint.interface): constants and tables (folded values), compiled regular expressions (witness text), parameter defaults, special methods, base classes and caching decorators of the modules the property rests on are compared with reference/interface.json; only a concrete difference in what is computed is reported.'
    ' MU (mutation drift, stonelint.mutation): the functions the property rests on update in place only the caller-owned, class-level and module-level objects they updated on the confirmed tree, and have no new handler that swallows an exception (reference/mutations.json).')
ASSUMPTIONS = [
    'CPython ast of the current working tree is the program',
    'structured control flow only (no exceptions used for control inside the analysed functions '
    'other than the try/except recognised by the walker)',
    'old_style decoding (decode_union_old) is outside the property and not analysed',
    'atoms are recognised semantically: strict = attribute .strict of self; catch-all = attribute '
    '_catch_all / _is_catch_all_; tag known = call of _is_tag_present; field known = membership in '
    'a local that flows from _all_field_names_; subtype known = membership in _tag_to_subtype_',
]


def _atom_key_factory(fnode):
    d = defs(fnode)

    def key(e):
        # self.strict
        if isinstance(e, ast.Attribute) and e.attr == 'strict':
            return 'strict'
        if isinstance(e, ast.Attribute) and e.attr in ('_catch_all', '_is_catch_all_'):
            return 'ca'
        if isinstance(e, ast.Call) and isinstance(e.func, ast.Attribute) and \
                e.func.attr == '_is_tag_present':
            return 'tag_known'
        if isinstance(e, ast.Call) and isinstance(e.func, ast.Name) and \
                e.func.id == 'isinstance' and len(e.args) == 2:
            c = e.args[1]
            names = [dotted(x) for x in (c.elts if isinstance(c, ast.Tuple) else [c])]
            if names == ['bv.Void']:
                return 'void_member'
        if isinstance(e, ast.Compare) and len(e.ops) == 1:
            right = e.comparators[0]
            origin = set()
            if isinstance(right, ast.Name):
                origin = d.origin_attrs(right.id) | {right.id}
            elif isinstance(right, ast.Attribute):
                origin = {right.attr}
            k = None
            if '_all_field_names_' in origin:
                k = 'field_known'
            elif '_tag_to_subtype_' in origin:
                k = 'subtype_known'
            if k:
                if isinstance(e.ops[0], ast.In):
                    return k
                if isinstance(e.ops[0], ast.NotIn):
                    return ('not', k)
        return ('other', unparse(e))
    return key


KEYS = ['strict', 'ca', 'tag_known', 'field_known', 'subtype_known', 'void_member']


def _reach(atoms, key, **fixed):
    """Is the conjunction of path atoms satisfiable with the given keys fixed?
    Unfixed keys are existentially quantified; unknown atoms are true."""
    table = conds_truth(atoms, key, KEYS)
    for assign, val in table.items():
        env = dict(zip(KEYS, assign))
        if all(env[k] == v for k, v in fixed.items()) and val:
            return True
    return False


def _mentions_key(atoms, key, k):
    for e, _ in atoms:
        for n in ast.walk(e):
            kk = key(n) if isinstance(n, (ast.Attribute, ast.Call, ast.Compare)) else None
            if kk == k or kk == ('not', k):
                return True
    return False


def _is_validation_error(raise_node):
    exc = raise_node.exc
    if exc is None:
        return None
    call = exc.func if isinstance(exc, ast.Call) else exc
    return dotted(call) in ('bv.ValidationError', 'ValidationError')


def run(pm, ctx):
    ctx.rule('C07-R1', 'a raise whose path tests unknown material (unknown field/tag/subtype, '
                       'payload beside a Void tag) is unreachable when not strict '
                       '(tags, subtypes: when not strict and a catch-all exists)')
    ctx.rule('C07-R2', 'a statement that substitutes the catch-all tag / base struct is reachable '
                       'only when not strict and with a catch-all, and substitutes exactly the '
                       'catch-all')
    ctx.rule('C07-R3', 'decode_struct_fields iterates its field-table parameter; the input object '
                       'is only probed by known field name')
    ctx.rule('C07-R4', 'Attribute.__get__ returns None (nullable) or the default for an unset slot '
                       'and raises only when neither exists')
    ctx.rule('C07-R5', 'under strict, each kind of unknown material reaches a ValidationError')
    ctx.rule('C07-R6', 'the generated union class gets `_catch_all = <name>` exactly when the union '
                       'has its own catch-all field and `_catch_all = None` exactly when it has '
                       'neither a catch-all field nor a parent (a child inherits its parent\'s)')

    funcs = {n: pm.func(DEC + '.' + n) for n in
             ('decode_struct', 'decode_struct_fields', 'decode_union', 'decode_union_dict',
              'determine_struct_tree_subtype')}

    kinds_rejected_strict = {}
    n_r1 = n_r2 = 0
    for name, f in funcs.items():
        pi = path_info(f.node)
        key = _atom_key_factory(f.node)
        for n in own_nodes(f.node):
            where = '%s:%d' % (f.module.relpath, getattr(n, 'lineno', 0))
            if isinstance(n, ast.Raise):
                atoms = pi.at(n)
                # which unknown-material kinds does this raise sit under?
                kinds = []
                if _mentions_key(atoms, key, 'field_known') and \
                        _reach(atoms, key, field_known=False) and \
                        not _reach(atoms, key, field_known=True):
                    kinds.append('unknown-field')
                if _mentions_key(atoms, key, 'tag_known') and \
                        _reach(atoms, key, tag_known=False) and \
                        not _reach(atoms, key, tag_known=True):
                    kinds.append('unknown-tag')
                if _mentions_key(atoms, key, 'subtype_known') and \
                        _reach(atoms, key, subtype_known=False) and \
                        not _reach(atoms, key, subtype_known=True):
                    kinds.append('unknown-subtype')
                if _mentions_key(atoms, key, 'void_member') and \
                        _reach(atoms, key, void_member=True) and \
                        not _reach(atoms, key, void_member=False):
                    kinds.append('void-payload')
                if not kinds:
                    continue
                n_r1 += 1
                for kind in kinds:
                    inst = '%s: raise under %s' % (f.short, kind)
                    if kind in ('unknown-field', 'void-payload'):
                        bad = _reach(atoms, key, strict=False)
                        need = 'not strict'
                    else:
                        bad = _reach(atoms, key, strict=False, ca=True)
                        need = 'not strict and catch-all available'
                    ctx.check('C07-R1', not bad, inst, where,
                              msg='rejection of %s is reachable when %s: path = %s' % (
                                  kind, need, ' ∧ '.join(
                                      ('' if p else 'not ') + unparse(e) for e, p in atoms)),
                              key='C07-R1|%s|%s' % (f.qualname, kind))
                    if _reach(atoms, key, strict=True) and _is_validation_error(n):
                        kinds_rejected_strict.setdefault(kind, []).append(where)
            # lenient fallbacks
            sub = None
            if isinstance(n, ast.Assign) and len(n.targets) == 1 and \
                    isinstance(n.targets[0], ast.Name) and n.targets[0].id == 'tag':
                sub = n.value
            elif isinstance(n, ast.Return) and n.value is not None:
                v = n.value
                if isinstance(v, ast.Tuple) and v.elts:
                    v = v.elts[0]
                atoms = pi.at(n)
                if (_mentions_key(atoms, key, 'tag_known') and
                        not _reach(atoms, key, tag_known=True)) or \
                   (_mentions_key(atoms, key, 'subtype_known') and
                        not _reach(atoms, key, subtype_known=True)):
                    sub = v
            if sub is not None:
                atoms = pi.at(n)
                unknown = (_mentions_key(atoms, key, 'tag_known') and
                           not _reach(atoms, key, tag_known=True)) or \
                          (_mentions_key(atoms, key, 'subtype_known') and
                           not _reach(atoms, key, subtype_known=True))
                if not unknown:
                    continue
                n_r2 += 1
                inst = '%s: fallback %s' % (f.short, unparse(n))
                ok_guard = not _reach(atoms, key, strict=True) and \
                    not _reach(atoms, key, ca=False)
                ctx.check('C07-R2', ok_guard, inst + ' guarded', where,
                          msg='lenient fallback reachable under strict or without a catch-all',
                          key='C07-R2|%s|guard' % f.qualname)
                if name == 'determine_struct_tree_subtype':
                    is_ca = isinstance(sub, ast.Name) and sub.id == 'data_type'
                else:
                    is_ca = isinstance(sub, ast.Attribute) and sub.attr == '_catch_all'
                ctx.check('C07-R2', is_ca, inst + ' value', where,
                          msg='fallback substitutes %s, not the catch-all' % unparse(sub),
                          key='C07-R2|%s|value' % f.qualname)
    # no instance floors here: a vanished rejection or fallback is itself a
    # violation and is reported per site by R5 and the 'missing' instances of R2

    # R2b: the fallback must exist in each of the three places
    for name, kind in (('decode_union', 'tag'), ('decode_union_dict', 'tag'),
                       ('determine_struct_tree_subtype', 'subtype')):
        f = funcs[name]
        has = any(o['rule'] == 'C07-R2' and o['instance'].startswith(f.short + ':')
                  for o in ctx.obligations)
        ctx.check('C07-R2', has, '%s: has a lenient fallback for unknown %s' % (f.short, kind),
                  f.loc, msg='no statement substitutes the catch-all for an unknown %s' % kind,
                  key='C07-R2|%s|missing' % f.qualname)

    # R5
    for kind, owner in (('unknown-field', 'decode_struct'), ('unknown-tag', 'decode_union'),
                        ('unknown-tag', 'decode_union_dict'),
                        ('unknown-subtype', 'determine_struct_tree_subtype'),
                        ('void-payload', 'decode_union_dict')):
        f = funcs[owner]
        pi = path_info(f.node)
        key = _atom_key_factory(f.node)
        found = False
        for n in own_nodes(f.node):
            if isinstance(n, ast.Raise) and _is_validation_error(n):
                atoms = pi.at(n)
                k = {'unknown-field': 'field_known', 'unknown-tag': 'tag_known',
                     'unknown-subtype': 'subtype_known', 'void-payload': 'void_member'}[kind]
                want = kind == 'void-payload'
                if _mentions_key(atoms, key, k) and _reach(atoms, key, strict=True, **{k: want}) \
                        and not _reach(atoms, key, **{k: not want}):
                    found = True
        ctx.check('C07-R5', found, '%s rejects %s under strict' % (f.short, kind), f.loc,
                  msg='no ValidationError is raised for %s when strict' % kind,
                  key='C07-R5|%s|%s' % (f.qualname, kind))

    # R3
    f = funcs['decode_struct_fields']
    params = f.params
    ctx.check('C07-R3', len(params) >= 4, 'decode_struct_fields signature (self, ins, fields, obj)',
              f.loc, msg='unexpected signature %r' % params)
    if len(params) >= 4:
        fields_p, obj_p = params[2], params[3]
        loops = [n for n in own_nodes(f.node) if isinstance(n, ast.For)]
        over_fields = [lp for lp in loops if isinstance(lp.iter, ast.Name) and lp.iter.id == fields_p]
        ctx.check('C07-R3', len(over_fields) == 1 and len(loops) == 1,
                  'single loop over the field table', f.loc,
                  msg='decode_struct_fields does not iterate exactly its field-table parameter',
                  key='C07-R3|%s|loop' % f.qualname)
        bad_uses = []
        for n in own_nodes(f.node):
            if isinstance(n, ast.Name) and n.id == obj_p:
                p = n._parent
                okuse = False
                if isinstance(p, ast.Compare) and n in p.comparators and \
                        isinstance(p.ops[0], (ast.In, ast.NotIn)):
                    okuse = True
                elif isinstance(p, ast.Subscript) and p.value is n and \
                        isinstance(p.ctx, ast.Load):
                    okuse = True
                if not okuse:
                    bad_uses.append('%s (line %d)' % (unparse(p), n.lineno))
        ctx.check('C07-R3', not bad_uses, 'input object probed only by known name', f.loc,
                  msg='input object used other than by membership/subscript: %s' % bad_uses,
                  key='C07-R3|%s|obj-use' % f.qualname)
        # the caller passes a table built from _all_fields_
        caller = funcs['decode_struct']
        d = defs(caller.node)
        calls = [c for c in own_nodes(caller.node) if isinstance(c, ast.Call) and
                 isinstance(c.func, ast.Attribute) and c.func.attr == 'decode_struct_fields']
        ctx.check('C07-R3', len(calls) == 1, 'decode_struct calls decode_struct_fields once',
                  caller.loc, msg='expected exactly one call, found %d' % len(calls),
                  key='C07-R3|%s|call' % caller.qualname)
        for c in calls:
            arg = c.args[1] if len(c.args) > 1 else None
            origin = d.origin_attrs(arg.id) if isinstance(arg, ast.Name) else set()
            ctx.check('C07-R3', '_all_fields_' in origin,
                      'field table argument flows from _all_fields_',
                      '%s:%d' % (caller.module.relpath, c.lineno),
                      msg='decode_struct_fields is not given the reflection field table',
                      key='C07-R3|%s|table' % caller.qualname)

    # R4
    g = pm.func(BASE + '.Attribute.__get__')
    pi = path_info(g.node)
    rets = [n for n in own_nodes(g.node) if isinstance(n, ast.Return)]
    ret_default = [r for r in rets if isinstance(r.value, ast.Attribute) and r.value.attr == 'default']
    ret_none = [r for r in rets if isinstance(r.value, ast.Constant) and r.value.value is None]

    def under(node, pred):
        return any(pred(e, p) for e, p in pi.at(node))

    def slot_unset(e, p):
        t = unparse(e)
        return ('NOT_SET' in t and 'is not' in t and not p) or \
            ('NOT_SET' in t and ' is ' in t and 'is not' not in t and p)
    ctx.check('C07-R4', len(ret_default) == 1 and under(ret_default[0], slot_unset) and
              under(ret_default[0], lambda e, p: 'NO_DEFAULT' in unparse(e)),
              'unset slot with default -> default', g.loc,
              msg='Attribute.__get__ does not return the default for an unset slot',
              key='C07-R4|%s|default' % g.qualname)
    ctx.check('C07-R4', len(ret_none) == 1 and under(ret_none[0], slot_unset) and
              under(ret_none[0], lambda e, p: isinstance(e, ast.Attribute) and
                    e.attr == 'nullable' and p),
              'unset nullable slot -> None', g.loc,
              msg='Attribute.__get__ does not return None for an unset nullable slot',
              key='C07-R4|%s|nullable' % g.qualname)
    raises = [n for n in own_nodes(g.node) if isinstance(n, ast.Raise)]
    ctx.check('C07-R4', all(under(r, slot_unset) for r in raises) and
              all(dotted(r.exc.func) == 'AttributeError' for r in raises
                  if isinstance(r.exc, ast.Call)),
              'raise only for an unset slot, as AttributeError', g.loc,
              msg='Attribute.__get__ raises for a set slot or not AttributeError',
              key='C07-R4|%s|raise' % g.qualname)
    # the set value, when present, is what is returned
    first_ret = [r for r in rets if isinstance(r.value, ast.Name) and r.value.id == 'value']
    ctx.check('C07-R4', len(first_ret) == 1 and
              any('NOT_SET' in unparse(e) and 'is not' in unparse(e) and p
                  for e, p in pi.at(first_ret[0])),
              'set slot -> stored value', g.loc,
              msg='Attribute.__get__ does not return the stored value of a set slot',
              key='C07-R4|%s|value' % g.qualname)

    # R6: generator side of the catch-all marker
    g = pm.func('stone.backends.python_types.PythonTypesBackend._generate_union_class_vars')
    pi = path_info(g.node)

    def gkey(e):
        if isinstance(e, ast.Attribute) and e.attr == 'catch_all_field':
            return 'caf'
        if isinstance(e, ast.Attribute) and e.attr == 'parent_type':
            return 'parent'
        return ('other', unparse(e))
    seen = {'none': 0, 'name': 0}
    for n in own_nodes(g.node):
        if isinstance(n, ast.Call) and isinstance(n.func, ast.Attribute) and n.func.attr == 'emit' \
                and n.args and '_catch_all' in unparse(n.args[0]):
            txt = unparse(n.args[0])
            kind = 'none' if "= None" in txt else 'name'
            seen[kind] += 1
            table = conds_truth(pi.at(n), gkey, ['caf', 'parent'])
            if kind == 'none':
                want = {(False, False): True, (True, False): False, (False, True): False,
                        (True, True): False}
            else:
                want = {(False, False): False, (True, False): True, (False, True): False,
                        (True, True): True}
            ctx.check('C07-R6', table == want,
                      '_generate_union_class_vars: emission of `%s` over {catch_all_field, parent}'
                      % txt[:40], '%s:%d' % (g.module.relpath, n.lineno),
                      msg='catch-all marker %s is emitted under the wrong condition: %s' % (
                          txt[:40], {k: v for k, v in table.items() if v}),
                      key='C07-R6|%s|%s' % (g.qualname, kind))
            if kind == 'name':
                ctx.check('C07-R6', 'catch_all_field.name' in txt,
                          'marker names the catch-all field', '%s:%d' % (g.module.relpath, n.lineno),
                          msg='the emitted _catch_all is not the catch-all field name',
                          key='C07-R6|%s|name-value' % g.qualname)
    ctx.check('C07-R6', seen['none'] == 1 and seen['name'] == 1,
              '_generate_union_class_vars emits both forms of the marker', g.loc,
              msg='expected one `_catch_all = None` and one named emission, found %r' % seen,
              key='C07-R6|%s|forms' % g.qualname)
    ctx.rule('C07-R7', 'generated validator constructors keep nullability through aliases and every declared bound')
    from .C08 import validator_construction
    validator_construction(pm, ctx, 'C07-R7')
    ctx.import_rules(pm, 'C02', {'C02-R6'}, 'C07-R8',
                     'open unions get the implicit `other` catch-all exactly when no ancestor '
                     'provides one (shared with C02-R6)')

    # ---------------- R9: the base struct a lenient decode falls back to is a valid value of
    # the struct-tree type wherever it is stored (fields, list items, map values, tag payloads)
    ctx.rule('C07-R9', 'a struct-tree validator accepts every instance of its base class: '
                       'StructTree adds no validation of its own and Struct checks the type with '
                       'isinstance')
    bvm = pm.module('stone.backends.python_rsrc.stone_validators')
    st = bvm.classes['StructTree']
    extra = sorted(set(st.methods) - {'__init__'})
    ctx.check('C07-R9', not extra, 'bv.StructTree overrides nothing but __init__', bvm.relpath,
              msg='bv.StructTree overrides %s: the base-struct value produced for an unknown '
                  'subtype may now be refused when it is stored in a field, list, map or tag'
                  % extra, key='C07-R9|StructTree|overrides')
    init = st.methods.get('__init__')
    if init is not None:
        # everything the constructor does besides delegating: statements other than the
        # docstring, the super().__init__ call and assignments of constants to locals
        body_ = [n for n in init.node.body
                 if not (isinstance(n, ast.Expr) and isinstance(n.value, ast.Constant))
                 and not (isinstance(n, ast.Assign) and isinstance(n.value, ast.Constant) and
                          all(isinstance(t, ast.Name) for t in n.targets))
                 and unparse(n) != 'super().__init__(definition)']
        delegates = any(unparse(n) == 'super().__init__(definition)' for n in init.node.body)
        ctx.check('C07-R9', delegates and not body_,
                  'bv.StructTree.__init__ only delegates', init.loc,
                  msg='bv.StructTree.__init__ does more than delegate',
                  key='C07-R9|StructTree|init')
    vto = pm.func('stone.backends.python_rsrc.stone_validators.Struct.validate_type_only')
    pi_ = path_info(vto.node)
    rs = [n for n in own_nodes(vto.node) if isinstance(n, ast.Raise)]
    ok = len(rs) == 1 and [(unparse(e), p) for e, p in pi_.at(rs[0])] == \
        [('isinstance(val, self.definition)', False)]
    ctx.check('C07-R9', ok, 'bv.Struct.validate_type_only refuses exactly non-instances of the '
              'definition (subclasses pass)', vto.loc,
              msg='bv.Struct.validate_type_only no longer tests isinstance(val, self.definition) '
                  'only', key='C07-R9|%s' % vto.qualname)

    ctx.import_rules(pm, 'C02', {'C02-R5'}, 'C07-R10',
                     'required / optional field listings of the IR are complete, parent first, with '
                     'complementary predicates (shared with C02-R5)')
    from ..effects import run_decisions
    from ..ownership import OWN
    run_decisions(pm, ctx, 'C07-RD', OWN['C07'])
    from .. import exprdrift
    exprdrift.run(pm, ctx, 'C07-RE', OWN['C07'])
    from ..effects import run_calls
    run_calls(pm, ctx, 'C07-RC', OWN['C07'])
    from .. import memo
    memo.run(pm, ctx, 'C07-MK', OWN['C07'])
    from .. import interface
    interface.run(pm, ctx, 'C07-RI', OWN['C07'])
    from .. import mutation
    mutation.run(pm, ctx, 'C07-MU', OWN['C07'])
    # the strict unknown-field test compares with the declared names of *this* type
    from ..dataflow import defs as _defs
    dsf = pm.func(DEC + '.decode_struct')
    vals = [unparse(v) for v in _defs(dsf.node).all_values('all_field_names')]
    okn = bool(vals) and 'data_type.definition._all_field_names_' in vals and all(
        v == 'data_type.definition._all_field_names_' or v.startswith('all_field_names.union(')
        for v in vals)
    ctx.check('C07-R5', okn, 'decode_struct takes the known field names from the definition of the '
              'type being decoded (plus the caller\'s permission sets)', dsf.loc,
              msg='decode_struct computes the set of known field names as %s: it no longer is '
                  'the declared names of the type being decoded, so strict decoding accepts or '
                  'refuses the wrong keys' % vals, key='C07-R5|%s|known-names' % dsf.qualname)
    ctx.import_rules(pm, 'C10', {'C10-R5'}, 'C07-R10',
                     'defaults of new fields are emitted after every type they refer to (shared with '
                     'C10-R5)')
