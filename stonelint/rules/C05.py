"""C05 -- encoded JSON is exactly the wire format of the serializer
specification.  Structural part (DESIGN 4/C05): the encoder's member
partition and primitive table equal the table transcribed from
docs/json_serializer.rst; struct shape (unset optional fields omitted, .tag
first for subtypes and unions); reflection tables chained to the parent's.
"""
import ast
import json
import os

from ..lattice import bv_family, reaching_classes
from ..model import call_name, own_nodes, unparse
from ..pathcond import assigned_alternatives, conds_truth, path_info, truth_table
from ._serial import ENC, PYTYPES
from .C04 import union_partitions

PROP = 'C05'
EXPLANATION = (
    'Comparison of the encoder with the reference table transcribed from '
    'docs/json_serializer.rst (reference/wire_format.json, each row citing its doc section). '
    'R1: the partition of member validator classes computed for encode_union over all enumerated '
    'paths (tag-only / flattened / nested, decided after unwrapping Nullable) equals the doc '
    'table, and the three dict shapes put .tag first and nest under the tag name. R2: '
    'encode_primitive maps each primitive class as the doc table says (Bytes base64 text, '
    'Timestamp strftime(format), Void null, numbers/strings/booleans unchanged); encode_list '
    'builds a list and encode_map a dict, both recursing through encode_sub. R3: encode_struct '
    'writes a key, named by the field table, exactly for set non-None fields; encode_struct_tree '
    'writes .tag then the leaf fields. R4: field-table entries are (fmt_var(field.name), '
    'validator) built by generate_validator_constructor; a child table is chained to its '
    'parent\'s exactly when the caller exists in the parent (for the public table: whenever a '
    'parent exists). Decides the structural part, not byte-level JSON.'
    " R5/R6 (imported from C04-R2 and C08-R2): the primitive encoders (`_strftime` = strftime with the declared format) and the validators' normalisation (Nullable.validate maps only None to None) decide what text reaches the wire."
    ' RC (call-condition drift, stonelint.effects.run_calls): for every call of a repository or imported-library function in the functions the property is anchored in, the path conditions of its occurrences are compared with reference/effects.json by truth table; an assignment under which the function used to make the call and now completes without it is a violation (tests on memo tables, emptiness of the iterated collection and earlier refusals excepted; re-spelled conditions are not claimed).'
    ' MK (memo-key rule, stonelint.memo): a memo table or done-set the reference tree does not have must be keyed by every access path the skipped code reads, injectively and type-aware.'
    ' RI (interface drift, stonelint.interface): constants and tables (folded values), compiled regular expressions (witness text), parameter defaults, special methods, base classes and caching decorators of the modules the property rests on are compared with reference/interface.json; only a concrete difference in what is computed is reported.'
    ' MU (mutation drift, stonelint.mutation): the functions the property rests on update in place only the caller-owned, class-level and module-level objects they updated on the confirmed tree, and have no new handler that swallows an exception (reference/mutations.json).')
ASSUMPTIONS = [
    'reference/wire_format.json is a faithful transcription of docs/json_serializer.rst',
    'json.dumps renders Python dict/list/str/int/float/bool/None as the JSON kinds of the same name',
]
HERE = os.path.dirname(os.path.dirname(os.path.dirname(os.path.abspath(__file__))))


def run(pm, ctx):
    ctx.rule('C05-R1', 'encode_union member partition and dict shapes equal the documented table')
    ctx.rule('C05-R2', 'primitive and container encodings equal the documented table')
    ctx.rule('C05-R3', 'struct shape: keys from the field table, unset optional fields omitted, '
                       '.tag first for enumerated subtypes')
    ctx.rule('C05-R4', 'reflection tables: entries and parent chaining')
    ref = json.load(open(os.path.join(HERE, 'reference', 'wire_format.json')))
    fam = bv_family(pm)
    docpath = os.path.join(pm.repo, 'docs', 'json_serializer.rst')
    doc = open(docpath, encoding='utf-8').read() if os.path.exists(docpath) else ''
    # the reference is only valid while the doc still says what was transcribed
    anchors = ['String: Base64-encoded', 'Encoded using strftime()', 'ordinary structs',
               'addition of a ``.tag`` key', 'only includes the tag',
               'other unions or structs with enumerated subtypes']
    for a in anchors:
        ctx.check('C05-R1', a in ' '.join(doc.split()), 'doc still states: %r' % a,
                  'docs/json_serializer.rst',
                  msg='docs/json_serializer.rst no longer contains %r: the transcribed reference '
                      'table must be re-derived' % a, key='C05-R1|doc|%s' % a)

    enc_part, _ = union_partitions(pm)
    want = {r['category']: set(r['members']) for r in ref['union_member']}
    eu = pm.func(ENC + '.encode_union')
    ctx.check('C05-R1', enc_part.get('flattened') == want['flattened'],
              'flattened members == %s' % sorted(want['flattened']), eu.loc,
              msg='encode_union flattens %s; the document flattens only ordinary structs' % sorted(
                  enc_part.get('flattened', [])), key='C05-R1|%s|flattened' % eu.qualname)
    nested = set(enc_part.get('nested', [])) - {'Nullable', 'Void'}
    ctx.check('C05-R1', nested == want['nested'], 'nested members == the %d documented classes'
              % len(want['nested']), eu.loc,
              msg='encode_union nests %s; the document nests %s' % (
                  sorted(nested), sorted(want['nested'])), key='C05-R1|%s|nested' % eu.qualname)
    # shapes
    rets = [n for n in own_nodes(eu.node) if isinstance(n, ast.Return)]
    pi = path_info(eu.node)
    new_style = [r for r in rets if not any(unparse(e) == 'self.old_style' and pol
                                            for e, pol in pi.at(r))]
    tagonly = [r for r in new_style if isinstance(r.value, ast.Dict)]
    good = len(tagonly) == 1 and [unparse(k) for k in tagonly[0].value.keys] == ["'.tag'"] and \
        unparse(tagonly[0].value.values[0]) == 'value._tag' and \
        any(unparse(e) == 'is_none' and pol for e, pol in pi.at(tagonly[0]))
    ctx.check('C05-R1', good, "tag-only shape {'.tag': tag} under is_none", eu.loc,
              msg='tag-only encoding shape changed', key='C05-R1|%s|shape-tag-only' % eu.qualname)
    nested_r = [r for r in new_style if isinstance(r.value, ast.Call) and
                'OrderedDict' in unparse(r.value.func)]
    good = False
    if len(nested_r) == 1 and nested_r[0].value.args:
        a = nested_r[0].value.args[0]
        if isinstance(a, ast.Tuple) and len(a.elts) == 2:
            good = [unparse(x) for x in a.elts] == ["('.tag', value._tag)",
                                                    '(value._tag, encoded_val)']
    ctx.check('C05-R1', good, "nested shape ('.tag', tag), (tag, value)", eu.loc,
              msg='nested encoding shape changed', key='C05-R1|%s|shape-nested' % eu.qualname)
    st = [(i, unparse(s)) for i, s in enumerate(
        [n for n in own_nodes(eu.node) if isinstance(n, (ast.Assign, ast.Expr, ast.Return))])]
    i_tag = [i for i, t in st if t == "d['.tag'] = value._tag"]
    i_upd = [i for i, t in st if t == 'd.update(encoded_val)']
    ctx.check('C05-R1', len(i_tag) == 1 and len(i_upd) == 1 and i_tag[0] < i_upd[0],
              'flattened shape: .tag first, then the struct fields', eu.loc,
              msg='flattened encoding no longer writes .tag before the fields',
              key='C05-R1|%s|shape-flat' % eu.qualname)

    # ---------------- R2
    ep = pm.func(ENC + '.encode_primitive')
    pi = path_info(ep.node)
    table = {}
    for n in own_nodes(ep.node):
        if isinstance(n, ast.Return) and n.value is not None:
            if any(unparse(e) == 'self.for_msgpack' and pol for e, pol in pi.at(n)):
                continue
            for c in reaching_classes(pm, fam, ep, n, 'validator',
                                      universe=fam.below('Primitive')):
                table.setdefault(c, set()).add(unparse(n.value))
    kinds = {'identity': {'value'}, 'number': {'value', 'int(value)'},
             'base64-text': {"base64.b64encode(value).decode('ascii')"},
             'strftime(format)': {'_strftime(value, validator.format)'}, 'null': {'None'}}
    for row in ref['primitive']:
        got = table.get(row['type'], set())
        ctx.check('C05-R2', got == kinds[row['json']],
                  '%s -> %s (%s)' % (row['type'], row['json'], row['cite']), ep.loc,
                  msg='%s is encoded as %s; the document says %s' % (
                      row['type'], sorted(got), row['json']), key='C05-R2|%s' % row['type'])
    el = pm.func(ENC + '.encode_list')
    r = [n for n in own_nodes(el.node) if isinstance(n, ast.Return)]
    ctx.check('C05-R2', len(r) == 1 and isinstance(r[0].value, ast.ListComp) and
              call_name(r[0].value.elt) == 'encode_sub' and
              'item_validator' in unparse(r[0].value.elt),
              'List -> array of encode_sub(item_validator, item)', el.loc,
              msg='encode_list no longer returns a list of encoded items',
              key='C05-R2|%s' % el.qualname)
    em = pm.func(ENC + '.encode_map')
    r = [n for n in own_nodes(em.node) if isinstance(n, ast.Return)]
    ctx.check('C05-R2', len(r) == 1 and isinstance(r[0].value, ast.DictComp) and
              call_name(r[0].value.key) == 'encode_sub' and call_name(r[0].value.value) ==
              'encode_sub' and 'key_validator' in unparse(r[0].value.key) and
              'value_validator' in unparse(r[0].value.value),
              'Map -> object of encode_sub(key)/encode_sub(value)', em.loc,
              msg='encode_map no longer returns a dict of encoded keys and values',
              key='C05-R2|%s' % em.qualname)

    # ---------------- R3
    es = pm.func(ENC + '.encode_struct')
    loops = [n for n in own_nodes(es.node) if isinstance(n, ast.For) and
             unparse(n.iter) == 'all_fields']
    good = len(loops) == 1 and unparse(loops[0].target) == '(field_name, field_validator)'
    stores = [n for n in own_nodes(es.node) if isinstance(n, ast.Assign) and
              isinstance(n.targets[0], ast.Subscript) and unparse(n.targets[0].value) == 'd']
    good = good and len(stores) == 1 and unparse(stores[0].targets[0].slice) == 'field_name' and \
        unparse(stores[0].value) == 'self.encode_sub(field_validator, field_value)'
    ctx.check('C05-R3', good, 'encode_struct: one key per field-table entry, value through '
              'encode_sub', es.loc, msg='encode_struct key/value construction changed',
              key='C05-R3|%s|keys' % es.qualname)
    pi = path_info(es.node)
    g = {(unparse(e), pol) for e, pol in pi.at(stores[0])} if stores else set()
    ctx.check('C05-R3', g == {('field_value is not None', True),
                              ('getattr(value, value_key) is not bb.NOT_SET', True)},
              'unset optional fields are omitted', es.loc,
              msg='encode_struct writes keys under %s' % sorted(g),
              key='C05-R3|%s|omit' % es.qualname)
    vk = [n for n in own_nodes(es.node) if isinstance(n, ast.Assign) and
          unparse(n.targets[0]) == 'value_key']
    ctx.check('C05-R3', len(vk) == 1 and unparse(vk[0].value) == "'_{}_value'.format(field_name)",
              'raw slot name is _<field>_value (as Attribute stores it)', es.loc,
              msg='encode_struct reads a different slot than Attribute writes',
              key='C05-R3|%s|slot' % es.qualname)
    aset = pm.func('stone.backends.python_rsrc.stone_base.Attribute.__set__')
    pa = path_info(aset.node)
    clears = [n for n in own_nodes(aset.node) if isinstance(n, ast.Call) and
              call_name(n) == 'setattr' and len(n.args) == 3 and unparse(n.args[2]) == 'NOT_SET']
    ctx.check('C05-R3', len(clears) == 1 and {(unparse(e), pol) for e, pol in pa.at(clears[0])} ==
              {('self.nullable', True), ('value is None', True)},
              'a field becomes "unset" (and its key omitted) only by assigning None to a nullable '
              'field', aset.loc,
              msg='Attribute.__set__ marks a field unset for values other than None: its key would '
                  'be omitted from the encoding', key='C05-R3|%s|unset' % aset.qualname)
    adel = pm.func('stone.backends.python_rsrc.stone_base.Attribute.__delete__')
    pdel = path_info(adel.node)
    sets = [n for n in own_nodes(adel.node) if isinstance(n, ast.Call) and
            call_name(n) == 'setattr' and len(n.args) == 3]
    ctx.check('C05-R3', len(sets) == 1 and unparse(sets[0].args[2]) == 'NOT_SET' and
              unparse(sets[0].args[1]) == 'self.name' and not pdel.at(sets[0]),
              'deleting a field leaves its slot unset (so its key is omitted)', adel.loc,
              msg='Attribute.__delete__ no longer stores NOT_SET unconditionally: a deleted '
                  'field would still be encoded', key='C05-R3|%s|unset' % adel.qualname)
    # the raw slot is written by the descriptor only
    base = pm.module('stone.backends.python_rsrc.stone_base')
    writers = sorted({f.short for f in pm.funcs_in(base.name) for n in own_nodes(f.node)
                      if isinstance(n, ast.Call) and call_name(n) == 'setattr' and
                      len(n.args) == 3 and unparse(n.args[1]) == 'self.name'})
    ctx.check('C05-R3', writers == ['backends.python_rsrc.stone_base.Attribute.__delete__',
                                    'backends.python_rsrc.stone_base.Attribute.__set__'],
              'only Attribute.__set__/__delete__ write a field slot', base.relpath,
              msg='field slots are written by %s' % writers, key='C05-R3|slot-writers')
    est = pm.func(ENC + '.encode_struct_tree')
    body = [unparse(n) for n in own_nodes(est.node) if isinstance(n, (ast.Assign, ast.Expr))]
    try:
        i1 = body.index("d['.tag'] = tags[0]")
        i2 = body.index('d.update(self.encode_struct(subtype, value))')
    except ValueError:
        i1 = i2 = -1
    ctx.check('C05-R3', 0 <= i1 < i2, 'encode_struct_tree: .tag first then the leaf struct fields',
              est.loc, msg='encode_struct_tree shape changed', key='C05-R3|%s' % est.qualname)

    # ---------------- R4
    g_ = pm.func(PYTYPES + '.PythonTypesBackend._generate_struct_class_reflection_attributes')
    pi = path_info(g_.node)
    cip = [n for n in own_nodes(g_.node) if isinstance(n, ast.Assign) and
           unparse(n.targets[0]) == 'caller_in_parent']

    def k(e):
        t = unparse(e)
        return {'data_type.parent_type': 'parent', 'is_public': 'public',
                'omitted_caller in parent_omitted_callers': 'inparent'}.get(t, ('other', t))
    good = False
    if len(cip) == 1:
        keys, tab = truth_table(cip[0].value, k)
        good = keys == ['inparent', 'parent', 'public'] and all(
            bool(v) == (env[1] and (env[2] or env[0])) for env, v in tab.items())
    ctx.check('C05-R4', good, 'caller_in_parent == parent and (public or caller in parent callers)',
              g_.loc, msg='caller_in_parent is computed differently',
              key='C05-R4|%s|caller_in_parent' % g_.qualname)
    # every chaining decision is taken on caller_in_parent alone
    n_sites = 0
    sites = [(leaf, unparse(leaf)) for leaf, _ in assigned_alternatives(g_.node, 'before')] + \
        [(n, unparse(n.args[0])) for n in own_nodes(g_.node)
         if isinstance(n, ast.Call) and call_name(n) == 'emit' and n.args and
         'format' in unparse(n.args[0]) and '_map_name' in unparse(n.args[0])]
    for n, t in sites:
        chained = 'parent_type_class_name' in t
        n_sites += 1
        pols = [(unparse(e), pol) for e, pol in pi.at(n)
                if unparse(e) not in ('data_type.is_member_of_enumerated_subtypes_tree()',)]
        ctx.check('C05-R4', pols == [('caller_in_parent', chained)],
                  'table %s chained to the parent exactly under caller_in_parent' % (
                      'is' if chained else 'is not'), '%s:%d' % (g_.module.relpath, n.lineno),
                  msg='a reflection table is %schained to the parent under %s' % (
                      '' if chained else 'not ', pols),
                  key='C05-R4|%s|chain@%s' % (g_.qualname, 'yes' if chained else 'no'))
    ctx.check('C05-R4', n_sites == 8, '8 chaining sites (names/fields x tree/flat x yes/no)', g_.loc,
              msg='expected 8 chaining sites, found %d' % n_sites,
              key='C05-R4|%s|sites' % g_.qualname)
    # entries
    items = [n for n in own_nodes(g_.node) if isinstance(n, ast.Call) and call_name(n) == 'append'
             and unparse(n.func.value) == 'items']
    good = len(items) == 2 and all(unparse(c.args[0]) ==
                                   '"(\'{}\', {})".format(var_name, validator_name)' for c in items)
    ctx.check('C05-R4', good, "field-table entries are ('<name>', <Class>.<name>.validator)", g_.loc,
              msg='field-table entry construction changed', key='C05-R4|%s|entries' % g_.qualname)
    flt = [n for n in own_nodes(g_.node, include_nested=True) if isinstance(n, ast.Compare) and
           'field.omitted_caller' in unparse(n) and 'omitted_caller' in unparse(n.comparators[0])]
    ctx.check('C05-R4', len(flt) == 4 and sorted(type(c.ops[0]).__name__ for c in flt) ==
              ['Eq', 'Eq', 'NotEq', 'NotEq'],
              'every per-caller table selects fields by equality with the loop caller', g_.loc,
              msg='per-caller field selection changed (%d comparison sites)' % len(flt),
              key='C05-R4|%s|select' % g_.qualname)
    vals = [n for n in own_nodes(g_.node) if isinstance(n, ast.Assign) and
            unparse(n.targets[0]) == 'validator_name' and isinstance(n.value, ast.Call) and
            call_name(n.value) == 'generate_validator_constructor']
    ctx.check('C05-R4', len(vals) == 1 and unparse(vals[0].value.args[1]) == 'field.data_type',
              'field validators come from generate_validator_constructor(ns, field.data_type)',
              g_.loc, msg='field validator construction changed',
              key='C05-R4|%s|validators' % g_.qualname)
    ctx.import_rules(pm, 'C04', {'C04-R2'}, 'C05-R5',
                     'primitive encodings: timestamps are formatted with the declared format, '
                     'integers/floats/bytes by their inverse pairs (shared with C04-R2)')
    ctx.import_rules(pm, 'C08', {'C08-R2'}, 'C05-R6',
                     'validators return the value unchanged (Nullable delegates every non-null '
                     'value) so that what is encoded is what was set (shared with C08-R2)')

    ctx.import_rules(pm, 'C04', {'C04-R9'}, 'C05-R9',
                     'a primitive validator hands back the value it was given: what is encoded is '
                     'what was set (shared with C04-R9)')
    ctx.import_rules(pm, 'C02', {'C02-R5'}, 'C05-R10',
                     'required / optional field listings of the IR are complete, parent first, with '
                     'complementary predicates (shared with C02-R5)')
    from ..effects import run_decisions
    from ..ownership import OWN
    run_decisions(pm, ctx, 'C05-RD', OWN['C05'])
    from .. import exprdrift
    exprdrift.run(pm, ctx, 'C05-RE', OWN['C05'])
    from ..effects import run_calls
    run_calls(pm, ctx, 'C05-RC', OWN['C05'])
    from .. import memo
    memo.run(pm, ctx, 'C05-MK', OWN['C05'])
    from .. import interface
    interface.run(pm, ctx, 'C05-RI', OWN['C05'])
    from .. import mutation
    mutation.run(pm, ctx, 'C05-MU', OWN['C05'])
    ctx.import_rules(pm, 'C04', {'C04-R4'}, 'C05-R7',
                     'the encoder walks the field table of the declared type (shared with C04-R4)')
    ctx.import_rules(pm, 'C08', {'C08-R6'}, 'C05-R8',
                     'generated attribute descriptors carry nullable/user_defined as declared '
                     '(shared with C08-R6)')
