"""Mutation drift (rule ``<ID>-MU``): which objects that outlive a call a function
updates in place, and which exceptions it swallows, compared with the
confirmed tree.

Expression drift does not claim *added* code.  Two kinds of added code change
what a caller observes whatever else the function does:

* an in-place update of an object the function does not own — a parameter, an
  alias of (part of) a parameter, a class-level or module-level container, an
  attribute of ``self`` of container type initialised elsewhere: the caller's
  dict loses a key, a shared list keeps growing between runs, a constant handed
  out to every caller is filled by one of them;
* (recorded only, not claimed: a new ``except`` clause that neither re-raises nor records
  the error - whether replacing a crash by a continuation breaks a property depends on the
  crash.)

Per function the reference (``reference/mutations.json``) keeps the set of
(root, operation kind) it updates in place and the set of (exception class,
disposition) of its handlers.  A *new* entry is a violation; everything the
confirmed tree already does is accepted as it is.
"""
import ast
import json
import os

from .model import own_nodes, unparse

MUTATORS = {'append', 'extend', 'insert', 'pop', 'remove', 'clear', 'update', 'sort', 'reverse',
            'setdefault', 'add', 'discard', 'popitem', 'appendleft', 'popleft',
            'difference_update', 'intersection_update', 'symmetric_difference_update'}
REF = os.path.join(os.path.dirname(os.path.dirname(os.path.abspath(__file__))), 'reference',
                   'mutations.json')


def _root_of(e):
    """Name at the root of an access path `a.b[c].d` -> ('a', 'a.b[c].d')."""
    t = e
    while isinstance(t, (ast.Attribute, ast.Subscript)):
        t = t.value
    if isinstance(t, ast.Name):
        return t.id
    return None


def _aliases(f):
    """{local name: set of roots it may alias} — a local bound to a parameter, to part of a
    parameter / of self, or to another alias; a local bound to a fresh object (call result,
    display, comprehension, constant, copy) aliases nothing."""
    params = set(f.params)
    al = {p: {p} for p in params}
    changed = True
    rounds = 0
    while changed and rounds < 5:
        changed = False
        rounds += 1
        for n in own_nodes(f.node):
            pairs = []
            if isinstance(n, ast.Assign) and len(n.targets) == 1:
                pairs.append((n.targets[0], n.value))
            elif isinstance(n, (ast.For, ast.comprehension)):
                pairs.append((n.target, n.iter))
            for tgt, val in pairs:
                names = [tgt] if isinstance(tgt, ast.Name) else [
                    x for x in ast.walk(tgt) if isinstance(x, ast.Name)]
                src = val
                # x = p / p.a / p[k] / p.get(k) / p.a.b   keep the alias; f(...) is fresh
                while isinstance(src, ast.IfExp):
                    src = src.body
                if isinstance(src, ast.Call) and isinstance(src.func, ast.Attribute) and \
                        src.func.attr in ('get', 'items', 'values', 'setdefault') and \
                        _root_of(src.func.value):
                    src = src.func.value
                if not isinstance(src, (ast.Name, ast.Attribute, ast.Subscript)):
                    continue
                r = _root_of(src)
                if r is None or r not in al:
                    continue
                for nm in names:
                    if nm.id in params:
                        continue
                    cur = al.setdefault(nm.id, set())
                    new = al[r] - cur
                    if new:
                        cur |= new
                        changed = True
    return al


def _class_level(pm, f):
    """Names of class-level containers of the function's class and its bases."""
    out = set()
    if f.cls is None:
        return out
    for k in pm.mro(f.cls):
        for name, v in k.attrs.items():
            if isinstance(v, ast.Tuple) and any(isinstance(e, (ast.List, ast.Dict, ast.Set))
                                                for e in v.elts):
                out.add(name)
            if isinstance(v, (ast.List, ast.Dict, ast.Set)) or (
                    isinstance(v, ast.Call) and isinstance(v.func, ast.Name) and
                    v.func.id in ('list', 'dict', 'set', 'OrderedDict', 'defaultdict')):
                out.add(name)
    return out


def _module_level(f):
    out = set()
    for st in f.module.tree.body:
        if isinstance(st, ast.Assign) and len(st.targets) == 1 and \
                isinstance(st.targets[0], ast.Name) and \
                isinstance(st.value, (ast.List, ast.Dict, ast.Set)):
            out.add(st.targets[0].id)
    return out


def mutations_of(pm, f):
    """Sorted ['<root>|<kind>'] of in-place updates of objects the function does not own."""
    al = _aliases(f)
    cls_level = _class_level(pm, f)
    mod_level = _module_level(f)
    local_fresh = set()
    for n in own_nodes(f.node):
        if isinstance(n, ast.Assign) and len(n.targets) == 1 and \
                isinstance(n.targets[0], ast.Name) and n.targets[0].id not in al:
            local_fresh.add(n.targets[0].id)
    out = set()
    from .memo import memo_sites
    try:
        memo_tables = {site[0] for site in memo_sites(pm, f)}
    except Exception:
        memo_tables = set()

    def note(target_expr, kind):
        r = _root_of(target_expr)
        if r is None:
            return
        if r in ('self', 'cls'):
            # self.<attr>...: only class-level containers are shared beyond the instance
            t = target_expr
            chain = []
            while isinstance(t, (ast.Attribute, ast.Subscript)):
                if isinstance(t, ast.Attribute):
                    chain.append(t.attr)
                t = t.value
            first = chain[-1] if chain else None
            if first in cls_level and f.name != '__init__':
                out.add('class:%s|%s' % (first, kind))
            return
        if r in al and r not in local_fresh:
            for root in sorted(al[r]):
                if root in ('self', 'cls'):
                    continue
                out.add('param:%s|%s' % (root, kind))
        elif r in mod_level and r not in f.params:
            if r in memo_tables:
                return      # a memo table: decided by the memo-key rule
            out.add('module:%s|%s' % (r, kind))
    for n in own_nodes(f.node):
        if isinstance(n, ast.Subscript) and isinstance(n.ctx, (ast.Store, ast.Del)):
            note(n.value, 'item')
        elif isinstance(n, ast.Attribute) and isinstance(n.ctx, (ast.Store, ast.Del)):
            if not (isinstance(n.value, ast.Name) and n.value.id in ('self', 'cls')):
                note(n.value, 'attr')
        elif isinstance(n, ast.Call) and isinstance(n.func, ast.Attribute) and \
                n.func.attr in MUTATORS:
            note(n.func.value, 'call')
        elif isinstance(n, ast.AugAssign) and isinstance(n.target, (ast.Attribute, ast.Subscript)):
            note(n.target.value, 'item')
    # a class-level container handed out as a value (assigned to a slot, returned, yielded):
    # every receiver holds the same object
    for n in own_nodes(f.node):
        val = None
        if isinstance(n, ast.Assign) and not (len(n.targets) == 1 and
                                              isinstance(n.targets[0], ast.Name)):
            val = n.value
        elif isinstance(n, (ast.Return, ast.Yield)):
            val = n.value
        if isinstance(val, ast.Attribute) and isinstance(val.value, ast.Name) and \
                val.value.id in ('self', 'cls') and val.attr in cls_level and \
                f.name != '__init__':
            out.add('class:%s|handed out' % val.attr)
    # a shared container handed to a function that updates that parameter in place
    mp = _mutated_params(pm)
    for n in own_nodes(f.node):
        if not isinstance(n, ast.Call):
            continue
        fn = n.func
        name = fn.attr if isinstance(fn, ast.Attribute) else getattr(fn, 'id', None)
        if name not in mp:
            continue
        for idx, pname in mp[name]:
            arg = None
            if idx < len(n.args):
                arg = n.args[idx]
            for k in n.keywords:
                if k.arg == pname:
                    arg = k.value
            if arg is None:
                continue
            r = _root_of(arg)
            if r in ('self', 'cls') and isinstance(arg, ast.Attribute) and arg.attr in cls_level:
                out.add('class:%s|passed to %s(%s)' % (arg.attr, name, pname))
            elif isinstance(arg, ast.Name) and arg.id in mod_level and arg.id not in f.params and \
                    arg.id not in al and arg.id not in local_fresh:
                out.add('module:%s|passed to %s(%s)' % (arg.id, name, pname))
    return sorted(out)


def _mutated_params(pm):
    """{function name: [(positional index without self, parameter name)]} for functions that
    update a parameter in place (by their own statements)."""
    cache = getattr(pm, '_mutated_params', None)
    if cache is not None:
        return cache
    cache = {}
    for f in pm.functions.values():
        if not isinstance(f.node, (ast.FunctionDef, ast.AsyncFunctionDef)):
            continue
        al = _aliases(f)
        params = [p for p in f.params if p not in ('self', 'cls')]
        hit = set()
        for n in own_nodes(f.node):
            tgt = None
            if isinstance(n, ast.Subscript) and isinstance(n.ctx, (ast.Store, ast.Del)):
                tgt = n.value
            elif isinstance(n, ast.Call) and isinstance(n.func, ast.Attribute) and \
                    n.func.attr in MUTATORS:
                tgt = n.func.value
            if tgt is None:
                continue
            r = _root_of(tgt)
            if r in al and isinstance(tgt, ast.Name):
                for root in al[r]:
                    if root in params:
                        hit.add(root)
        for p in hit:
            cache.setdefault(f.name, []).append((params.index(p), p))
    pm._mutated_params = cache
    return cache


def _disposition(h):
    """How a handler ends: 'raise' (re-raises or raises another), 'record' (appends to an
    errors list / logs and continues), 'swallow'."""
    for x in ast.walk(h):
        if isinstance(x, ast.Raise):
            return 'raise'
    for x in ast.walk(h):
        if isinstance(x, ast.Call) and isinstance(x.func, ast.Attribute) and \
                x.func.attr in ('append', 'insert', 'add_parent', 'error', 'exit') or \
                isinstance(x, ast.Call) and unparse(x.func) in ('sys.exit', 'print'):
            return 'record'
    return 'swallow'


def handlers_of(f):
    out = set()
    for n in own_nodes(f.node):
        if isinstance(n, ast.Try):
            for h in n.handlers:
                t = unparse(h.type) if h.type is not None else '*'
                out.add('%s|%s' % (t, _disposition(h)))
    return sorted(out)


def build_reference(pm):
    from .effects import all_functions
    out = {}
    for f in all_functions(pm):
        m, h = mutations_of(pm, f), handlers_of(f)
        if m or h:
            out[f.qualname] = {'mutates': m, 'handlers': h}
    return {'note': 'per function: objects it does not own that it updates in place, and its '
                    'exception handlers with their disposition, at /repo HEAD (stonelint/mutation.py)',
            'functions': out}


_REFCACHE = {}


def load_reference():
    if REF not in _REFCACHE:
        if not os.path.exists(REF):
            return None
        with open(REF, encoding='utf-8') as fh:
            _REFCACHE[REF] = json.load(fh)['functions']
    return _REFCACHE[REF]


def run(pm, ctx, rule, patterns):
    from .model import AnalysisError
    from .ownership import select
    ctx.rule(rule, 'the functions the property rests on update in place only the caller-owned, '
                   'class-level and module-level objects they updated on the confirmed tree, and '
                   'swallow only the exceptions they swallowed there (reference/mutations.json)')
    ref = load_reference()
    if ref is None:
        raise AnalysisError('anchor=reference/mutations.json')
    known = getattr(pm, '_known_functions', None)
    n = 0
    for f in select(pm, patterns):
        q = f.qualname
        top = f
        while top.parent is not None:
            top = top.parent
        if known is not None and top.qualname not in known:
            continue            # a new function: nothing to compare with
        r = ref.get(q, {'mutates': [], 'handlers': []})
        n += 1
        cur_m = mutations_of(pm, f)
        new_m = [m for m in cur_m if m not in r['mutates'] and
                 ('passed to' in m or 'handed out' in m or
                  m.split('|')[0] not in {x.split('|')[0] for x in r['mutates']})]
        ctx.check(rule, not new_m, '%s: in-place updates as on the confirmed tree' % f.short, f.loc,
                  msg='%s now updates %s in place: an object that outlives the call (the caller\'s '
                      'argument, a class-level or module-level container) changes under its other '
                      'users' % (f.short, ', '.join(new_m)),
                  key='%s|%s|mutates|%s' % (rule, q, (new_m or [''])[0].split('|')[0]))
        cur_h = handlers_of(f)
        new_h = [h for h in cur_h if h.endswith('|swallow') and h not in r['handlers']]
        # a new swallowing handler replaces a crash by a continuation; whether that breaks the
        # property depends on what the crash was (a guard written as try/except is the same as
        # the guard): recorded, not claimed
        if new_h:
            ctx.note('%s: %s has a new handler that swallows %s (not claimed)' % (
                rule, f.short, ', '.join(h.split('|')[0] for h in new_h)))
    ctx.extra['%s_functions' % rule] = n
    ctx.floor(rule, n, 1, 'functions compared with the reference')
    # the order of updates and reads (rule <ID>-RO) covers the same functions
    from . import orderdrift
    orderdrift.run(pm, ctx, rule.replace('-MU', '-RO'), patterns)
    from . import usedef
    usedef.run(pm, ctx, rule.replace('-MU', '-RU'), patterns)
