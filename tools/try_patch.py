#!/venv/bin/python
"""Apply a patch to a scratch copy of /repo (stone/ + docs/) and run checks on it.
usage: try_patch.py <patch.diff> [PROP ...]   (default: all built properties)"""
import os, shutil, subprocess, sys
HERE = os.path.dirname(os.path.dirname(os.path.abspath(__file__)))
sys.path.insert(0, HERE)
from stonelint.selftest import make_copy
patch = sys.argv[1]
props = sys.argv[2:] or sorted(f[:3] for f in os.listdir(os.path.join(HERE, 'stonelint', 'rules')) if f.startswith('C') and f.endswith('.py'))
tmp = make_copy()
try:
    r = subprocess.run(['patch', '-p1', '-s', '-d', tmp, '-i', patch], capture_output=True, text=True)
    if r.returncode != 0:
        print('PATCH FAILED', r.stdout, r.stderr); sys.exit(3)
    for p in props:
        r = subprocess.run(['/venv/bin/python', os.path.join(HERE, 'check'), p, '--repo', tmp, '--no-write'], capture_output=True, text=True)
        keys = [l.strip()[5:] for l in r.stdout.splitlines() if l.strip().startswith('key: ')]
        err = [l for l in r.stdout.splitlines() if 'ANALYSIS-ERROR' in l]
        print('%s rc=%d %s %s' % (p, r.returncode, keys, err))
finally:
    shutil.rmtree(tmp, ignore_errors=True)
