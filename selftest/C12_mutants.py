PT = 'stone/backends/python_types.py'
OC = 'stone/backends/obj_c.py'
OT = 'stone/backends/obj_c_types.py'
OCL = 'stone/backends/obj_c_client.py'
A = 'stone/ir/api.py'
B = 'stone/backend.py'
ST = 'stone/backends/python_type_stubs.py'
JS = 'stone/backends/js_types.py'
G = 'stone/frontend/ir_generator.py'
MUTANTS = [
    dict(id='revert-F23', expect='fire', rule='C12-R1', edits=[(PT,
        "            self.emit('{}._permissioned_tagmaps = {{{}}}'.format(\n                class_name, ', '.join(repr(c) for c in sorted(all_omitted_callers))))",
        "            self.emit('{}._permissioned_tagmaps = {}'.format(class_name, all_omitted_callers))")]),
    dict(id='revert-F30', expect='fire', rule='C12-R1', edits=[(PT,
        "                recursive_processors = sorted(recursive_processors, key=_processor_sort_key)\n                for annotation_type, processor in recursive_processors:",
        "                recursive_processors = sorted(recursive_processors, key=lambda x: x[0].name)\n                for annotation_type, processor in recursive_processors:")]),
    dict(id='revert-F24', expect='fire', rule='C12-R2', edits=[(OT,
        "        self.obj_name_to_namespace = {}\n\n        rsrc_folder", "        rsrc_folder")]),
    dict(id='sort-dropped-objc-imports', expect='fire', rule='C12-R1', edits=[(OC,
        "    def _generate_imports_h(self, import_classes):\n        import_classes = list(set(import_classes))\n        import_classes.sort()\n",
        "    def _generate_imports_h(self, import_classes):\n        import_classes = list(set(import_classes))\n")]),
    dict(id='sorted-dropped-typing-imports', expect='fire', rule='C12-R1', edits=[(ST,
        "for to_import in sorted(self.import_tracker.cur_namespace_typing_imports):", "for to_import in self.import_tracker.cur_namespace_typing_imports:")]),
    dict(id='second-adhoc-import-literal', expect='fire', rule='C12-R1', edits=[(ST,
        "            self.import_tracker._register_adhoc_import(\"import datetime\")", "            self.import_tracker._register_adhoc_import(\"import datetime\")\n            self.import_tracker._register_adhoc_import(\"import time\")")]),
    dict(id='callers-loop-unsorted', expect='fire', rule='C12-R1', edits=[(PT,
        "        for omitted_caller in sorted(all_omitted_callers | {None}, key=str):", "        for omitted_caller in all_omitted_callers | {None}:")]),
    dict(id='seed-extend-by-set-difference', expect='fire', rule='C12-R1', edits=[(PT,
        "        for omitted_caller in sorted(child_omitted_callers | parent_omitted_callers, key=str):",
        "        all_omitted_callers = sorted(child_omitted_callers, key=str)\n        all_omitted_callers.extend(parent_omitted_callers - child_omitted_callers)\n        for omitted_caller in all_omitted_callers:")]),
    dict(id='seed-extra-args-via-set', expect='fire', rule='C12-R1', edits=[(JS,
        "                    for attr_key in route.attrs:\n                        if attr_key not in extra_args:\n                            continue\n", "                    for attr_key in set(route.attrs).intersection(extra_args):\n")]),
    dict(id='imports-unsorted', expect='fire', rule='C12-R4', edits=[(A,
        "        return sorted(referenced_namespaces, key=lambda n: n.name)", "        return list(referenced_namespaces)")]),
    dict(id='normalize-drops-datatype-sort', expect='fire', rule='C12-R3', edits=[(A,
        "        self.data_types.sort(key=lambda data_type: data_type.name)\n", "")]),
    dict(id='new-class-level-cache', expect='fire', rule='C12-R2', edits=[(JS,
        "class JavascriptTypesBackend(CodeBackend):\n", "class JavascriptTypesBackend(CodeBackend):\n    seen_types = {}\n")]),
    dict(id='buffer-not-cleared-on-entry', expect='fire', rule='C12-R2', edits=[(B,
        "        self.logger.info('Generating %s', full_path)\n        self.clear_output_buffer()\n        yield", "        self.logger.info('Generating %s', full_path)\n        yield")]),
    dict(id='benign-sorted-list-set', expect='silent', edits=[(OC,
        "    def _generate_imports_h(self, import_classes):\n        import_classes = list(set(import_classes))\n        import_classes.sort()\n",
        "    def _generate_imports_h(self, import_classes):\n        import_classes = sorted(set(import_classes))\n")]),
    dict(id='benign-set-membership-only', expect='silent', edits=[(PT,
        "            annotation_types_seen = set()", "            annotation_types_seen = set()  # membership tests only")]),
]
