#!/venv/bin/python
"""Run every check on scratch copies of /repo with a behaviour-preserving
patch applied (sub-agent "benign" rounds).  Any VIOLATION is a false alarm of
the machinery (or the patch is not behaviour-preserving after all: triage).

usage: try_benign.py <root> [pattern]      root/<G>/out/<k>/patch.diff
"""
import json
import os
import shutil
import subprocess
import sys
from concurrent.futures import ProcessPoolExecutor

HERE = os.path.dirname(os.path.dirname(os.path.abspath(__file__)))
sys.path.insert(0, HERE)
from stonelint.selftest import make_copy  # noqa: E402


def one(item):
    name, patch = item
    tmp = make_copy()
    try:
        r = subprocess.run(['patch', '-p1', '-s', '-d', tmp, '-i', patch],
                           capture_output=True, text=True)
        if r.returncode != 0:
            return name, 'PATCH-FAILED', [r.stdout[-300:] + r.stderr[-300:]]
        r = subprocess.run(['/venv/bin/python', os.path.join(HERE, 'check'), '--all', '--repo',
                            tmp, '--no-write'], capture_output=True, text=True)
        keys = [l.strip()[5:] for l in r.stdout.splitlines() if l.strip().startswith('key: ')]
        errs = [l.strip() for l in r.stdout.splitlines() if 'ANALYSIS-ERROR' in l]
        return name, 'rc=%d' % r.returncode, keys + errs
    finally:
        shutil.rmtree(tmp, ignore_errors=True)


def main():
    root = sys.argv[1]
    pat = sys.argv[2] if len(sys.argv) > 2 else ''
    items = []
    for g in sorted(os.listdir(root)):
        out = os.path.join(root, g, 'out')
        if not os.path.isdir(out):
            continue
        for k in sorted(os.listdir(out)):
            p = os.path.join(out, k, 'patch.diff')
            if os.path.exists(p) and pat in '%s-%s' % (g, k):
                items.append(('%s-%s' % (g, k), p))
    bad = 0
    with ProcessPoolExecutor(max_workers=8) as ex:
        for name, rc, keys in ex.map(one, items):
            flag = '' if rc == 'rc=0' else '   <<<<<<'
            if rc != 'rc=0':
                bad += 1
            print('%s %s%s' % (name, rc, flag))
            for k in keys:
                print('      ', k)
    print('%d variants, %d with a non-zero check' % (len(items), bad))


if __name__ == '__main__':
    main()
