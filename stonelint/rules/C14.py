"""C14 -- generated Python client methods send the right route and argument.

Structural part (DESIGN 4/C14): the method signature, the positional
construction of the argument and the struct constructor enumerate the same
field list in the same order; referenced generated names agree with their
python_types definitions; the deprecation warning and the request call are
emitted on every path with the right arguments.  The behaviour of the emitted
method when called is not decided.
"""
import ast

from .. import totality
from ..dataflow import defs
from ..lattice import ir_family, reaching_classes
from ..model import call_name, own_nodes, unparse
from ..pathcond import assigned_alternatives, path_info
from ..paths import enumerate_paths, path_calls
from ._pynames import norm

PROP = 'C14'
PC = 'stone.backends.python_client.PythonClientBackend'
PT = 'stone.backends.python_types.PythonTypesBackend'
PH = 'stone.backends.python_helpers'
EXPLANATION = (
    'Sibling agreement between python_client and python_types. R1: '
    '_generate_route_method_decl, the positional construction in _generate_route_helper and '
    'python_types._generate_struct_class_init all enumerate <struct>.all_fields (required before '
    'optional follows from C02-R5); the signature gives a parameter no default exactly when the '
    'field is neither nullable nor defaulted, `=None` when nullable, `=<default>` otherwise, and '
    'a tag-reference default is qualified with the namespace of the union it belongs to. R2: the '
    'route object, struct class and namespace module are referenced with the formatter chains '
    'python_types defines them with; the method is named <fmt_underscores(ns)>_<fmt_func(route, '
    'version)>. R3: on every path of _generate_route_helper the deprecation warning hook and the '
    'request call are emitted; the request passes (route object, namespace name, arg, f|None) '
    'with f exactly for upload style; `return None` exactly for a Void result; `import warnings` '
    'is emitted when any namespace has a deprecated route; literal defaults are rendered by '
    'pprint/repr. R4: remove_aliases_from_api strips aliases from fields and route types and '
    'clears the alias registries together.'
    " R5 (generator totality, stonelint.totality): python_client completes for every route in the property's domain -- IR attribute reads defined for every reaching class (e.g. the error type's fields), raises/asserts unreachable or recorded preconditions."
    ' RC (call-condition drift, stonelint.effects.run_calls): for every call of a repository or imported-library function in the functions the property is anchored in, the path conditions of its occurrences are compared with reference/effects.json by truth table; an assignment under which the function used to make the call and now completes without it is a violation (tests on memo tables, emptiness of the iterated collection and earlier refusals excepted; re-spelled conditions are not claimed).'
    ' MK (memo-key rule, stonelint.memo): a memo table or done-set the reference tree does not have must be keyed by every access path the skipped code reads, injectively and type-aware.'
    ' RI (interface drift, stonelint.interface): constants and tables (folded values), compiled regular expressions (witness text), parameter defaults, special methods, base classes and caching decorators of the modules the property rests on are compared with reference/interface.json; only a concrete difference in what is computed is reported.'
    ' MU (mutation drift, stonelint.mutation): the functions the property rests on update in place only the caller-owned, class-level and module-level objects they updated on the confirmed tree, and have no new handler that swallows an exception (reference/mutations.json).')
ASSUMPTIONS = ['C02-R5 (required fields precede optional ones in all_fields) is checked under C02',
               'pprint.pformat of a str/int/float/bool/None is a valid Python literal of the value']


TOTALITY_PRECONDITIONS = {
    ('backends.python_helpers.class_name_for_annotation_type',
     'assert isinstance(annotation_type, AnnotationType)'):
        'not reached from python_client (annotation classes belong to python_types)',
    ('backends.python_client.PythonClientBackend._generate_route_method_decl', 'raise AssertionError'):
        'C14 quantifies over routes whose argument is a struct, union or Void; python_client '
        'refuses every other argument type by design',
    ('backends.python_client.PythonClientBackend._generate_route_helper', 'raise AssertionError'):
        'C14 quantifies over routes whose argument is a struct, union or Void',
    ('backends.python_client.PythonClientBackend._generate_route_helper',
     'assert response_binary_body'):
        'download_to_file=True is passed only under route.attrs.get(\'style\') == \'download\' '
        '(both call sites, checked by C14-R5 call-site rule below)',
}

def run(pm, ctx):
    for r, t in (('C14-R1', 'signature order = construction order = constructor order; default '
                            'truth table'),
                 ('C14-R2', 'referenced generated names agree with python_types definitions'),
                 ('C14-R3', 'warning, request call and return emitted on every path'),
                 ('C14-R4', 'alias removal for non-alias-preserving backends')):
        ctx.rule(r, t)
    irf = ir_family(pm)
    decl = pm.func(PC + '._generate_route_method_decl')
    helper = pm.func(PC + '._generate_route_helper')
    init = pm.func(PT + '._generate_struct_class_init')

    # ---------------- R1
    its = [unparse(l.iter) for l in own_nodes(decl.node) if isinstance(l, ast.For)]
    ctx.check('C14-R1', its == ['arg_data_type.all_fields'],
              'signature enumerates arg_data_type.all_fields', decl.loc,
              msg='the method signature enumerates %s' % its, key='C14-R1|decl-source')
    gl = [c for c in own_nodes(helper.node) if isinstance(c, ast.Call) and
          call_name(c) == 'generate_multiline_list' and c.args and
          isinstance(c.args[0], ast.ListComp)]
    ok = len(gl) == 1 and unparse(gl[0].args[0].generators[0].iter) == \
        'arg_data_type.all_fields' and unparse(gl[0].args[0].elt) == 'f.name' and \
        not gl[0].args[0].generators[0].ifs
    ctx.check('C14-R1', ok, 'argument constructed positionally from all of all_fields', helper.loc,
              msg='the argument struct is no longer built positionally from all_fields',
              key='C14-R1|construction-source')
    its = [unparse(l.iter) for l in own_nodes(init.node) if isinstance(l, ast.For)]
    ctx.check('C14-R1', its[:1] == ['data_type.all_fields'],
              'struct constructor parameters enumerate data_type.all_fields', init.loc,
              msg='generated __init__ parameters enumerate %s' % its[:1],
              key='C14-R1|ctor-source')
    # the three use the same parameter name for a field
    pi = path_info(decl.node)
    appends = [c for c in own_nodes(decl.node) if isinstance(c, ast.Call) and
               unparse(c.func) == 'args.append' and
               any(isinstance(l, ast.For) for l in pi.loops_at(c))]
    table = {}
    for c in appends:
        a = c.args[0]
        if isinstance(a, ast.Name):
            a = defs(decl.node).resolve(a)
        ats = {unparse(e): pol for e, pol in pi.at(c)}
        kind = unparse(a)
        table[kind] = (ats.get('is_nullable_type(field.data_type)'), ats.get('field.has_default'))
    want = {"'{}=None'.format(field.name)": (True, None),
            "'{}={}'.format(field.name, self._generate_python_value(ns, field.default))":
                (False, True),
            'field.name': (False, False)}
    ctx.check('C14-R1', table == want, 'parameter kinds: nullable -> =None; defaulted -> =default; '
              'otherwise positional', decl.loc,
              msg='signature parameter kinds are decided as %s' % table,
              key='C14-R1|%s|kinds' % decl.qualname)
    nsv = {unparse(leaf): [(unparse(e), p) for e, p in pi.at(leaf)
                           if 'is_user_defined_type' in unparse(e)]
           for leaf, _st in assigned_alternatives(decl.node, 'ns')}
    ctx.check('C14-R1', nsv == {'field.data_type.namespace':
                                [('is_user_defined_type(field.data_type)', True)],
                                'None': [('is_user_defined_type(field.data_type)', False)]},
              'a tag default is qualified with the namespace of the field\'s own union type',
              decl.loc, msg='tag defaults are qualified with %s' % nsv,
              key='C14-R1|%s|default-ns' % decl.qualname)
    gpv = pm.func(PC + '._generate_python_value')
    rets = [unparse(r.value) for r in own_nodes(gpv.node) if isinstance(r, ast.Return)]
    tagret = [r for r in rets if r != 'fmt_obj(value)']
    # <module of the union>.<class of the union>.<tag>; which object names the union (the
    # reference itself or the union behind an alias) is decided by R9
    ctx.check('C14-R1', 'fmt_obj(value)' in rets and len(tagret) == 1 and
              tagret[0].startswith("'{}.{}.{}'.format(fmt_namespace(") and
              'class_name_for_data_type(' in tagret[0] and
              tagret[0].endswith('fmt_var(value.tag_name))'),
        'defaults render as <ns>.<Union>.<tag> or the literal', gpv.loc,
        msg='client default rendering changed: %s' % rets, key='C14-R1|%s' % gpv.qualname)
    fo = pm.func(PH + '.fmt_obj')
    rets_ = [r for r in own_nodes(fo.node) if isinstance(r, ast.Return)]
    one_line = len(rets_) == 1 and isinstance(rets_[0].value, ast.Call) and \
        unparse(rets_[0].value.func) == 'repr' and unparse(rets_[0].value.args[0]) == 'o'
    ctx.check('C14-R1', one_line,
              'fmt_obj renders a literal with repr (escaping preserved, single line)', fo.loc,
              msg='fmt_obj renders literals with %s: either escaping is lost (quotes, backslashes '
                  'in a string default) or the literal can span several lines (pprint with a '
                  'narrow width wraps strings at spaces), which emit() refuses' % (
                      unparse(rets_[0].value) if rets_ else '?'),
              key='C14-R1|%s' % fo.qualname)

    # ---------------- R2
    dh = defs(helper.node)
    args_list = [v for v in dh.all_values('args') if isinstance(v, ast.List)]
    ok = len(args_list) == 1 and [unparse(e) for e in args_list[0].elts] == [
        "'{}.{}'.format(fmt_namespace(namespace.name), fmt_func(route.name, version=route.version))",
        '"\'{}\'".format(namespace.name)', "'arg'"]
    ctx.check('C14-R2', ok, 'request receives <ns module>.<route object>, the namespace name, arg',
              helper.loc, msg='request arguments changed: %s' % (
                  [unparse(e) for e in args_list[0].elts] if args_list else None),
              key='C14-R2|%s|request-args' % helper.qualname)
    gr = pm.func(PT + '._generate_routes')
    defn = [norm(pm, gr.module, c) for c in own_nodes(gr.node) if isinstance(c, ast.Call) and
            call_name(c) == 'fmt_func']
    ref = [norm(pm, helper.module, c) for c in own_nodes(helper.node) if isinstance(c, ast.Call)
           and call_name(c) == 'fmt_func']
    ctx.check('C14-R2', defn and ref and all(d == defn[0] for d in defn) and
              all(r == defn[0] for r in ref),
              'route object reference == python_types definition (%s)' % (defn[0],), helper.loc,
              msg='client references route objects as %s, python_types defines %s' % (ref, defn),
              key='C14-R2|route-object')
    before = [k.value for c in own_nodes(helper.node) if isinstance(c, ast.Call) and
              call_name(c) == 'generate_multiline_list' for k in c.keywords if k.arg == 'before']
    ok = any(unparse(b) == "'arg = {}.{}'.format(fmt_namespace(arg_data_type.namespace.name), "
                           "fmt_class(arg_data_type.name))" for b in before)
    ctx.check('C14-R2', ok, 'argument struct referenced as <its own ns module>.<fmt_class(name)>',
              helper.loc, msg='the argument struct class is referenced differently',
              key='C14-R2|struct-class')
    mn = [unparse(v) for v in defs(decl.node).all_values('method_name')]
    nn = [unparse(v) for v in defs(decl.node).all_values('namespace_name')]
    ctx.check('C14-R2', mn == ['fmt_func(route.name + method_name_suffix, version=route.version)']
              and nn == ['fmt_underscores(namespace.name)'] and
              any(isinstance(c, ast.Call) and call_name(c) == 'generate_multiline_list' and
                  "'def {}_{}'.format(namespace_name, method_name)" in unparse(c)
                  for c in own_nodes(decl.node)),
              'method name = <namespace>_<route>[_vN]', decl.loc,
              msg='method naming changed: %s / %s' % (mn, nn), key='C14-R2|method-name')
    gi = pm.func(PC + '._generate_imports')
    ctx.check('C14-R2', any(isinstance(c, ast.Call) and call_name(c) == 'emit' and
                            'fmt_namespace(namespace.name)' in unparse(c) and
                            'self.args.types_package' in unparse(c) for c in own_nodes(gi.node)),
              'namespace modules are imported under fmt_namespace(name)', gi.loc,
              msg='namespace module imports changed', key='C14-R2|imports')
    rs = pm.func(PC + '._generate_routes')
    ctx.check('C14-R2', any(isinstance(c, ast.Call) and call_name(c) == 'check_route_name_conflict'
                            for c in own_nodes(rs.node)),
              'route name conflicts are checked before emitting methods', rs.loc,
              msg='check_route_name_conflict is no longer called', key='C14-R2|conflict')

    # ---------------- R3
    paths = enumerate_paths(helper.node)
    done = [p for p in paths if p.end in ('fall', 'return')]
    ok_warn = ok_req = bool(done)
    for p in done:
        calls = path_calls(p)
        ok_warn &= any(call_name(c) == '_maybe_generate_deprecation_warning' for c in calls)
        ok_req &= any(call_name(c) == 'generate_multiline_list' and len(c.args) > 1 and
                      unparse(c.args[1]) == "'r = self.request'" for c in calls)
    ctx.check('C14-R3', ok_warn, 'every path of _generate_route_helper emits the deprecation '
              'warning hook (%d paths)' % len(done), helper.loc,
              msg='a path of _generate_route_helper skips the deprecation warning',
              key='C14-R3|%s|warning' % helper.qualname)
    ctx.check('C14-R3', ok_req, 'every path emits exactly the request call', helper.loc,
              msg='a path of _generate_route_helper does not emit the request call',
              key='C14-R3|%s|request' % helper.qualname)
    pi = path_info(helper.node)
    ap = {unparse(c.args[0]): [(unparse(e), pol) for e, pol in pi.at(c)
                               if unparse(e) == 'request_binary_body']
          for c in own_nodes(helper.node) if isinstance(c, ast.Call) and
          unparse(c.func) == 'args.append'}
    ctx.check('C14-R3', ap == {"'f'": [('request_binary_body', True)],
                               "'None'": [('request_binary_body', False)]},
              'fourth request argument is f exactly for upload-style routes', helper.loc,
              msg='request body argument is decided as %s' % ap,
              key='C14-R3|%s|body' % helper.qualname)
    rb = [unparse(v) for v in dh.all_values('request_binary_body')]
    ctx.check('C14-R3', rb == ["route.attrs.get('style') == 'upload'"],
              'upload style is attrs.style == "upload"', helper.loc,
              msg='request_binary_body = %s' % rb, key='C14-R3|%s|upload' % helper.qualname)
    retn = {}
    for c in own_nodes(helper.node):
        if isinstance(c, ast.Call) and call_name(c) == 'emit' and c.args and \
                unparse(c.args[0]).startswith("'return "):
            voids = [pol for e, pol in pi.at(c) if unparse(e) == 'is_void_type(result_data_type)']
            retn.setdefault(unparse(c.args[0]), []).append(voids)
    ctx.check('C14-R3', retn == {"'return None'": [[True], [True]], "'return r[0]'": [[False]],
                                 "'return r'": [[False]]},
              '`return None` exactly for a Void result, else the request result', helper.loc,
              msg='return emission is decided as %s' % retn,
              key='C14-R3|%s|return' % helper.qualname)
    argb = {}
    for n in own_nodes(helper.node):
        if isinstance(n, ast.Call) and call_name(n) == 'emit' and n.args and \
                unparse(n.args[0]) == "'arg = None'":
            argb['void'] = reaching_classes(pm, irf, helper, n, 'arg_data_type')
        if isinstance(n, ast.Call) and call_name(n) == 'generate_multiline_list' and n.args and \
                isinstance(n.args[0], ast.ListComp):
            argb['struct'] = reaching_classes(pm, irf, helper, n, 'arg_data_type')
        if isinstance(n, ast.Raise):
            argb['raise'] = reaching_classes(pm, irf, helper, n, 'arg_data_type')
    ctx.check('C14-R3', argb.get('void') == {'Void'} and argb.get('struct') == {'Struct'} and
              'Union' not in argb.get('raise', set()) and 'raise' in argb,
              'argument: None for Void, constructed for Struct, passed through for Union', helper.loc,
              msg='argument preparation dispatch changed: %s' % {k: sorted(v) for k, v in
                                                                 argb.items()},
              key='C14-R3|%s|arg-dispatch' % helper.qualname)
    da = {}
    for c in own_nodes(decl.node):
        if isinstance(c, ast.Call) and unparse(c.func) == 'args.append' and \
                unparse(c.args[0]) == "'arg'":
            da['union'] = reaching_classes(pm, irf, decl, c, 'arg_data_type')
    ctx.check('C14-R3', da.get('union') == {'Union'},
              'a union argument is taken as the single parameter `arg`', decl.loc,
              msg='`arg` parameter is emitted for %s' % da, key='C14-R3|%s|union-arg'
              % decl.qualname)
    # import warnings when any namespace has a deprecated route
    gen = pm.func(PC + '.generate')
    pi = path_info(gen.node)
    iw = [c for c in own_nodes(gen.node) if isinstance(c, ast.Call) and call_name(c) == 'emit' and
          c.args and unparse(c.args[0]) == "'import warnings'"]
    ok = False
    if len(iw) == 1:
        loops = [unparse(l.iter) for l in pi.loops_at(iw[0])]
        ats = [(unparse(e), pol) for e, pol in pi.at(iw[0])]
        ok = loops == ['api.namespaces.values()', 'namespace.routes'] and \
            ats == [('route.deprecated', True)]
        outer = pi.loops_at(iw[0])[0] if pi.loops_at(iw[0]) else None
        if outer is not None:
            for b in ast.walk(outer):
                if isinstance(b, ast.Break):
                    inner = any(isinstance(p, ast.For) and p is not outer
                                for p in _parents_until(b, outer))
                    if not inner:
                        guards = [(unparse(e), pol) for e, pol in pi.at(b)]
                        ok &= ('found_deprecated', True) in guards
    if len(iw) == 1 and not ok:
        # the same scan written as one expression: `if any(route.deprecated for namespace in
        # api.namespaces.values() for route in namespace.routes): emit('import warnings')`
        for e, pol in pi.at(iw[0]):
            if pol and isinstance(e, ast.Call) and call_name(e) == 'any' and e.args and \
                    isinstance(e.args[0], (ast.GeneratorExp, ast.ListComp)):
                g = e.args[0]
                its = [unparse(x.iter) for x in g.generators]
                ok = its == ['api.namespaces.values()', 'namespace.routes'] and \
                    unparse(g.elt) == 'route.deprecated' and \
                    not any(x.ifs for x in g.generators) and not pi.loops_at(iw[0])
    ctx.check('C14-R3', ok, '`import warnings` is emitted when any route of any namespace is '
              'deprecated (the outer scan stops only once one was found)', gen.loc,
              msg='the scan for deprecated routes can stop before every namespace was looked at: '
                  'a deprecated route in a later namespace gets no `import warnings`',
              key='C14-R3|%s|import-warnings' % gen.qualname)
    mw = pm.func(PC + '._maybe_generate_deprecation_warning')
    pi = path_info(mw.node)
    em = [c for c in own_nodes(mw.node) if isinstance(c, ast.Call) and
          call_name(c) == 'generate_multiline_list']
    ctx.check('C14-R3', len(em) == 1 and [(unparse(e), p) for e, p in pi.at(em[0])] ==
              [('route.deprecated', True)] and "before='warnings.warn'" in unparse(em[0]),
              'warnings.warn(..., DeprecationWarning) is emitted exactly for deprecated routes',
              mw.loc, msg='deprecation warning emission changed', key='C14-R3|%s' % mw.qualname)

    # ---------------- R4
    ra = pm.func('stone.backend.remove_aliases_from_api')
    src = ' ; '.join(unparse(s) for s in own_nodes(ra.node) if isinstance(s, ast.stmt))
    need = ['strip_alias(field)', 'strip_alias(route.arg_data_type)',
            'strip_alias(route.result_data_type)', 'strip_alias(route.error_data_type)',
            'route.arg_data_type = route.arg_data_type.data_type',
            'route.result_data_type = route.result_data_type.data_type',
            'route.error_data_type = route.error_data_type.data_type',
            'namespace.aliases = []', 'namespace.alias_by_name = {}',
            'curr_type.data_type = resolve_aliases(curr_type.data_type)']
    miss = [x for x in need if x not in src]
    ctx.check('C14-R4', not miss, 'remove_aliases_from_api resolves chains, strips aliases from '
              'fields and the three route types, clears both alias registries', ra.loc,
              msg='remove_aliases_from_api lost %s' % miss, key='C14-R4|%s' % ra.qualname)
    ex = pm.func('stone.compiler.Compiler._execute_backend_on_spec')
    pi = path_info(ex.node)
    calls = [c for c in own_nodes(ex.node) if isinstance(c, ast.Call) and
             call_name(c) == 'remove_aliases_from_api']
    ctx.check('C14-R4', len(calls) == 1 and ('backend.preserve_aliases', False) in [
        (unparse(e), p) for e, p in pi.at(calls[0])],
        'aliases are removed exactly for backends that do not preserve them', ex.loc,
        msg='alias removal is no longer tied to preserve_aliases', key='C14-R4|%s' % ex.qualname)
    pcb = pm.cls(PC)
    ctx.check('C14-R4', pm.lookup_class_attr(pcb, 'preserve_aliases') is not None and
              unparse(pm.lookup_class_attr(pcb, 'preserve_aliases')) == 'False',
              'python_client does not preserve aliases', pcb.module.relpath,
              msg='python_client now preserves aliases but has no alias handling',
              key='C14-R4|preserve')
    totality.run_pack(pm, ctx, 'C14-R5', ('stone.backends.python_client',
                                              'stone.backends.python_helpers'),
                      False, 'python_client', TOTALITY_PRECONDITIONS, (10, 3, 0))

    client_module_names(pm, ctx)
    ctx.import_rules(pm, 'C02', {'C02-R5'}, 'C14-R6',
                     'required / optional field listings of the IR are complete, parent first, with '
                     'complementary predicates (shared with C02-R5)')
    ctx.import_rules(pm, 'C02', {'C02-R12'}, 'C14-R11',
                     'the unwrap helpers of the IR peel exactly the wrappers their names say '
                     '(shared with C02-R12)')
    from ..effects import run_decisions
    from ..ownership import OWN
    run_decisions(pm, ctx, 'C14-RD', OWN['C14'])
    from .. import exprdrift
    exprdrift.run(pm, ctx, 'C14-RE', OWN['C14'])
    from ..effects import run_calls
    run_calls(pm, ctx, 'C14-RC', OWN['C14'])
    from .. import memo
    memo.run(pm, ctx, 'C14-MK', OWN['C14'])
    from .. import interface
    interface.run(pm, ctx, 'C14-RI', OWN['C14'])
    from .. import mutation
    mutation.run(pm, ctx, 'C14-MU', OWN['C14'])


def _parents_until(node, stop):
    n = getattr(node, '_parent', None)
    while n is not None and n is not stop:
        yield n
        n = getattr(n, '_parent', None)


def client_module_names(pm, ctx):
    """R7-R10: the names the generated client refers to exist where it looks for them
    (found after the fifth seeding round; F53-F56)."""
    # R7: every namespace whose module the route methods name is imported
    ctx.rule('C14-R7', 'the client imports the module of every namespace it emits route methods for')
    gi = pm.func(PC + '._generate_imports')
    conds = []
    for n in own_nodes(gi.node):
        if isinstance(n, ast.Call) and call_name(n) == 'emit' and 'import' in unparse(n):
            conds = [unparse(e) for e, pol in path_info(gi.node).at(n) if pol]
    tested = set()
    for c in conds:
        for x in ast.walk(ast.parse(c, mode='eval')):
            if isinstance(x, ast.Attribute):
                tested.add(x.attr)
    ctx.check('C14-R7', not conds or 'routes' in tested,
              'the import of a namespace module does not depend on the namespace having data types',
              gi.loc,
              msg='python_client imports a namespace module only under %s, but the route methods '
                  'name <namespace>.<route> for every namespace that has routes: a namespace with '
                  'routes and no data types gives NameError when its method is called' % conds,
              key='C14-R7|%s|import-condition' % gi.qualname)
    # R8: the order of constructor arguments is the same with and without aliases
    ctx.rule('C14-R8', 'required / optional classification of a field does not depend on whether '
                       'aliases were stripped (python_types keeps them, python_client does not)')
    pt_keep = unparse(pm.lookup_class_attr(pm.cls(PT), 'preserve_aliases') or ast.Constant(False))
    pc_keep = unparse(pm.lookup_class_attr(pm.cls(PC), 'preserve_aliases') or ast.Constant(False))
    for prop in ('all_required_fields', 'all_optional_fields'):
        f = pm.func('stone.ir.data_types.Struct.' + prop)
        src = ' '.join(unparse(n) for n in own_nodes(f.node, include_nested=True)
                       if isinstance(n, ast.Call))
        opaque = 'is_nullable_type(f.data_type)' in src and 'unwrap' not in src
        ctx.check('C14-R8', pt_keep == pc_keep or not opaque,
                  'Struct.%s sees a nullable type through aliases' % prop, f.loc,
                  msg='Struct.%s tests is_nullable_type on the declared type: a field whose type '
                      'is an alias of a nullable type is required for python_types (aliases kept, '
                      'constructor order) and optional for python_client (aliases stripped, '
                      'positional construction): the client passes the arguments in another order '
                      'than the constructor takes them' % prop,
                  key='C14-R8|stone.ir.data_types.Struct.%s|alias-opaque' % prop)
    # R9: a name qualified with a namespace module is the name of something of that namespace
    ctx.rule('C14-R9', 'a class name is qualified with the namespace of the very object it names')
    n = 0
    for f in pm.funcs_in('stone.backends.python_client'):
        for c in own_nodes(f.node):
            if not (isinstance(c, ast.Call) and isinstance(c.func, ast.Attribute) and
                    c.func.attr == 'format'):
                continue
            ns_args = [a for a in c.args if isinstance(a, ast.Call) and
                       call_name(a) == 'fmt_namespace']
            cls_args = [a for a in c.args if isinstance(a, ast.Call) and
                        call_name(a) in ('class_name_for_data_type', 'fmt_class')]
            if len(ns_args) != 1 or len(cls_args) != 1:
                continue
            n += 1
            owner = unparse(ns_args[0].args[0])          # X.namespace.name / namespace.name
            named = unparse(cls_args[0].args[0])
            named = named[:-5] if named.endswith('.name') else named
            ok = owner == '%s.namespace.name' % named
            ctx.check('C14-R9', ok, '%s: %s qualified by its own namespace' % (f.short, named),
                      '%s:%d' % (f.module.relpath, c.lineno),
                      msg='%s qualifies the class name of %s with %s: when the two differ (a union '
                          'reached through an alias of another namespace) the client names a class '
                          'that module does not define' % (f.short, named, owner),
                      key='C14-R9|%s|%s' % (f.qualname, named))
    ctx.floor('C14-R9', n, 1, 'namespace-qualified class names in python_client')
    # R10: every method name the client emits is covered by the name-conflict check
    ctx.rule('C14-R10', 'method-name suffixes the client adds are part of the route-name conflict '
                        'check')
    suffixes = set()
    for f in pm.funcs_in('stone.backends.python_client'):
        for c in own_nodes(f.node):
            if isinstance(c, ast.Call):
                for k in c.keywords:
                    if k.arg == 'method_name_suffix' and isinstance(k.value, ast.Constant) and \
                            k.value.value:
                        suffixes.add(k.value.value)
    chk = pm.func(PH + '.check_route_name_conflict')
    src = unparse(chk.node)
    for sfx in sorted(suffixes):
        ctx.check('C14-R10', repr(sfx) in src or sfx in src,
                  'the %s variant of a method name is checked for conflicts' % sfx, chk.loc,
                  msg='python_client also emits <route>%s for download routes, but '
                      'check_route_name_conflict only compares the plain names: a route named '
                      '<x>%s next to a download route <x> yields two methods of one name, the '
                      'second silently replacing the first' % (sfx, sfx),
                  key='C14-R10|%s|%s' % (chk.qualname, sfx))
    ctx.floor('C14-R10', len(suffixes), 1, 'method-name suffixes in python_client')
