#!/venv/bin/python
"""Regenerate reference/enforcement_sites.json from the current tree.  Run by
hand only, after the counts were confirmed by reading; the checks never write
this file."""
import ast, json, os, sys
HERE = os.path.dirname(os.path.dirname(os.path.abspath(__file__)))
sys.path.insert(0, HERE)
from stonelint.model import Program
from stonelint.rules.C01 import enforcement_sites
pm = Program('/repo', alpha=False)
sites = enforcement_sites(pm)
json.dump({'note': 'per function: number of error-reporting sites (raise InvalidSpec, '
                   'self.errors.append/insert, raise via helper) confirmed at /repo HEAD',
           'sites': sites}, open(os.path.join(HERE, 'reference', 'enforcement_sites.json'), 'w'),
          indent=1, sort_keys=True)
print(len(sites), 'functions,', sum(sites.values()), 'sites')

# locals of every function, for alpha-normalisation (stonelint/alpha.py)
from stonelint import alpha
pm0 = Program('/repo', alpha=False)
ref = alpha.build_reference({name: m.tree for name, m in pm0.modules.items()})
json.dump({'note': 'per function: its locals in first-binding order with the descriptor of their '
                   'bindings at /repo HEAD; used to undo pure renames of locals before the rules run',
           'functions': ref}, open(os.path.join(HERE, 'reference', 'locals.json'), 'w'),
          indent=0, sort_keys=True)
print(len(ref), 'functions with locals')

# refusal conditions per layer (stonelint/conddrift.py)
from stonelint import conddrift
pm1 = Program('/repo')
cond = {}
for layer, (prefixes, excs, kw) in conddrift.LAYERS.items():
    cond[layer] = conddrift.conditions(pm1, prefixes, excs, **kw)
    print(layer, len(cond[layer]), 'refusal sites')
json.dump(dict(cond, note='per refusal site (function|exception|message|ordinal): the canonical '
                          'path condition at /repo HEAD; see stonelint/conddrift.py'),
          open(os.path.join(HERE, 'reference', 'conditions.json'), 'w'), indent=0, sort_keys=True)

# decisions of every function (stonelint/conddrift.py)
allf = []
def _add(f):
    allf.append(f)
    for g in f.nested.values():
        _add(g)
for f in pm1.functions.values():
    if f.parent is None:
        _add(f)
dec = conddrift.decisions(pm1, allf)
cpath = os.path.join(HERE, 'reference', 'conditions.json')
d = json.load(open(cpath))
d['decisions'] = dec
json.dump(d, open(cpath, 'w'), indent=0, sort_keys=True)
print(len(dec), 'functions with tests,', sum(len(v) for v in dec.values()), 'tests')

# expression fingerprints of every function (stonelint/exprdrift.py)
from stonelint import exprdrift
ex = exprdrift.build(pm1)
ex['note'] = 'per function: attribute names, variable reads, simple statements, calls and integer ' \
             'literals at /repo HEAD; see stonelint/exprdrift.py'
json.dump(ex, open(os.path.join(HERE, 'reference', 'expressions.json'), 'w'), indent=0,
          sort_keys=True)
print(len(ex['functions']), 'function fingerprints')

# call conditions of every function (stonelint/conddrift.py, run_calls)
cc = conddrift.call_conditions(pm1, allf)
d = json.load(open(cpath))
d['calls'] = cc
json.dump(d, open(cpath, 'w'), indent=0, sort_keys=True)
print(len(cc), 'functions with tracked calls,', sum(len(v) for v in cc.values()), 'call texts')

# memo tables / done-sets of every function (stonelint/memo.py)
from stonelint import memo
inv = memo.inventory(pm1, allf)
d = json.load(open(cpath))
d['memo'] = inv
json.dump(d, open(cpath, 'w'), indent=0, sort_keys=True)
print(len(inv), 'functions with memo tables / registries')

# spec grammar and lexer tables (stonelint/grammar.py)
from stonelint import grammar
gref = grammar.build_reference(pm1)
json.dump(gref, open(os.path.join(HERE, 'reference', 'grammar.json'), 'w'), indent=0, sort_keys=True)
for lang in grammar.LANGS:
    print(lang, len(gref[lang]['grammar']['productions']), 'productions,',
          sum(len(v) for v in gref[lang]['lexer']['rules'].values()), 'lexer rules')

# inventory of functions (stonelint/inline.py: a function that is not in it is "new")
from stonelint.inline import _func_table
ft = _func_table({name: m.tree for name, m in pm0.modules.items()})
json.dump({'note': 'qualified names of the top-level functions and methods at /repo HEAD; a '
                   'function outside this list is new and is inlined into its callers before '
                   'the rules run (stonelint/inline.py)',
           'functions': sorted(ft),
           'params': {q: [x.arg for x in v[0].args.posonlyargs + v[0].args.args]
                      for q, v in sorted(ft.items())},
           'constants': {name: sorted(st.targets[0].id for st in m.tree.body
                                      if isinstance(st, ast.Assign) and len(st.targets) == 1 and
                                      isinstance(st.targets[0], ast.Name))
                         for name, m in pm0.modules.items()}},
          open(os.path.join(HERE, 'reference', 'functions.json'), 'w'),
          indent=0)
print(len(ft), 'functions in the inventory')

# path formulas of every effect of every function (stonelint/effects.py)
from stonelint import effects
eff = effects.build(pm1)
json.dump({'note': 'per function and effect (raise / return / flow / assignment / call statement / '
                   'tracked call): the path formula of each occurrence at /repo HEAD; see '
                   'stonelint/effects.py', 'effects': eff},
          open(os.path.join(HERE, 'reference', 'effects.json'), 'w'), indent=0, sort_keys=True)
print(len(eff), 'functions with effects,', sum(len(v) for v in eff.values()), 'effects')

# interface of modules, classes and functions (stonelint/interface.py)
from stonelint import interface
iref = interface.build_reference(pm1)
json.dump(iref, open(os.path.join(HERE, 'reference', 'interface.json'), 'w'), indent=0, sort_keys=True)
print(len(iref['modules']), 'modules,', len(iref['classes']), 'classes,', len(iref['functions']),
      'functions in the interface reference')

# in-place updates and exception handlers of every function (stonelint/mutation.py)
from stonelint import mutation
mref = mutation.build_reference(pm1)
json.dump(mref, open(os.path.join(HERE, 'reference', 'mutations.json'), 'w'), indent=0, sort_keys=True)
print(len(mref['functions']), 'functions with in-place updates or handlers')

# order of updates and reads of one variable (stonelint/orderdrift.py)
from stonelint import orderdrift
oref = orderdrift.build_reference(pm1)
json.dump(oref, open(os.path.join(HERE, 'reference', 'order.json'), 'w'), indent=0, sort_keys=True)
from stonelint import usedef
uref = usedef.build_reference(pm1)
json.dump(uref, open(os.path.join(HERE, 'reference', 'usedef.json'), 'w'), indent=0, sort_keys=True)
print(len(uref['functions']), 'functions with use-def tables')
print(len(oref['functions']), 'functions with update/read pairs,',
      sum(len(v) for v in oref['functions'].values()), 'pairs')
