"""Syntax-level normal forms applied to every module before the rules run.

Each rewrite maps two spellings that evaluate the same expressions in the same
order to one of them, so that a rule phrased over the AST (or over its text)
gives the same verdict for both.  They are applied to the in-memory AST only.

N1  string formatting: an f-string and ``'...%s...' % (a, b)`` (only ``%s``,
    ``%r``, ``%d`` without flags) become ``'...{}...'.format(a, b)``
N2  ``isinstance(x, A) or isinstance(x, B)``  ->  ``isinstance(x, (A, B))``
N3  ``k in d.keys()``  ->  ``k in d``   (also ``not in``; ``for k in d.keys()``)
N4  ``super(C, self)``  ->  ``super()``
N5  ``dict((k, v) for ...)`` -> ``{k: v for ...}``; ``set(x for ...)`` /
    ``list(x for ...)`` -> comprehensions; ``dict([...comprehension...])`` alike
N6  ``if a: (if b: X)`` with no else on either  ->  ``if a and b: X``
N7  ``else: (if ...)``  ->  ``elif``  (the AST is the same; nothing to do) and
    ``if c: A; return/raise``-tail forms are left to the path-condition engine
N8  ``getattr(x, 'name', None) is None`` is left alone (not the same as
    ``not hasattr``)
"""
import ast
import re

_SIMPLE_PCT = re.compile(r'%(?:(%)|([srd]))')


def _fmt_call(template, args, like):
    call = ast.Call(func=ast.Attribute(value=ast.Constant(value=template), attr='format',
                                       ctx=ast.Load()), args=args, keywords=[])
    ast.copy_location(call, like)
    ast.copy_location(call.func, like)
    ast.copy_location(call.func.value, like)
    for a in ast.walk(call):
        if not hasattr(a, 'lineno'):
            ast.copy_location(a, like)
    return call


def _joinedstr(node):
    """f'..{a}..{b!r}..' -> '..{}..{!r}..'.format(a, b); None when a format
    spec other than a plain one is used."""
    tmpl = []
    args = []
    for v in node.values:
        if isinstance(v, ast.Constant) and isinstance(v.value, str):
            tmpl.append(v.value.replace('{', '{{').replace('}', '}}'))
        elif isinstance(v, ast.FormattedValue):
            spec = ''
            if v.format_spec is not None:
                if len(v.format_spec.values) == 1 and \
                        isinstance(v.format_spec.values[0], ast.Constant):
                    spec = ':' + str(v.format_spec.values[0].value)
                else:
                    return None
            conv = {-1: '', 115: '!s', 114: '!r', 97: '!a'}.get(v.conversion, '')
            tmpl.append('{%s%s}' % (conv, spec))
            args.append(v.value)
        else:
            return None
    return _fmt_call(''.join(tmpl), args, node)


def _percent(node):
    """'..%s..%r..' % (a, b) -> '..{}..{!r}..'.format(a, b)."""
    if not (isinstance(node.left, ast.Constant) and isinstance(node.left.value, str)):
        return None
    s = node.left.value
    if '{' in s or '}' in s:
        s = s.replace('{', '{{').replace('}', '}}')
    # only %s %r %d %% allowed
    rest = _SIMPLE_PCT.sub('', s)
    if '%' in rest:
        return None
    n = 0

    def rep(m):
        nonlocal n
        if m.group(1):
            return '%'
        n += 1
        return {'s': '{}', 'r': '{!r}', 'd': '{:d}'}[m.group(2)]
    tmpl = _SIMPLE_PCT.sub(rep, s)
    if isinstance(node.right, ast.Tuple):
        args = list(node.right.elts)
    else:
        if n != 1:
            return None
        if isinstance(node.right, (ast.Dict, ast.Starred)):
            return None
        args = [node.right]
    if len(args) != n:
        return None
    return _fmt_call(tmpl, args, node)


class _Rewriter(ast.NodeTransformer):
    def __init__(self):
        self.n = 0

    # N1
    def visit_JoinedStr(self, node):
        self.generic_visit(node)
        new = _joinedstr(node)
        if new is not None:
            self.n += 1
            return new
        return node

    def visit_BinOp(self, node):
        self.generic_visit(node)
        if isinstance(node.op, ast.Mod):
            new = _percent(node)
            if new is not None:
                self.n += 1
                return new
        return node

    # N2
    def visit_BoolOp(self, node):
        self.generic_visit(node)
        if isinstance(node.op, ast.Or):
            out = []
            for v in node.values:
                prev = out[-1] if out else None
                if _is_isinstance(v) and prev is not None and _is_isinstance(prev) and \
                        ast.dump(prev.args[0]) == ast.dump(v.args[0]):
                    prev.args[1] = _merge_classes(prev.args[1], v.args[1])
                    self.n += 1
                else:
                    out.append(v)
            if len(out) == 1:
                return out[0]
            node.values = out
        return node

    # N3
    def visit_Compare(self, node):
        self.generic_visit(node)
        if len(node.ops) == 1 and isinstance(node.ops[0], (ast.In, ast.NotIn)):
            c = node.comparators[0]
            if _is_keys_call(c):
                node.comparators[0] = c.func.value
                self.n += 1
        return node

    def visit_For(self, node):
        self.generic_visit(node)
        if _is_keys_call(node.iter):
            node.iter = node.iter.func.value
            self.n += 1
        return node

    def visit_comprehension(self, node):
        self.generic_visit(node)
        if _is_keys_call(node.iter):
            node.iter = node.iter.func.value
            self.n += 1
        return node

    # N4 / N5
    def visit_Call(self, node):
        self.generic_visit(node)
        f = node.func
        if isinstance(f, ast.Name) and f.id == 'super' and len(node.args) == 2 and \
                isinstance(node.args[1], ast.Name) and node.args[1].id in ('self', 'cls'):
            node.args = []
            self.n += 1
            return node
        if isinstance(f, ast.Name) and f.id in ('dict', 'set', 'list') and len(node.args) == 1 \
                and not node.keywords:
            a = node.args[0]
            if isinstance(a, ast.ListComp) and f.id in ('dict', 'set'):
                a = ast.copy_location(ast.GeneratorExp(elt=a.elt, generators=a.generators), a)
            if isinstance(a, ast.GeneratorExp):
                new = None
                if f.id == 'dict' and isinstance(a.elt, ast.Tuple) and len(a.elt.elts) == 2:
                    new = ast.DictComp(key=a.elt.elts[0], value=a.elt.elts[1],
                                       generators=a.generators)
                elif f.id == 'set':
                    new = ast.SetComp(elt=a.elt, generators=a.generators)
                elif f.id == 'list':
                    new = ast.ListComp(elt=a.elt, generators=a.generators)
                if new is not None:
                    self.n += 1
                    return ast.copy_location(new, node)
        return node

    # N6
    def visit_If(self, node):
        self.generic_visit(node)
        while not node.orelse and len(node.body) == 1 and isinstance(node.body[0], ast.If) \
                and not node.body[0].orelse:
            inner = node.body[0]
            vals = []
            for t in (node.test, inner.test):
                if isinstance(t, ast.BoolOp) and isinstance(t.op, ast.And):
                    vals.extend(t.values)
                else:
                    vals.append(t)
            node.test = ast.copy_location(ast.BoolOp(op=ast.And(), values=vals), node.test)
            node.body = inner.body
            self.n += 1
        return node


def drop_dead_statements(tree):
    """N10 a `continue` that ends a loop body, N11 a bare `return` / `return
    None` that ends a function, N12 an if whose two arms are the same code."""
    n = 0
    for node in ast.walk(tree):
        if isinstance(node, (ast.For, ast.While, ast.AsyncFor)):
            n += _strip_tail_continue(node.body)
        if isinstance(node, (ast.FunctionDef, ast.AsyncFunctionDef)):
            while node.body and isinstance(node.body[-1], ast.Return) and (
                    node.body[-1].value is None or (
                        isinstance(node.body[-1].value, ast.Constant) and
                        node.body[-1].value.value is None)):
                last = node.body.pop()
                if not node.body:
                    node.body.append(ast.copy_location(ast.Pass(), last))
                n += 1
        for field in ('body', 'orelse', 'finalbody'):
            blk = getattr(node, field, None)
            if not isinstance(blk, list):
                continue
            for i, st in enumerate(blk):
                if isinstance(st, ast.If) and st.orelse and \
                        [ast.dump(x) for x in st.body] == [ast.dump(x) for x in st.orelse]:
                    blk[i:i + 1] = st.body
                    n += 1
                    break
    return n


def for_else_without_break(tree):
    """N15: the else arm of a loop that has no `break` runs whenever the loop ends: the same
    as statements placed after the loop."""
    n = 0
    for node in ast.walk(tree):
        for field in ('body', 'orelse', 'finalbody'):
            blk = getattr(node, field, None)
            if not isinstance(blk, list):
                continue
            i = 0
            while i < len(blk):
                st = blk[i]
                if isinstance(st, (ast.For, ast.While)) and st.orelse:
                    has_break = False
                    todo = list(st.body)
                    while todo:
                        x = todo.pop()
                        if isinstance(x, ast.Break):
                            has_break = True
                            break
                        if isinstance(x, (ast.For, ast.While, ast.FunctionDef, ast.AsyncFunctionDef,
                                          ast.ClassDef)):
                            # a break of an inner loop does not leave this one; its else arm may
                            todo.extend(getattr(x, 'orelse', []) if isinstance(
                                x, (ast.For, ast.While)) else [])
                            continue
                        todo.extend(c for c in ast.iter_child_nodes(x) if isinstance(c, ast.stmt))
                        for h in getattr(x, 'handlers', []) or []:
                            todo.extend(h.body)
                    if not has_break:
                        tail = st.orelse
                        st.orelse = []
                        blk[i + 1:i + 1] = tail
                        n += 1
                i += 1
    return n


def _strip_tail_continue(blk):
    n = 0
    if not blk:
        return 0
    last = blk[-1]
    if isinstance(last, ast.Continue) and len(blk) > 1:
        blk.pop()
        return 1 + _strip_tail_continue(blk)
    if isinstance(last, ast.If):
        n += _strip_tail_continue(last.body)
        n += _strip_tail_continue(last.orelse)
    return n


def _single_append(body, name, method):
    """(element expr(s), [conditions]) when ``body`` is `[if c: [if d:]] name.<method>(E)`."""
    conds = []
    b = body
    while len(b) == 1 and isinstance(b[0], ast.If) and not b[0].orelse:
        conds.append(b[0].test)
        b = b[0].body
    if len(b) != 1:
        return None
    st = b[0]
    if method == 'setitem':
        if isinstance(st, ast.Assign) and len(st.targets) == 1 and \
                isinstance(st.targets[0], ast.Subscript) and \
                isinstance(st.targets[0].value, ast.Name) and st.targets[0].value.id == name:
            return (st.targets[0].slice, st.value), conds
        return None
    if isinstance(st, ast.Expr) and isinstance(st.value, ast.Call) and \
            isinstance(st.value.func, ast.Attribute) and st.value.func.attr == method and \
            isinstance(st.value.func.value, ast.Name) and st.value.func.value.id == name and \
            len(st.value.args) == 1 and not st.value.keywords:
        return (st.value.args[0],), conds
    return None


def _mentions(node, name):
    return any(isinstance(x, ast.Name) and x.id == name for x in ast.walk(node))


def loops_and_comprehensions(tree):
    """N13 `x = []` + `for t in it: [if c:] x.append(E)`  ->  `x = [E for t in it if c]`
    (also `x = {}` + `x[K] = V`, `x = set()` + `x.add(E)`);
    N14 `x.extend(E for t in it if c)` / `x.extend([..comprehension..])`  ->  the for/append
    loop.  Which of the two spellings builds a collection carries no meaning."""
    n = 0
    for node in ast.walk(tree):
        for field in ('body', 'orelse', 'finalbody'):
            blk = getattr(node, field, None)
            if not isinstance(blk, list):
                continue
            i = 0
            while i < len(blk):
                st = blk[i]
                # N14
                if isinstance(st, ast.Expr) and isinstance(st.value, ast.Call) and \
                        isinstance(st.value.func, ast.Attribute) and \
                        st.value.func.attr == 'extend' and len(st.value.args) == 1 and \
                        isinstance(st.value.args[0], (ast.GeneratorExp, ast.ListComp)) and \
                        len(st.value.args[0].generators) == 1 and \
                        not st.value.args[0].generators[0].is_async:
                    g = st.value.args[0]
                    gen = g.generators[0]
                    call = ast.Expr(value=ast.Call(
                        func=ast.Attribute(value=st.value.func.value, attr='append',
                                           ctx=ast.Load()), args=[g.elt], keywords=[]))
                    body = [call]
                    for c in reversed(gen.ifs):
                        body = [ast.If(test=c, body=body, orelse=[])]
                    loop = ast.For(target=gen.target, iter=gen.iter, body=body, orelse=[])
                    for x in ast.walk(loop):
                        if not hasattr(x, 'lineno') and isinstance(x, (ast.expr, ast.stmt)):
                            ast.copy_location(x, st)
                    _store(loop.target)
                    blk[i] = ast.copy_location(loop, st)
                    n += 1
                    i += 1
                    continue
                # N13
                if isinstance(st, ast.Assign) and len(st.targets) == 1 and \
                        isinstance(st.targets[0], ast.Name) and i + 1 < len(blk) and \
                        isinstance(blk[i + 1], ast.For) and not blk[i + 1].orelse:
                    nm = st.targets[0].id
                    lp = blk[i + 1]
                    kind = None
                    v = st.value
                    if isinstance(v, ast.List) and not v.elts:
                        kind = 'append'
                    elif isinstance(v, ast.Dict) and not v.keys:
                        kind = 'setitem'
                    elif isinstance(v, ast.Call) and isinstance(v.func, ast.Name) and \
                            v.func.id == 'set' and not v.args and not v.keywords:
                        kind = 'add'
                    if kind:
                        r = _single_append(lp.body, nm, kind)
                        if r is not None and not _mentions(lp.iter, nm) and \
                                not any(_mentions(e, nm) for e in r[0]) and \
                                not any(_mentions(c, nm) for c in r[1]):
                            elts, conds = r
                            gen = ast.comprehension(target=lp.target, iter=lp.iter, ifs=conds,
                                                    is_async=0)
                            if kind == 'append':
                                comp = ast.ListComp(elt=elts[0], generators=[gen])
                            elif kind == 'add':
                                comp = ast.SetComp(elt=elts[0], generators=[gen])
                            else:
                                comp = ast.DictComp(key=elts[0], value=elts[1], generators=[gen])
                            st.value = ast.copy_location(comp, st.value)
                            del blk[i + 1]
                            n += 1
                i += 1
    return n


def _store(t):
    for x in ast.walk(t):
        if isinstance(x, (ast.Name, ast.Tuple, ast.List, ast.Starred, ast.Attribute,
                          ast.Subscript)) and hasattr(x, 'ctx'):
            if isinstance(x, (ast.Name, ast.Tuple, ast.List, ast.Starred)):
                x.ctx = ast.Store()


def _is_isinstance(v):
    return isinstance(v, ast.Call) and isinstance(v.func, ast.Name) and \
        v.func.id == 'isinstance' and len(v.args) == 2 and not v.keywords


def _merge_classes(a, b):
    ea = list(a.elts) if isinstance(a, ast.Tuple) else [a]
    eb = list(b.elts) if isinstance(b, ast.Tuple) else [b]
    t = ast.Tuple(elts=ea + eb, ctx=ast.Load())
    return ast.copy_location(t, a)


def _is_keys_call(c):
    return isinstance(c, ast.Call) and isinstance(c.func, ast.Attribute) and \
        c.func.attr == 'keys' and not c.args and not c.keywords


def mapping_lookups(tree):
    """N16 ``k in d and d[k] is not None`` -> ``d.get(k) is not None``;  ``k in d and d[k]`` ->
    ``d.get(k)`` (a missing key and a None / falsy entry fail the test alike)."""
    n = 0
    for node in ast.walk(tree):
        if not (isinstance(node, ast.BoolOp) and isinstance(node.op, ast.And)):
            continue
        out = []
        for v in node.values:
            prev = out[-1] if out else None
            if isinstance(prev, ast.Compare) and len(prev.ops) == 1 and \
                    isinstance(prev.ops[0], ast.In):
                k, d = prev.left, prev.comparators[0]
                sub = None
                if isinstance(v, ast.Compare) and len(v.ops) == 1 and \
                        isinstance(v.ops[0], ast.IsNot) and \
                        isinstance(v.comparators[0], ast.Constant) and \
                        v.comparators[0].value is None:
                    sub = v.left
                elif isinstance(v, ast.Subscript):
                    sub = v
                if isinstance(sub, ast.Subscript) and ast.dump(sub.value) == ast.dump(d) and \
                        ast.dump(sub.slice) == ast.dump(k) and \
                        isinstance(d, (ast.Name, ast.Attribute)):
                    call = ast.Call(func=ast.Attribute(value=d, attr='get', ctx=ast.Load()),
                                    args=[k], keywords=[])
                    for x in ast.walk(call):
                        ast.copy_location(x, sub)
                    if sub is v:
                        out[-1] = call
                    else:
                        v.left = call
                        out[-1] = v
                    n += 1
                    continue
            out.append(v)
        if len(out) != len(node.values):
            node.values = out
    # an `and` left with one operand is that operand
    class One(ast.NodeTransformer):
        def visit_BoolOp(self, b):
            self.generic_visit(b)
            return b.values[0] if len(b.values) == 1 else b
    if n:
        One().visit(tree)
    return n


def normalise(tree):
    r = _Rewriter()
    r.visit(tree)
    r.n += mapping_lookups(tree)
    r.n += for_else_without_break(tree)
    r.n += drop_dead_statements(tree)
    r.n += loops_and_comprehensions(tree)
    ast.fix_missing_locations(tree)
    return r.n
