"""Condition drift of refusal sites (cross-check through time).

A *refusal site* is a statement that reports an error: ``raise <Exc>(...)`` of
one of the error classes of the layer analysed, or an append to the parser's
error list.  The condition under which it runs is the conjunction of the path
atoms that dominate it.  `reference/conditions.json` records, for every site of
the tree on which the rules were confirmed, that condition in a canonical form;
a check compares the current tree with it.

Canonical form (after the model's normal forms and alpha-normalisation):
* single-assignment locals are substituted by their definitions, so naming or
  inlining an intermediate value changes nothing;
* an ordering / equality comparison becomes ``(lhs, rhs, allowed orderings)``
  with operands in a fixed order and the polarity folded in, so ``not a < b``
  and ``a >= b`` read the same and ``a < b`` vs ``a <= b`` differ only in the
  relation;
* every other atom is ``(text, polarity)``.

Verdicts per site (sites are matched by function, exception class and the
first text literal of the message; an unmatched site is not claimed):
* same condition                                  -> ok
* same operands, different relation or polarity   -> the refusal now happens
  for other inputs: VIOLATION
* the atoms are a strict subset / strict superset -> the refusal was widened /
  narrowed by a pure removal / addition of a conjunct: VIOLATION
* atoms replaced by others                        -> not comparable, no claim
  (a re-spelling and a semantic change cannot be told apart)
"""
import ast
import json
import os

from .dataflow import defs
from .model import call_name, own_nodes, unparse
from .pathcond import path_info

ORD = frozenset({'<', '=', '>'})
OPS = {ast.Lt: {'<'}, ast.LtE: {'<', '='}, ast.Gt: {'>'}, ast.GtE: {'>', '='},
       ast.Eq: {'='}, ast.NotEq: {'<', '>'}}


_CONTAINER_MAKERS = {'dict', 'list', 'set', 'OrderedDict', 'defaultdict', 'deque', 'Counter'}


def _definition(f, name_node):
    """The expression a local stands for at this read: the value of its only
    plain assignment, or of the only assignment that reaches the read.  A
    container built in place (display, comprehension, dict()/list()/set()) is
    not substituted - what it holds is decided by later statements, and how it
    is built (loop or comprehension) carries no meaning."""
    from .dataflow import reaching
    d = defs(f.node)
    v = d.single(name_node.id)
    if v is None and name_node.id not in d.params and len(d.values.get(name_node.id, ())) > 1:
        try:
            rs, param_live = reaching(f.node, name_node.id, name_node)
        except Exception:
            rs, param_live = [], True
        if len(rs) == 1 and rs[0][0] == 'assign':
            v = rs[0][1]
    if v is None:
        return None
    if isinstance(v, (ast.Dict, ast.List, ast.Set, ast.ListComp, ast.DictComp, ast.SetComp,
                      ast.GeneratorExp)):
        return None
    if isinstance(v, ast.Call) and isinstance(v.func, ast.Name) and \
            v.func.id in _CONTAINER_MAKERS:
        return None
    return v


def _subst_text(f, e, depth=3):
    """Text of ``e`` with single-assignment locals replaced by their value."""
    names = {}
    for x in ast.walk(e):
        if isinstance(x, ast.Name) and isinstance(x.ctx, ast.Load) and x.id not in names:
            v = _definition(f, x)
            if v is not None and depth > 0 and not any(
                    isinstance(y, ast.Name) and y.id == x.id for y in ast.walk(v)):
                names[x.id] = '(%s)' % _subst_text(f, v, depth - 1)
    if not names:
        return unparse(e)
    touched = []
    for x in ast.walk(e):
        if isinstance(x, ast.Name) and x.id in names:
            touched.append((x, x.id))
            x.id = '\x00%s\x00' % x.id
    try:
        t = unparse(e)
    finally:
        for x, old in touched:
            x.id = old
    for nm, rep in names.items():
        t = t.replace('\x00%s\x00' % nm, rep)
    return t


def canonical_atom(f, e, pol):
    if isinstance(e, ast.Compare) and len(e.ops) == 1 and type(e.ops[0]) in OPS:
        a, b = _clean(_subst_text(f, e.left)), _clean(_subst_text(f, e.comparators[0]))
        rel = set(OPS[type(e.ops[0])])
        if not pol:
            rel = set(ORD) - rel
        if a > b:
            a, b = b, a
            rel = {{'<': '>', '>': '<', '=': '='}[x] for x in rel}
        return ['cmp', a, b, ''.join(sorted(rel))]
    if isinstance(e, ast.Compare) and len(e.ops) == 1 and \
            isinstance(e.ops[0], (ast.Is, ast.IsNot, ast.In, ast.NotIn)):
        pos = isinstance(e.ops[0], (ast.Is, ast.In))
        op = 'is' if isinstance(e.ops[0], (ast.Is, ast.IsNot)) else 'in'
        return ['rel', _clean(_subst_text(f, e.left)), op,
                _clean(_subst_text(f, e.comparators[0])), pos == pol]
    return ['atom', _clean(_subst_text(f, e)), bool(pol)]


def _owning_if(e):
    """The If/While statement whose test contains expression ``e``."""
    child, par = e, getattr(e, '_parent', None)
    while par is not None:
        if isinstance(par, (ast.If, ast.While)) and (child is par.test):
            return par
        if isinstance(par, ast.stmt):
            return None
        child, par = par, getattr(par, '_parent', None)
    return None


def _only_raises(stmts):
    """Every way out of ``stmts`` is a raise (no return/continue/break)."""
    from .pathcond import terminates
    if not terminates(stmts):
        return False
    for st in stmts:
        for x in ast.walk(st):
            if isinstance(x, (ast.Return, ast.Continue, ast.Break)):
                return False
    return True


def _from_refusing_exit(e, pol, site):
    """The atom is the negation of a test whose branch only refuses (raises):
    whichever of the two refusals comes first, the input is refused, so the
    atom does not change what is accepted."""
    par = e
    while par is not None and not isinstance(par, ast.stmt):
        par = getattr(par, '_parent', None)
    if isinstance(par, ast.Assert) and par is not site:
        return True      # what follows an assert runs only if it held; otherwise it raises
    st = _owning_if(e)
    if st is None or not isinstance(st, ast.If):
        return False
    # polarity of the whole test given the atom's: flip once per enclosing `not`
    test_pol = pol
    child, par = e, getattr(e, '_parent', None)
    while par is not None and child is not st.test:
        if isinstance(par, ast.UnaryOp) and isinstance(par.op, ast.Not):
            test_pol = not test_pol
        child, par = par, getattr(par, '_parent', None)
    if test_pol:
        return False
    inside = any(x is site for x in ast.walk(st) if x is not st) and \
        not any(x is site for b in st.orelse for x in ast.walk(b))
    if inside:
        return False
    return _only_raises(st.body)


def _message_key(n):
    for x in ast.walk(n):
        if isinstance(x, ast.Constant) and isinstance(x.value, str) and len(x.value) >= 6:
            return x.value[:48]
    return ''


def refusal_sites(pm, prefixes, exc_names, error_lists=('self.errors',), raisers=()):
    """[(function, node, exception name, message key)]."""
    out = []
    for f in pm.funcs_in(*prefixes):
        for n in own_nodes(f.node):
            if isinstance(n, ast.Raise) and n.exc is not None:
                t = unparse(n.exc.func if isinstance(n.exc, ast.Call) else n.exc)
                t = t.split('.')[-1]
                if t in exc_names:
                    out.append((f, n, t, _message_key(n.exc)))
            elif isinstance(n, ast.Call) and isinstance(n.func, ast.Attribute) and \
                    n.func.attr in ('append', 'insert') and unparse(n.func.value) in error_lists:
                out.append((f, n, 'errors', _message_key(n)))
            elif isinstance(n, ast.Expr) and isinstance(n.value, ast.Call) and \
                    call_name(n.value) in raisers:
                out.append((f, n, call_name(n.value), _message_key(n.value)))
    return out


def conditions(pm, prefixes, exc_names, **kw):
    """{site id: sorted canonical atoms} ; site id = qualname|exc|message|ordinal."""
    out = {}
    counts = {}
    for f, n, exc, msg in refusal_sites(pm, prefixes, exc_names, **kw):
        pi = path_info(f.node)
        atoms = sorted(json.dumps(canonical_atom(f, e, pol)) for e, pol in pi.at(n)
                       if not _from_refusing_exit(e, pol, n))
        base = '%s|%s|%s' % (f.qualname, exc, msg)
        k = counts.get(base, 0)
        counts[base] = k + 1
        out['%s|%d' % (base, k)] = {'atoms': atoms, 'line': n.lineno, 'file': f.module.relpath}
    return out


def _key_of(atom):
    a = json.loads(atom)
    if a[0] == 'cmp':
        return ('cmp', a[1], a[2])
    if a[0] == 'rel':
        # `x in A` and `x in B` are tests on the same value against another container
        return ('rel', a[1], a[2]) if a[2] == 'in' else ('rel', a[1], a[2], a[3])
    return ('atom', a[1])


def compare(ref_atoms, cur_atoms):
    """('ok' | 'changed' | 'narrowed' | 'widened' | 'incomparable', detail)."""
    r, c = set(ref_atoms), set(cur_atoms)
    if r == c:
        return 'ok', ''
    rk = {_key_of(a): a for a in r}
    ck = {_key_of(a): a for a in c}
    if set(rk) == set(ck):
        diff = [(rk[k], ck[k]) for k in rk if rk[k] != ck[k]]
        return 'changed', '; '.join('%s -> %s' % d for d in diff)
    if set(rk) < set(ck) and all(rk[k] == ck[k] for k in rk):
        return 'narrowed', 'additional condition(s): %s' % sorted(ck[k] for k in set(ck) - set(rk))
    if set(ck) < set(rk) and all(rk[k] == ck[k] for k in ck):
        return 'widened', 'dropped condition(s): %s' % sorted(rk[k] for k in set(rk) - set(ck))
    return 'incomparable', ''


def load_reference(verif_root, name):
    p = os.path.join(verif_root, 'reference', 'conditions.json')
    if not os.path.exists(p):
        return None
    with open(p, encoding='utf-8') as fh:
        return json.load(fh).get(name)


LAYERS = {
    # name: (module prefixes, exception names, extra kwargs)
    'frontend': (('stone.frontend', 'stone.ir'), ('InvalidSpec', 'ParameterError', 'ValueError'),
                 {'raisers': ('raise_mismatch_error',)}),
    'runtime': (('stone.backends.python_rsrc.stone_validators',
                 'stone.backends.python_rsrc.stone_serializers',
                 'stone.backends.python_rsrc.stone_base'),
                ('ValidationError', 'AssertionError'), {}),
}


def run(pm, ctx, rule, layer, title, what):
    """Compare the refusal conditions of one layer with the reference."""
    from .model import AnalysisError
    ctx.rule(rule, title)
    prefixes, excs, kw = LAYERS[layer]
    verif = os.path.dirname(os.path.dirname(os.path.abspath(__file__)))
    ref = load_reference(verif, layer)
    if ref is None:
        raise AnalysisError('anchor=reference/conditions.json (%s layer missing)' % layer)
    cur = conditions(pm, prefixes, excs, **kw)
    n = matched = 0
    for sid, info in sorted(cur.items()):
        r = ref.get(sid)
        if r is None:
            continue
        matched += 1
        verdict, detail = compare(r['atoms'], info['atoms'])
        where = '%s:%d' % (info['file'], info['line'])
        short = sid.split('|')
        inst = '%s: %s %r reported under its confirmed condition' % (
            short[0].replace('stone.', ''), short[1], short[2][:30])
        if verdict in ('ok', 'incomparable'):
            if verdict == 'incomparable':
                ctx.note('%s: condition of %s re-spelled or replaced; not comparable, not claimed'
                         % (rule, sid))
            ctx.ok(rule, inst, where)
            continue
        n += 1
        ctx.check(rule, False, inst, where,
                  msg='%s: the condition under which %s %r is %s has been %s (%s): %s' % (
                      short[0].replace('stone.', ''), short[1], short[2][:40], what, verdict,
                      detail[:300], {'changed': 'the refusal now happens for other inputs',
                                     'narrowed': 'inputs that used to be refused are accepted',
                                     'widened': 'inputs that used to be accepted are refused'}[
                                         verdict]),
                  key='%s|%s' % (rule, sid))
    ctx.extra['%s_sites_matched' % rule] = matched
    ctx.extra['%s_sites_current' % rule] = len(cur)
    ctx.floor(rule, matched, max(1, int(0.5 * len(ref))), 'refusal sites matched with the reference')


# ---------------------------------------------------------------------------
# decision drift: the tests of a function (if / elif / while / conditional
# expression / comprehension filter / assert) compared with the reference

def _test_atoms(f, test):
    """(connective, sorted canonical atoms) of one test expression."""
    from .pathcond import decompose
    if isinstance(test, ast.UnaryOp) and isinstance(test.op, ast.Not) and \
            isinstance(test.operand, ast.BoolOp) and isinstance(test.operand.op, ast.And):
        # not (a and b)  ==  not a or not b
        inner = _test_atoms(f, test.operand)
        fl = _flip(list(inner))
        if fl is not None:
            return fl[0], fl[1]
    if isinstance(test, ast.BoolOp) and isinstance(test.op, ast.Or):
        # a disjunction: canonical atoms of the operands, connective 'or'
        parts = []
        for v in test.values:
            sub = decompose(v, True)
            if len(sub) != 1:
                return 'text', [json.dumps(['atom', _subst_text(f, test), True])]
            parts.append(json.dumps(_truthy(canonical_atom(f, sub[0][0], sub[0][1]))))
        return 'or', sorted(parts)
    atoms = [(e, p) for e, p in decompose(test, True)
             if not (isinstance(e, ast.Constant) and bool(e.value) == p)]   # `and True`
    return 'and', sorted(json.dumps(_truthy(canonical_atom(f, e, p))) for e, p in atoms)


def _truthy(a):
    """`x is not None` and the truth value of `x` are tests on the same
    operand: give them the same key and different relations, so that replacing
    one by the other is seen as a changed relation."""
    if a[0] == 'rel' and a[2] == 'is' and a[3] == 'None':
        return ['tv', a[1], 'notnone' if not a[4] else 'none']
    if a[0] == 'atom' and not any(ch in a[1] for ch in '()[] ') :
        return ['tv', a[1], 'truthy' if a[2] else 'falsy']
    if a[0] == 'atom' and a[1].replace('.', '').replace('_', '').isalnum():
        return ['tv', a[1], 'truthy' if a[2] else 'falsy']
    return a


KIND_ORDER = {'raise': 0, 'return': 1, 'continue': 2, 'break': 3, 'fall': 4}


def _terminal_kind(stmts):
    """How control leaves a statement list: raise / return / continue / break /
    fall (reaches its end on some path)."""
    from .pathcond import terminates
    if not stmts or not terminates(stmts):
        return 'fall'
    last = stmts[-1]
    for st in reversed(stmts):
        if isinstance(st, ast.Raise):
            return 'raise'
        if isinstance(st, ast.Return):
            return 'return'
        if isinstance(st, ast.Continue):
            return 'continue'
        if isinstance(st, ast.Break):
            return 'break'
        if isinstance(st, (ast.If, ast.With, ast.Try)):
            kinds = {_terminal_kind(b) for b in (getattr(st, 'body', []), getattr(st, 'orelse', []))
                     if b}
            return sorted(kinds, key=lambda k: KIND_ORDER[k])[0] if kinds else 'fall'
        break
    return 'fall' if not isinstance(last, (ast.Raise, ast.Return, ast.Continue, ast.Break)) \
        else 'fall'


def _flip(formula):
    """De Morgan negation of [connective, atoms]."""
    conn, atoms = formula
    if conn == 'text':
        return None
    out = []
    for a in atoms:
        x = json.loads(a)
        if x[0] == 'cmp':
            x = ['cmp', x[1], x[2], ''.join(sorted(set('<=>') - set(x[3])))]
        elif x[0] == 'rel':
            x = ['rel', x[1], x[2], x[3], not x[4]]
        elif x[0] == 'tv':
            x = ['tv', x[1], {'notnone': 'none', 'none': 'notnone', 'truthy': 'falsy',
                              'falsy': 'truthy'}[x[2]]]
        else:
            x = ['atom', x[1], not x[2]]
        out.append(json.dumps(x))
    return [{'and': 'or', 'or': 'and'}[conn] if len(atoms) > 1 else conn, sorted(out)]


def _if_record(f, st):
    """[connective, atoms, then_kind, else_kind] of an if statement, as written.
    The kinds say how each side leaves (raise / return / continue / break /
    fall); they are used only to recognise a benign inversion (`if not ok:
    raise ...; return x`  ==  `if ok: return x; raise ...`): the negated test
    with the two sides swapped."""
    formula = list(_test_atoms(f, st.test))
    then_kind = _terminal_kind(st.body)
    if st.orelse:
        else_kind = _terminal_kind(st.orelse)
    else:
        par = getattr(st, '_parent', None)
        rest = []
        for field in ('body', 'orelse', 'finalbody'):
            blk = getattr(par, field, None)
            if isinstance(blk, list) and st in blk:
                rest = blk[blk.index(st) + 1:]
        else_kind = _terminal_kind(rest)
    return formula + [then_kind, else_kind]


def decisions(pm, funcs):
    """{qualname: [[connective, atoms], ...]} in source order."""
    out = {}
    for f in funcs:
        tests = []
        for n in own_nodes(f.node):
            if isinstance(n, ast.If):
                tests.append(_if_record(f, n))
            elif isinstance(n, (ast.While, ast.IfExp, ast.Assert)):
                tests.append(list(_test_atoms(f, n.test)))
            elif isinstance(n, ast.comprehension):
                for c in n.ifs:
                    tests.append(list(_test_atoms(f, c)))
        if tests:
            out[f.qualname] = tests
    return out


def _key2(atom):
    a = json.loads(atom)
    if a[0] == 'tv':
        return ('tv', a[1])
    return _key_of(atom)


def compare_tests(r, c):
    """Verdict for a reference test r and a current test c (each [connective,
    atoms])."""
    if r[:2] == c[:2]:
        return 'ok', ''
    fc = _flip(c[:2])
    if fc is not None and fc == r[:2]:
        # the exact negation: benign only when the two sides were swapped with it
        if len(r) == 4 and len(c) == 4 and (c[2], c[3]) == (r[3], r[2]) and r[2] != r[3]:
            return 'ok', ''
        return 'changed', 'test negated without swapping its two sides'
    rk = {_key2(a): a for a in r[1]}
    ck = {_key2(a): a for a in c[1]}
    if r[0] != c[0] and set(rk) == set(ck) and r[0] in ('and', 'or') and c[0] in ('and', 'or') \
            and len(rk) > 1:
        return 'changed', 'connective %s -> %s' % (r[0], c[0])
    if r[0] != c[0] and not (len(rk) == 1 or len(ck) == 1):
        return 'incomparable', ''
    if set(rk) == set(ck):
        diff = [(rk[k], ck[k]) for k in rk if rk[k] != ck[k]]
        return ('changed', '; '.join('%s -> %s' % d for d in diff)) if diff else ('ok', '')
    conn = c[0] if len(ck) > 1 else r[0]
    if set(rk) < set(ck) and all(rk[k] == ck[k] for k in rk):
        return ('narrowed' if conn == 'and' else 'widened',
                'additional operand(s): %s' % sorted(ck[k] for k in set(ck) - set(rk)))
    if set(ck) < set(rk) and all(rk[k] == ck[k] for k in ck):
        return ('widened' if conn == 'and' else 'narrowed',
                'dropped operand(s): %s' % sorted(rk[k] for k in set(rk) - set(ck)))
    return 'incomparable', ''


def run_decisions(pm, ctx, rule, patterns, title=None, min_funcs=1):
    """Decision drift for the functions whose qualified name matches one of
    ``patterns`` (regular expressions).  Tests that are unchanged are paired
    off first; each remaining current test is paired with a remaining
    reference test of the same function only when the two are comparable
    (same operands with another relation/polarity/connective, or a pure
    addition/removal of operands); everything else is not claimed."""
    import re
    from .model import AnalysisError
    ctx.rule(rule, title or
             'the tests (if/elif/while/conditional expression/filter/assert) of the functions the '
             'property is anchored in are those confirmed on the reference tree: no relation, '
             'polarity or connective changed over the same operands, no operand purely added or '
             'dropped (re-spellings and new or removed tests are not claimed)')
    verif = os.path.dirname(os.path.dirname(os.path.abspath(__file__)))
    ref = load_reference(verif, 'decisions')
    if ref is None:
        raise AnalysisError('anchor=reference/conditions.json (decisions missing)')
    pats = [re.compile(p) for p in patterns]
    funcs = [f for q, f in sorted(pm.functions.items()) if any(p.search(q) for p in pats)]
    all_nested = []

    def add(f):
        all_nested.append(f)
        for g in f.nested.values():
            add(g)
    for f in funcs:
        add(f)
    cur = decisions(pm, all_nested)
    n_funcs = n_tests = 0
    for f in all_nested:
        q = f.qualname
        if q not in ref or q not in cur:
            continue
        n_funcs += 1
        rt = [json.dumps(t) for t in ref[q]]
        ct = [json.dumps(t) for t in cur[q]]
        n_tests += len(ct)
        r_left = list(rt)
        c_left = []
        for t in ct:
            same = [x for x in r_left if json.loads(x)[:2] == json.loads(t)[:2]]
            if same:
                r_left.remove(same[0])
            else:
                c_left.append(t)
        problems = []
        for t in c_left:
            c = json.loads(t)
            for rr in list(r_left):
                verdict, detail = compare_tests(json.loads(rr), c)
                if verdict in ('changed', 'narrowed', 'widened'):
                    problems.append((verdict, detail))
                    r_left.remove(rr)
                    break
        ctx.check(rule, not problems, '%s: %d tests as confirmed' % (f.short, len(ct)), f.loc,
                  msg='%s: a test %s (%s): the function now decides differently for some inputs'
                      % (f.short, problems[0][0] if problems else '',
                         '; '.join(d for _, d in problems)[:400]),
                  key='%s|%s|tests' % (rule, q))
    ctx.extra['%s_functions' % rule] = n_funcs
    ctx.extra['%s_tests' % rule] = n_tests
    ctx.floor(rule, n_funcs, min_funcs, 'functions with tests matched with the reference')


# ---------------------------------------------------------------------------
# call-condition drift: under which condition a function calls the repository's
# own functions (and the library functions it imports), compared with the
# reference by a truth table over the atoms.

_BUILTIN_METHODS = set()
for _t in (dict, list, set, str, bytes, tuple, frozenset):
    _BUILTIN_METHODS.update(x for x in dir(_t) if not x.startswith('__'))


def _repo_names(pm):
    cache = getattr(pm, '_conddrift_names', None)
    if cache is None:
        funcs, methods = set(), set()
        for f in pm.functions.values():
            nm = f.qualname.rsplit('.', 1)[-1].split('#')[0]
            if f.cls is not None:
                methods.add(nm)
            else:
                funcs.add(nm)
        classes = {c.qualname.rsplit('.', 1)[-1] for c in pm.classes.values()}
        cache = pm._conddrift_names = (funcs, methods, classes)
    return cache


def _tracked_call(pm, f, n):
    """The call is to a function/method/class the repository defines, or to a
    function of a module the file imports (os.path.relpath, textwrap.fill)."""
    funcs, methods, classes = _repo_names(pm)
    fn = n.func
    if isinstance(fn, ast.Name):
        return fn.id in funcs or fn.id in classes
    if isinstance(fn, ast.Attribute):
        root = fn.value
        while isinstance(root, ast.Attribute):
            root = root.value
        if isinstance(root, ast.Name):
            imp = f.module.imports.get(root.id)
            if imp is not None and imp[0] == 'module' and not root.id.startswith('_'):
                # module function, e.g. os.path.relpath; typing helpers excluded
                return root.id not in ('typing', 'six', 'logging')
        if fn.attr in _BUILTIN_METHODS:
            return isinstance(fn.value, ast.Name) and fn.value.id in ('self', 'cls') and \
                fn.attr in methods
        return fn.attr in methods or fn.attr in funcs
    return False


def _clean(text):
    try:
        return unparse(ast.parse(text, mode='eval').body)
    except SyntaxError:
        return text


def _memo_containers(f):
    """Texts of containers the function both stores into and tests/looks up:
    registries and memo tables.  A test on one of them is decided by the
    memo-key rule, not by the call-condition rule."""
    stored, tested = set(), set()
    for n in own_nodes(f.node):
        if isinstance(n, ast.Subscript) and isinstance(n.ctx, ast.Store):
            stored.add(unparse(n.value))
        elif isinstance(n, ast.Call) and isinstance(n.func, ast.Attribute):
            if n.func.attr in ('add', 'setdefault', 'append'):
                stored.add(unparse(n.func.value))
            if n.func.attr in ('get', 'setdefault'):
                tested.add(unparse(n.func.value))
        elif isinstance(n, ast.Compare) and len(n.ops) == 1 and \
                isinstance(n.ops[0], (ast.In, ast.NotIn)):
            tested.add(unparse(n.comparators[0]))
        elif isinstance(n, ast.Subscript) and isinstance(n.ctx, ast.Load):
            tested.add(unparse(n.value))
    return stored & tested


def _is_memo_test(f, e, memo):
    """The test looks at a memo table / registry of the function, directly
    (`k in C`, `C.get(k) is None`) or through a local bound to a lookup."""
    if not memo:
        return False
    d = defs(f.node)
    for x in ast.walk(e):
        if isinstance(x, (ast.Name, ast.Attribute)) and unparse(x) in memo:
            return True
    # a local bound to a lookup, tested as a whole: `v = C.get(k)` ... `if v is None`
    bare = e
    if isinstance(e, ast.Compare) and len(e.ops) == 1 and \
            isinstance(e.ops[0], (ast.Is, ast.IsNot)) and \
            isinstance(e.comparators[0], ast.Constant) and e.comparators[0].value is None:
        bare = e.left
    if isinstance(bare, ast.Name):
        for v in d.all_values(bare.id):
            if isinstance(v, ast.Call) and isinstance(v.func, ast.Attribute) and \
                    v.func.attr in ('get', 'pop') and unparse(v.func.value) in memo:
                return True
            if isinstance(v, ast.Subscript) and unparse(v.value) in memo:
                return True
    return False


def _nulled_local(f, e, pol):
    """`v = E` followed by `if G: v = None`, then a test `if v:` -- the test holds exactly when
    E is true and G was false.  Returns the atoms of that reading (so that introducing such a
    local reads as an added condition on E), or None when the shape is not this one."""
    if not (pol and isinstance(e, ast.Name)):
        return None
    vals = defs(f.node).values.get(e.id, [])
    if len(vals) != 2 or any(k != 'assign' for k, _, _ in vals):
        return None
    (_, v1, s1), (_, v2, s2) = vals
    if not (isinstance(v2, ast.Constant) and not v2.value) or isinstance(v1, ast.Constant):
        return None
    pi = path_info(f.node)
    if pi.conds.get(id(s1), ()) != pi.conds.get(id(s2), ())[:len(pi.conds.get(id(s1), ()))]:
        return None
    extra = pi.conds.get(id(s2), ())[len(pi.conds.get(id(s1), ())):]
    if not extra:
        return None
    e_text = _clean(_subst_text(f, v1))
    out = [_truthy(['atom', e_text, True])]
    import re
    g = ' and '.join(('(%s)' if p else 'not (%s)') % unparse(x) for x, p in extra)
    g = re.sub(r'\b%s\b' % re.escape(e.id), e_text, g)
    out.append(['atom', _clean(g), False])
    return out


def _enclosing_iters(f, n):
    """Texts of the iterables of the loops and comprehensions around ``n``."""
    out = []
    child, par = n, getattr(n, '_parent', None)
    while par is not None and par is not f.node:
        if isinstance(par, (ast.For, ast.AsyncFor)) and child is not par.iter:
            out.append(_clean(_subst_text(f, par.iter)))
        elif isinstance(par, (ast.ListComp, ast.SetComp, ast.GeneratorExp, ast.DictComp)):
            for g in par.generators:
                if child is not g:
                    out.append(_clean(_subst_text(f, g.iter)))
        child, par = par, getattr(par, '_parent', None)
    return out


def _in_raise(n, stop):
    par = getattr(n, '_parent', None)
    while par is not None and par is not stop:
        if isinstance(par, ast.Raise):
            return True
        if isinstance(par, ast.stmt):
            return False
        par = getattr(par, '_parent', None)
    return False


def call_conditions(pm, funcs):
    """{qualname: {call text: [[atom, ...] per occurrence]}}.  Pseudo-atoms:
    ``['handler', k]`` for code of an except handler."""
    out = {}
    for f in funcs:
        pi = path_info(f.node)
        memo = _memo_containers(f)
        table = {}
        for n in own_nodes(f.node):
            if not isinstance(n, ast.Call) or not _tracked_call(pm, f, n):
                continue
            if _in_raise(n, f.node):
                continue        # building the exception object: decided with the raise site
            iters = set(_enclosing_iters(f, n))
            atoms = []
            for e, pol in pi.at(n):
                if _from_refusing_exit(e, pol, n):
                    continue
                if _is_memo_test(f, e, memo):
                    continue    # registry / memo test: decided by the memo-key rule
                nulled = _nulled_local(f, e, pol)
                if nulled is not None:
                    atoms.extend(json.dumps(x) for x in nulled)
                    continue
                a = _truthy(canonical_atom(f, e, pol))
                if a[0] == 'tv' and _clean(a[1]) in iters:
                    continue    # emptiness of the collection the call iterates over
                atoms.append(json.dumps(a))
            for t, part, k in pi.trys_at(n):
                if part == 'handler':
                    atoms.append(json.dumps(['handler', '%s@%d' % (
                        unparse(t.handlers[k].type) if t.handlers[k].type else '*',
                        0)]))
            key = _clean('%s(%s)' % (
                _subst_text(f, n.func),
                ', '.join([_subst_text(f, a) for a in n.args] +
                          ['%s=%s' % (k.arg, _subst_text(f, k.value)) for k in n.keywords])))
            table.setdefault(key, []).append(sorted(set(atoms)))
        if table:
            out[f.qualname] = table
    return out


TV = {'truthy': {'t'}, 'falsy': {'n', 'f'}, 'notnone': {'f', 't'}, 'none': {'n'}}


def _literal(atom):
    """(variable, domain, set of values of the variable that make the atom true)."""
    a = json.loads(atom)
    if a[0] == 'cmp':
        return ('cmp', a[1], a[2]), '<=>', set(a[3])
    if a[0] == 'tv':
        return ('tv', a[1]), 'nft', set(TV[a[2]])
    if a[0] == 'rel':
        return ('rel', a[1], a[2], a[3]), 'TF', {'T' if a[4] else 'F'}
    if a[0] == 'handler':
        return ('handler', a[1]), 'TF', {'T'}
    return ('atom', a[1]), 'TF', {'T' if a[2] else 'F'}


def _formula(instances):
    return [[_literal(a) for a in inst] for inst in instances]


def _holds(formula, env):
    return any(all(env[v] in ok for v, _, ok in conj) for conj in formula)


def compare_calls(ref_inst, cur_inst, limit=4096):
    """('ok' | 'skipped' | 'extra' | 'incomparable', witness)."""
    import itertools
    if sorted(map(tuple, ref_inst)) == sorted(map(tuple, cur_inst)):
        return 'ok', ''
    R, C = _formula(ref_inst), _formula(cur_inst)
    rv = {v: d for conj in R for v, d, _ in conj}
    cv = {v: d for conj in C for v, d, _ in conj}
    if not (set(rv) <= set(cv) or set(cv) <= set(rv)):
        return 'incomparable', ''
    allv = dict(rv)
    allv.update(cv)
    names = sorted(allv, key=repr)
    size = 1
    for v in names:
        size *= len(allv[v])
    if size > limit:
        return 'incomparable', ''
    skipped = extra = None
    for combo in itertools.product(*[allv[v] for v in names]):
        env = dict(zip(names, combo))
        r, c = _holds(R, env), _holds(C, env)
        if r and not c and skipped is None:
            skipped = env
        if c and not r and extra is None:
            extra = env
    def show(env):
        return ', '.join('%s=%s' % (' '.join(map(str, v[1:]))[:60], env[v]) for v in names
                         if v in set(cv) ^ set(rv) or True)[:300]
    if skipped is not None:
        return 'skipped', show(skipped)
    # a call made on more paths than before (`extra`) is not claimed: one more use of a
    # helper that only computes a value changes nothing, and purity is not decided here
    return 'ok', ''


def run_calls(pm, ctx, rule, patterns, title=None, min_funcs=1):
    """Call-condition drift for the functions matching ``patterns``."""
    import re
    from .model import AnalysisError
    ctx.rule(rule, title or
             'every call of a repository function (or imported library function) in the functions '
             'the property is anchored in runs under the condition confirmed on the reference '
             'tree: by a truth table over the path atoms, no assignment lets the function '
             'complete without a call it used to make (tests on '
             'memo tables / registries and emptiness of the iterated collection are left to '
             'their own rules; re-spelled conditions and new or removed calls are not claimed)')
    verif = os.path.dirname(os.path.dirname(os.path.abspath(__file__)))
    ref = load_reference(verif, 'calls')
    if ref is None:
        raise AnalysisError('anchor=reference/conditions.json (calls missing)')
    pats = [re.compile(p) for p in patterns]
    funcs = [f for q, f in sorted(pm.functions.items()) if any(p.search(q) for p in pats)]
    all_nested = []

    def add(f):
        all_nested.append(f)
        for g in f.nested.values():
            add(g)
    for f in funcs:
        add(f)
    cur = call_conditions(pm, all_nested)
    n_funcs = n_calls = 0
    for f in all_nested:
        q = f.qualname
        if q not in ref:
            continue
        n_funcs += 1
        problems = []
        for key, rinst in sorted(ref[q].items()):
            cinst = cur.get(q, {}).get(key)
            if cinst is None:
                continue
            n_calls += 1
            verdict, wit = compare_calls(rinst, cinst)
            if verdict in ('skipped', 'extra'):
                problems.append((verdict, key, wit))
        ctx.check(rule, not problems, '%s: calls under their confirmed conditions' % f.short,
                  f.loc,
                  msg='%s: the call %s is now %s when [%s]' % (
                      f.short, problems[0][1][:80] if problems else '',
                      {'skipped': 'skipped on a path that used to make it',
                       'extra': 'made on a path that used not to make it'}.get(
                           problems[0][0] if problems else '', ''),
                      problems[0][2] if problems else ''),
                  key='%s|%s|calls' % (rule, q))
    ctx.extra['%s_functions' % rule] = n_funcs
    ctx.extra['%s_calls' % rule] = n_calls
    ctx.floor(rule, n_funcs, min_funcs, 'functions compared with the reference')
