"""Virtual inlining of helpers the reference tree does not have.

"Extract method" is the most common behaviour-preserving edit: part of a
function moves, verbatim, into a new private helper that the function now
calls.  Every rule anchored in the function would lose sight of the moved
code.  Before the rules run, calls of functions that are *new* with respect to
the confirmed tree (their qualified name is not in reference/expressions.json)
are replaced, in the in-memory AST of the caller, by the helper's body with
the parameters bound to the arguments.  The rules then see the function as it
was before the extraction; the helper itself stays in the model as well.

Supported call shapes
  * ``helper(args)`` / ``self.helper(args)`` as a statement of its own;
  * ``x = helper(args)`` and ``return helper(args)``;
  * a call anywhere in an expression when the helper is a single ``return E``.
``return`` statements of the helper are eliminated structurally (``if c:
return`` followed by the rest becomes ``if c: ... else: rest``); a helper that
returns from inside a loop/try/with, yields, recurses, takes ``*args`` or has
nested definitions is not inlined (the caller is then analysed as written).
"""
import ast
import copy


class Unsupported(Exception):
    pass


def _func_table(modules):
    """{qualname: (FunctionDef, modname, class name or None)} for top-level
    functions and methods (nested functions are not helpers)."""
    table = {}

    def visit(body, prefix, modname, cls):
        for st in body:
            if isinstance(st, (ast.FunctionDef,)):
                table[prefix + st.name] = (st, modname, cls)
            elif isinstance(st, ast.ClassDef):
                visit(st.body, prefix + st.name + '.', modname, st.name)
            elif isinstance(st, (ast.If, ast.Try)):
                visit(getattr(st, 'body', []), prefix, modname, cls)
                visit(getattr(st, 'orelse', []), prefix, modname, cls)
    for modname, tree in modules.items():
        visit(tree.body, modname + '.', modname, None)
    return table


def _walk_no_defs(node):
    """ast.walk that does not enter nested function/class definitions."""
    todo = list(ast.iter_child_nodes(node))
    while todo:
        n = todo.pop()
        yield n
        if isinstance(n, (ast.FunctionDef, ast.AsyncFunctionDef, ast.ClassDef, ast.Lambda)):
            continue
        todo.extend(ast.iter_child_nodes(n))


def _has_return(node):
    if isinstance(node, ast.Return):
        return True
    return any(isinstance(n, ast.Return) for n in _walk_no_defs(node))


def _body_without_doc(fn):
    body = list(fn.body)
    if body and isinstance(body[0], ast.Expr) and isinstance(body[0].value, ast.Constant) and \
            isinstance(body[0].value.value, str):
        body = body[1:]
    return body


def _inlinable(fn):
    a = fn.args
    if a.vararg or a.kwarg or a.posonlyargs:
        return False
    for d in fn.decorator_list:
        f_ = d.func if isinstance(d, ast.Call) else d
        nm = f_.attr if isinstance(f_, ast.Attribute) else getattr(f_, 'id', None)
        # a (correct) cache computes what the function computes; whether it is correct is the
        # interface rule's question
        if nm not in ('staticmethod', 'classmethod', 'lru_cache', 'cache'):
            return False
    for n in _walk_no_defs(fn):
        if isinstance(n, (ast.Yield, ast.YieldFrom, ast.Await, ast.Global, ast.Nonlocal,
                          ast.FunctionDef, ast.AsyncFunctionDef, ast.ClassDef)):
            return False
        if isinstance(n, ast.Call):
            f = n.func
            nm = f.attr if isinstance(f, ast.Attribute) else getattr(f, 'id', None)
            if nm == fn.name:
                return False       # recursive
    return True


def _simple_arg(e):
    if isinstance(e, (ast.Name, ast.Constant)):
        return True
    if isinstance(e, ast.Attribute):
        return _simple_arg(e.value)
    if isinstance(e, ast.Subscript):
        return _simple_arg(e.value) and isinstance(e.slice, ast.Constant)
    return False


def _bind(fn, call, is_method_call):
    """{param: arg expression} or raise Unsupported."""
    a = fn.args
    params = [p.arg for p in a.args]
    static = any(isinstance(d, ast.Name) and d.id == 'staticmethod' for d in fn.decorator_list)
    binding = {}
    if is_method_call and not static:
        if not params:
            raise Unsupported('method without self')
        binding[params[0]] = call.func.value if isinstance(call.func, ast.Attribute) else None
        params = params[1:]
    if any(isinstance(x, ast.Starred) for x in call.args) or \
            any(k.arg is None for k in call.keywords):
        raise Unsupported('star args')
    if len(call.args) > len(params):
        raise Unsupported('too many args')
    for p, x in zip(params, call.args):
        binding[p] = x
    kwonly = [p.arg for p in a.kwonlyargs]
    for k in call.keywords:
        if k.arg in binding or (k.arg not in params and k.arg not in kwonly):
            raise Unsupported('bad keyword')
        binding[k.arg] = k.value
    defaults = dict(zip(reversed([p.arg for p in a.args]), reversed(a.defaults)))
    for p, d in zip(kwonly, a.kw_defaults):
        if d is not None:
            defaults[p] = d
    for p in params + kwonly:
        if p not in binding:
            if p not in defaults:
                raise Unsupported('missing argument')
            binding[p] = defaults[p]
    return binding


class _Subst(ast.NodeTransformer):
    def __init__(self, mapping):
        self.mapping = mapping

    def visit_Name(self, node):
        if isinstance(node.ctx, ast.Load) and node.id in self.mapping:
            return ast.copy_location(copy.deepcopy(self.mapping[node.id]), node)
        return node


def _assigned_names(stmts):
    out = set()
    for st in stmts:
        for n in [st] + list(_walk_no_defs(st)):
            if isinstance(n, ast.Name) and isinstance(n.ctx, (ast.Store, ast.Del)):
                out.add(n.id)
    return out


def _instantiate(fn, binding):
    """Body of ``fn`` with parameters replaced: (prologue + body statements)."""
    body = copy.deepcopy(_body_without_doc(fn))
    assigned = _assigned_names(body)
    reads = {}
    for st in body:
        for n in [st] + list(_walk_no_defs(st)):
            if isinstance(n, ast.Name) and isinstance(n.ctx, ast.Load):
                reads[n.id] = reads.get(n.id, 0) + 1
    mapping = {}
    prologue = []
    for p, x in binding.items():
        if x is None:
            continue
        if isinstance(x, ast.Name) and x.id == p and p not in assigned:
            continue                       # same name: nothing to do
        if p not in assigned and (_simple_arg(x) or reads.get(p, 0) <= 1):
            mapping[p] = x
        else:
            asg = ast.Assign(targets=[ast.Name(id=p, ctx=ast.Store())], value=copy.deepcopy(x))
            prologue.append(asg)
    if mapping:
        s = _Subst(mapping)
        body = [s.visit(st) for st in body]
    return prologue + body


def _elim(stmts, cont, on_return, top=True):
    """Return-free version of ``stmts``; ``cont`` (already return-free) runs
    where the block falls through.  ``on_return(ret)`` -> statements."""
    out = []
    for i, st in enumerate(stmts):
        if isinstance(st, ast.Return):
            out.extend(on_return(st))
            return out
        if not _has_return(st):
            out.append(st)
            continue
        rest = stmts[i + 1:]
        if isinstance(st, ast.If):
            tail = _elim(rest, cont, on_return, top)
            new = ast.If(test=st.test,
                         body=_elim(st.body, tail, on_return, top) or [ast.Pass()],
                         orelse=_elim(st.orelse, copy.deepcopy(tail), on_return, top))
            out.append(ast.copy_location(new, st))
            return out
        if isinstance(st, (ast.For, ast.While)) and top and not rest and not cont and \
                not st.orelse and on_return(ast.Return(value=None)) == []:
            # bare returns in the last loop of the helper: leave the loop instead
            for n in _walk_no_defs(st):
                if isinstance(n, (ast.For, ast.While)) and _has_return(n):
                    raise Unsupported('return in nested loop')
            for blk_owner in [st] + [n for n in _walk_no_defs(st)]:
                for field in ('body', 'orelse', 'finalbody'):
                    blk = getattr(blk_owner, field, None)
                    if isinstance(blk, list):
                        for j, s in enumerate(blk):
                            if isinstance(s, ast.Return):
                                if s.value is not None:
                                    raise Unsupported('valued return in loop')
                                blk[j] = ast.copy_location(ast.Break(), s)
            out.append(st)
            return out
        if isinstance(st, ast.Try) and not st.orelse and not st.finalbody and st.body and \
                isinstance(st.body[-1], ast.Return) and \
                not any(_has_return(x) for x in st.body[:-1]) and \
                all(_always_leaves(h.body) and not any(_has_return(x) for x in h.body)
                    for h in st.handlers):
            # `try: ...; return E` whose handlers all re-raise: the value is produced inside the
            # try and nothing after it runs
            new = ast.Try(body=st.body[:-1] + on_return(st.body[-1]) or [ast.Pass()],
                          handlers=st.handlers, orelse=[], finalbody=[])
            out.append(ast.copy_location(new, st))
            return out
        raise Unsupported('return inside %s' % type(st).__name__)
    if not (out and isinstance(out[-1], (ast.Raise, ast.Return, ast.Continue, ast.Break))):
        out.extend(cont)
    return out


def _single_return_expr(fn):
    body = _body_without_doc(fn)
    if len(body) == 1 and isinstance(body[0], ast.Return) and body[0].value is not None:
        return body[0].value
    return None


class Inliner:
    def __init__(self, modules, known):
        self.modules = modules
        self.table = _func_table(modules)
        self.new = {q: v for q, v in self.table.items() if q not in known}
        self.stats = []
        self.dropped = []
        self.by_name = {}
        for q, (fn, mod, cls) in self.new.items():
            self.by_name.setdefault(fn.name, []).append((q, fn, mod, cls))

    # -- resolution ----------------------------------------------------
    def resolve(self, call, modname, cls):
        """-> (qualname, FunctionDef, is_method_call) or None."""
        f = call.func
        if isinstance(f, ast.Name):
            cands = [c for c in self.by_name.get(f.id, ()) if c[3] is None]
            same = [c for c in cands if c[2] == modname]
            pick = same or (cands if len(cands) == 1 else [])
            if len(pick) == 1:
                return pick[0][0], pick[0][1], False
            return None
        if isinstance(f, ast.Attribute) and isinstance(f.value, ast.Name) and \
                f.value.id in ('self', 'cls'):
            cands = [c for c in self.by_name.get(f.attr, ()) if c[3] is not None]
            same = [c for c in cands if c[2] == modname and c[3] == cls]
            pick = same or (cands if len(cands) == 1 else [])
            if len(pick) == 1:
                return pick[0][0], pick[0][1], True
            return None
        return None

    # -- one function --------------------------------------------------
    def process_function(self, fn, q, modname, cls):
        changed = False

        def try_stmt(st):
            """-> replacement statement list or None."""
            call = mode = None
            if isinstance(st, ast.Expr) and isinstance(st.value, ast.Call):
                call, mode = st.value, 'stmt'
            elif isinstance(st, ast.Assign) and isinstance(st.value, ast.Call):
                call, mode = st.value, 'assign'
            elif isinstance(st, ast.Return) and isinstance(st.value, ast.Call):
                call, mode = st.value, 'return'
            hoisted = None
            if call is None or self.resolve(call, modname, cls) is None:
                # a helper called inside the statement's expression: evaluate it into a
                # temporary first (`xs.extend(helper(a))` -> `_t = helper(a); xs.extend(_t)`)
                if isinstance(st, (ast.Expr, ast.Assign, ast.AugAssign, ast.Return)) and \
                        getattr(st, 'value', None) is not None:
                    cands = []
                    for n in ast.walk(st.value):
                        if isinstance(n, (ast.Lambda, ast.ListComp, ast.SetComp, ast.DictComp,
                                          ast.GeneratorExp, ast.IfExp, ast.BoolOp)):
                            cands = None
                            break
                        if isinstance(n, ast.Call) and n is not st.value:
                            r0 = self.resolve(n, modname, cls)
                            if r0 is not None and _inlinable(r0[1]) and \
                                    _single_return_expr(r0[1]) is None:
                                cands.append(n)
                    if cands and len(cands) == 1:
                        hoisted = cands[0]
                if hoisted is None:
                    return None
                call, mode = hoisted, 'hoist'
            r = self.resolve(call, modname, cls)
            if r is None:
                return None
            hq, hfn, is_m = r
            if hfn is fn or not _inlinable(hfn):
                return None
            try:
                binding = _bind(hfn, call, is_m)
                body = _instantiate(hfn, binding)
                if mode == 'stmt':
                    def on_return(ret):
                        if ret.value is not None and isinstance(ret.value, ast.Call):
                            return [ast.copy_location(ast.Expr(value=ret.value), ret)]
                        return []
                    new = _elim(body, [], on_return)
                elif mode == 'hoist':
                    tmp = '_inl_%s' % hfn.name.strip('_')
                    targets = [ast.Name(id=tmp, ctx=ast.Store())]

                    def on_return(ret):
                        v = ret.value if ret.value is not None else ast.Constant(value=None)
                        a = ast.Assign(targets=copy.deepcopy(targets), value=v)
                        return [ast.copy_location(a, ret)]
                    none = ast.Assign(targets=copy.deepcopy(targets),
                                      value=ast.Constant(value=None))
                    new = _elim(body, [ast.copy_location(none, st)], on_return)

                    class Rep(ast.NodeTransformer):
                        def visit_Call(self, node):
                            if node is call:
                                return ast.copy_location(ast.Name(id=tmp, ctx=ast.Load()), node)
                            return self.generic_visit(node)
                    st.value = Rep().visit(st.value)
                    new = new + [st]
                elif mode == 'assign':
                    def on_return(ret):
                        v = ret.value if ret.value is not None else ast.Constant(value=None)
                        a = ast.Assign(targets=copy.deepcopy(st.targets), value=v)
                        return [ast.copy_location(a, ret)]
                    none = ast.Assign(targets=copy.deepcopy(st.targets),
                                      value=ast.Constant(value=None))
                    new = _elim(body, [ast.copy_location(none, st)], on_return)
                else:
                    # returning from the helper is returning from the caller
                    new = body
                    if not body or not _always_returns(body):
                        new = body + [ast.copy_location(ast.Return(value=None), st)]
            except Unsupported:
                return None
            if not new:
                new = [ast.copy_location(ast.Pass(), st)]
            # the spliced statements take the position of the call: flow-sensitive helpers
            # order statements by line, and a report inside the moved code points at the call
            for s in new:
                for n in ast.walk(s):
                    if hasattr(n, 'lineno') or isinstance(n, (ast.expr, ast.stmt)):
                        n.lineno, n.col_offset = st.lineno, st.col_offset
                        n.end_lineno = getattr(st, 'end_lineno', st.lineno)
                        n.end_col_offset = getattr(st, 'end_col_offset', st.col_offset)
            self.stats.append((q, hq, mode))
            return new

        def do_block(blk):
            nonlocal changed
            i = 0
            while i < len(blk):
                st = blk[i]
                if isinstance(st, (ast.FunctionDef, ast.AsyncFunctionDef, ast.ClassDef)):
                    i += 1
                    continue
                rep = try_stmt(st)
                if rep is not None:
                    blk[i:i + 1] = rep
                    changed = True
                    continue            # re-examine the spliced statements
                for field in ('body', 'orelse', 'finalbody'):
                    sub = getattr(st, field, None)
                    if isinstance(sub, list):
                        do_block(sub)
                for h in getattr(st, 'handlers', []) or []:
                    do_block(h.body)
                for c in getattr(st, 'cases', []) or []:
                    do_block(c.body)
                i += 1

        do_block(fn.body)

        # expression-level: helpers that are a single `return E`
        outer = self

        class ExprInline(ast.NodeTransformer):
            def visit_FunctionDef(self, node):
                return node if node is not fn else self.generic_visit(node)

            def visit_Lambda(self, node):
                return node

            def visit_Call(self, node):
                nonlocal changed
                self.generic_visit(node)
                r = outer.resolve(node, modname, cls)
                if r is None:
                    return node
                hq, hfn, is_m = r
                if hfn is fn or not _inlinable(hfn):
                    return node
                e = _single_return_expr(hfn)
                if e is None:
                    return node
                try:
                    binding = _bind(hfn, node, is_m)
                except Unsupported:
                    return node
                mapping = {p: x for p, x in binding.items() if x is not None and
                           not (isinstance(x, ast.Name) and x.id == p)}
                # every parameter read at most once, or bound to a simple expression
                reads = {}
                for n in ast.walk(e):
                    if isinstance(n, ast.Name):
                        reads[n.id] = reads.get(n.id, 0) + 1
                if any(not _simple_arg(x) and reads.get(p, 0) > 1 for p, x in mapping.items()):
                    return node
                new = _Subst(mapping).visit(copy.deepcopy(e))
                for n in ast.walk(new):
                    if isinstance(n, (ast.expr, ast.stmt)):
                        n.lineno, n.col_offset = node.lineno, node.col_offset
                        n.end_lineno = getattr(node, 'end_lineno', node.lineno)
                        n.end_col_offset = getattr(node, 'end_col_offset', node.col_offset)
                changed = True
                outer.stats.append((q, hq, 'expr'))
                return new
        ExprInline().visit(fn)
        return changed

    def run(self):
        if not self.new:
            return []
        for _ in range(3):
            any_change = False
            # helpers first, so that chains of new helpers collapse
            order = sorted(self.table.items(), key=lambda kv: kv[0] not in self.new)
            for q, (fn, modname, cls) in order:
                if self.process_function(fn, q, modname, cls):
                    any_change = True
            if not any_change:
                break
        self._drop_dead_helpers()
        if self.stats:
            # `x = x` left by a helper that returned its local under the caller's name
            for tree in self.modules.values():
                for n in ast.walk(tree):
                    for fld in ('body', 'orelse', 'finalbody'):
                        blk = getattr(n, fld, None)
                        if not isinstance(blk, list):
                            continue
                        for s in blk:
                            # `a, b = a, b` / `a, b = a, E`: the identical pairs go
                            if isinstance(s, ast.Assign) and len(s.targets) == 1 and \
                                    isinstance(s.targets[0], ast.Tuple) and \
                                    isinstance(s.value, ast.Tuple) and \
                                    len(s.targets[0].elts) == len(s.value.elts) and \
                                    all(isinstance(t, ast.Name) for t in s.targets[0].elts):
                                pairs = [(t, v) for t, v in zip(s.targets[0].elts, s.value.elts)
                                         if not (isinstance(v, ast.Name) and v.id == t.id)]
                                names = {t.id for t in s.targets[0].elts}
                                if len(pairs) < len(s.value.elts) and not any(
                                        isinstance(x, ast.Name) and x.id in names
                                        for _, v in pairs for x in ast.walk(v)):
                                    if not pairs:
                                        t0 = s.targets[0].elts[0]
                                        s.targets, s.value = [t0], ast.Name(id=t0.id, ctx=ast.Load())
                                    elif len(pairs) == 1:
                                        s.targets, s.value = [pairs[0][0]], pairs[0][1]
                                    else:
                                        s.targets[0].elts = [t for t, _ in pairs]
                                        s.value.elts = [v for _, v in pairs]
                        keep = [s for s in blk if not (
                            isinstance(s, ast.Assign) and len(s.targets) == 1 and
                            isinstance(s.targets[0], ast.Name) and isinstance(s.value, ast.Name)
                            and s.value.id == s.targets[0].id)]
                        if len(keep) != len(blk):
                            blk[:] = keep or [ast.copy_location(ast.Pass(), blk[0])]
        for tree in self.modules.values():
            ast.fix_missing_locations(tree)
        return self.stats

    def _drop_dead_helpers(self):
        """A new helper every use of which was inlined is no longer part of the
        program the rules look at (its code now lives in its callers)."""
        inlined = {h for _, h, _ in self.stats}
        for hq in sorted(inlined):
            fn, modname, cls = self.new[hq]
            used = False
            for tree in self.modules.values():
                for n in ast.walk(tree):
                    if isinstance(n, ast.Attribute) and n.attr == fn.name:
                        used = True
                    elif isinstance(n, ast.Name) and n.id == fn.name and cls is None:
                        used = True
                    elif isinstance(n, ast.Constant) and n.value == fn.name:
                        used = True      # getattr(self, 'name') and the like
                if used:
                    break
            if used:
                continue
            for tree in self.modules.values():
                for n in ast.walk(tree):
                    for field in ('body', 'orelse'):
                        blk = getattr(n, field, None)
                        if isinstance(blk, list) and fn in blk:
                            blk.remove(fn)
                            if not blk:
                                blk.append(ast.copy_location(ast.Pass(), fn))
                            self.dropped.append(hq)


def _always_leaves(stmts):
    if not stmts:
        return False
    last = stmts[-1]
    if isinstance(last, ast.Raise):
        return True
    if isinstance(last, ast.If):
        return bool(last.orelse) and _always_leaves(last.body) and _always_leaves(last.orelse)
    return False


def _always_returns(stmts):
    if not stmts:
        return False
    last = stmts[-1]
    if isinstance(last, (ast.Return, ast.Raise)):
        return True
    if isinstance(last, ast.If):
        return bool(last.orelse) and _always_returns(last.body) and _always_returns(last.orelse)
    return False


def _fn_signature(fn):
    """Body of a function without its name and docstring, for recognising a pure rename."""
    body = _body_without_doc(fn)
    return ast.dump(ast.Module(body=body, type_ignores=[])) + '|' + ast.dump(fn.args) + '|' + \
        '|'.join(ast.dump(d) for d in fn.decorator_list)


def undo_renames(modules, known):
    """A private function that vanished while a new one with the very same parameters and
    body appeared in the same module/class was renamed: give it (and every reference to it)
    its reference name back.  -> [(new qualname, old qualname)]"""
    table = _func_table(modules)
    missing = [q for q in known if q not in table]
    new = [q for q in table if q not in known]
    if not missing or not new:
        return []
    done = []
    for nq in sorted(new):
        fn, modname, cls = table[nq]
        scope = nq.rsplit('.', 1)[0]
        cands = [m for m in missing if m.rsplit('.', 1)[0] == scope]
        if len(cands) != 1 and cands:
            # several vanished: only an identical-arity candidate set of one is a rename
            pass
        for oq in cands:
            old_name = oq.rsplit('.', 1)[1]
            if old_name in {t.rsplit('.', 1)[1] for t in table if t.rsplit('.', 1)[0] == scope}:
                continue
            # bodies cannot be compared with the reference (it keeps no bodies): accept when it
            # is the only vanished and the only new function of that scope
            new_here = [x for x in new if x.rsplit('.', 1)[0] == scope]
            if len(cands) == 1 and len(new_here) == 1:
                new_name = fn.name
                for tree in modules.values():
                    for n in ast.walk(tree):
                        if isinstance(n, ast.Attribute) and n.attr == new_name:
                            n.attr = old_name
                        elif isinstance(n, ast.Name) and n.id == new_name:
                            n.id = old_name
                        elif isinstance(n, (ast.FunctionDef, ast.AsyncFunctionDef)) and \
                                n.name == new_name:
                            n.name = old_name
                        elif isinstance(n, ast.alias) and n.name == new_name:
                            n.name = old_name
                done.append((nq, oq))
                missing.remove(oq)
                break
    return done


def undo_param_renames(modules, known_params):
    """A parameter that got another name at the same position (and is not passed by keyword
    anywhere in the repository) is renamed back, like a local.  known_params: {qualname: [names]}"""
    table = _func_table(modules)
    kw_used = set()
    for tree in modules.values():
        for n in ast.walk(tree):
            if isinstance(n, ast.Call):
                kw_used.update(k.arg for k in n.keywords if k.arg)
    done = []
    for q, (fn, modname, cls) in table.items():
        ref = known_params.get(q)
        if ref is None:
            continue
        a = fn.args
        cur = [x.arg for x in a.posonlyargs + a.args]
        if len(cur) != len(ref) or cur == ref or a.vararg or a.kwarg:
            continue
        m = {c: r for c, r in zip(cur, ref) if c != r}
        if any(c in kw_used or r in kw_used for c, r in m.items()):
            continue
        existing = {n.id for n in ast.walk(fn) if isinstance(n, ast.Name)} | set(cur)
        if any(r in existing for r in m.values()):
            continue
        for n in ast.walk(fn):
            if isinstance(n, ast.Name) and n.id in m:
                n.id = m[n.id]
            elif isinstance(n, ast.arg) and n.arg in m:
                n.arg = m[n.arg]
        done.append((q, m))
    return done


def keyword_table(modules):
    """{simple name: parameter list} of the functions (and class constructors) of the
    repository whose name determines one parameter list."""
    return _keyword_table(modules)


def positional_keywords(node, by_name):
    """Normal form of a call to a function of the repository: an argument passed by keyword
    whose parameter is the next positional one is written positionally (``f(a, y=b)`` is
    ``f(a, b)`` when y is f's second parameter); remaining keywords are put in parameter order.
    The callee is found by its simple name; the rewrite happens only when every function (or
    class constructor) of that name in the repository has the same parameter list."""
    count = 0
    for tree in (node,):
        for n in ast.walk(tree):
            if not (isinstance(n, ast.Call) and n.keywords):
                continue
            f = n.func
            name = f.attr if isinstance(f, ast.Attribute) else getattr(f, 'id', None)
            params = by_name.get(name)
            if params is None:
                continue
            if any(k.arg is None or k.arg not in params for k in n.keywords) or \
                    any(isinstance(x, ast.Starred) for x in n.args):
                continue
            kws = {k.arg: k for k in n.keywords}
            if len(kws) != len(n.keywords):
                continue
            i = len(n.args)
            moved = False
            while i < len(params) and params[i] in kws:
                n.args.append(kws.pop(params[i]).value)
                i += 1
                moved = True
            rest = sorted(kws.values(), key=lambda k: params.index(k.arg))
            if moved or [k.arg for k in rest] != [k.arg for k in n.keywords]:
                count += 1
            n.keywords = rest
    return count


def _keyword_table(modules):
    table = _func_table(modules)
    by_name = {}
    for q, (fn, modname, cls) in table.items():
        a = fn.args
        if a.vararg or a.posonlyargs:
            params = None
        else:
            params = [x.arg for x in a.args]
            static = any(isinstance(d, ast.Name) and d.id == 'staticmethod' for d in fn.decorator_list)
            if cls and not static and params:
                params = params[1:]
        name = q.rsplit('.', 1)[1]
        if name == '__init__' and cls:
            name = cls.rsplit('.', 1)[-1] if isinstance(cls, str) else getattr(cls, 'name', None)
        elif name.startswith('__'):
            continue
        if name:
            by_name.setdefault(name, []).append(params)
    return {n: c[0] for n, c in by_name.items()
            if c[0] is not None and all(x == c[0] for x in c)}


def fold_new_constants(modules, known_constants):
    """A module-level name bound once to a literal, that the reference module does not have,
    names a repeated literal: put the literal back where the name is read.
    known_constants: {module name: set of constant names of the reference}"""
    done = []
    for modname, tree in modules.items():
        ref = known_constants.get(modname)
        if ref is None:
            continue
        binds = {}
        for st in tree.body:
            if isinstance(st, ast.Assign) and len(st.targets) == 1 and \
                    isinstance(st.targets[0], ast.Name):
                binds.setdefault(st.targets[0].id, []).append(st)
        for name, sts in binds.items():
            if name in ref or len(sts) != 1:
                continue
            v = sts[0].value
            scalar = isinstance(v, ast.Constant) and isinstance(v.value, (str, int, float, bytes)) \
                and not isinstance(v.value, bool)
            immutable = isinstance(v, ast.Tuple) and all(isinstance(e, ast.Constant) for e in v.elts)
            if isinstance(v, ast.Call) and isinstance(v.func, ast.Name) and v.func.id == 'frozenset' \
                    and len(v.args) == 1 and isinstance(v.args[0], (ast.Tuple, ast.List, ast.Set)) \
                    and all(isinstance(e, ast.Constant) for e in v.args[0].elts):
                immutable = True
            if not (scalar or immutable):
                continue
            stores = sum(1 for n in ast.walk(tree) if isinstance(n, ast.Name) and n.id == name and
                         isinstance(n.ctx, (ast.Store, ast.Del)))
            if stores != 1:
                continue

            class Sub(ast.NodeTransformer):
                def visit_Name(self, node):
                    if node.id == name and isinstance(node.ctx, ast.Load):
                        new = copy.deepcopy(v)
                        if isinstance(new, ast.Call):        # frozenset((..)) -> the display
                            new = ast.Tuple(elts=new.args[0].elts, ctx=ast.Load())
                        for x in ast.walk(new):
                            ast.copy_location(x, node)
                        return new
                    return node
            Sub().visit(tree)
            tree.body.remove(sts[0])
            done.append((modname, name))
    return done


def inline_new_helpers(modules, known):
    """modules: {modname: ast.Module}; known: qualified names of the functions
    of the reference tree.  -> [(caller, helper, mode)]"""
    return Inliner(modules, known).run()
