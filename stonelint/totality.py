"""Backend totality pack (DESIGN A4 applied to IR consumers): a generator
completes for every accepted spec only if

* every read of a class-specific IR attribute is defined for every class that
  can reach it (``attr_reads``),
* every raise/assert is a dispatch default no reaching class can hit
  (``raises``),
* every class-keyed table lookup with a "looks like a type name" default is
  reached only by classes that are keys (``tables``).

The functions are parameterised by rule id so that each property that depends
on a backend completing (C09, C14, C15, C16, C17) can run them on its own
modules.  Universes come from stonelint.irflow.
"""
import ast

from .lattice import class_test
from .model import dotted, own_nodes, unparse
from .pathcond import path_info

DEFAULTABLE = frozenset({'Boolean', 'Bytes', 'Float32', 'Float64', 'Int32', 'Int64', 'UInt32',
                         'UInt64', 'String', 'Timestamp'})


def _origin_key(prov):
    """Line-free key of a provenance string."""
    import re
    p = re.sub(r' \(.*\)$', '', prov)
    return re.sub(r':\d+$', '', p)


# ---------------------------------------------------------------- R5 (python)
def attr_reads(pm, ctx, ia, flow, rule, floor=0, what='the backends'):
    field_specific = ia.attrs_of('StructField') ^ ia.attrs_of('UnionField')
    n_typed = n_untyped = 0
    for f in flow._all_funcs():
        seen = set()
        for a in own_nodes(f.node):
            if not (isinstance(a, ast.Attribute) and isinstance(a.ctx, ast.Load)):
                continue
            if a.attr not in ia.specific and a.attr not in field_specific:
                continue
            subj = unparse(a.value)
            cs = flow.classes_at(f, a, a.value)
            if cs is None:
                n_untyped += 1
                continue
            n_typed += 1
            lack = sorted(c for c in cs if a.attr not in ia.attrs_of(c))
            base = '%s|%s|%s.%s' % (rule, f.qualname, subj, a.attr)
            if not lack:
                if base not in seen:
                    seen.add(base)
                    ctx.check(rule, True, '%s reads %s.%s' % (f.short, subj, a.attr),
                              '%s:%d' % (f.module.relpath, a.lineno), key=base)
                continue
            # one finding per origin of the offending classes (call site / schema attribute)
            by_origin = {}
            for c in lack:
                by_origin.setdefault(_origin_key(cs[c]), (cs[c], []))[1].append(c)
            for ok_, (prov, classes) in sorted(by_origin.items()):
                key = '%s|from %s' % (base, ok_)
                if key in seen:
                    continue
                seen.add(key)
                ctx.check(rule, False, '%s reads %s.%s' % (f.short, subj, a.attr),
                          '%s:%d' % (f.module.relpath, a.lineno),
                          msg='%s.%s is read for %s, which %s not define it (AttributeError); the '
                              'value comes from %s' % (subj, a.attr, ', '.join(classes),
                                                       'does' if len(classes) == 1 else 'do', prov),
                          key=key)
    ctx.extra['%s_attr_reads_typed' % rule] = n_typed
    ctx.extra['%s_attr_reads_untyped' % rule] = n_untyped
    ctx.floor(rule, n_typed, floor, 'typed IR attribute reads in %s' % what)


# ---------------------------------------------------------------- R1
def _has_default_guarded(flow, f):
    """Every call site of ``f`` (python and template) runs under a
    ``<x>.has_default`` test on its argument."""
    sites = flow.sites.get(f.qualname, [])
    tsites = flow.template_sites.get(f.qualname, [])
    if not sites and not tsites:
        return False
    for caller, call in sites:
        if not call.args:
            return False
        want = unparse(call.args[0]) + '.has_default'
        pi = path_info(caller.node)
        if not any(unparse(e) == want and pol for e, pol in pi.at(call)):
            return False
    for fact in tsites:
        if not getattr(fact, 'default_guarded', False):
            return False
    return True


def frontend_doc_tags(pm):
    """Doc-reference tags the frontend lets through (every other tag is an
    InvalidSpec): the literals ``tag`` is compared with in
    IRGenerator._validate_doc_refs_helper, provided its dispatch ends in a
    raise."""
    from .model import AnalysisError
    v = pm.func('stone.frontend.ir_generator.IRGenerator._validate_doc_refs_helper')
    tags = set()
    for n in own_nodes(v.node):
        L = _literal_set(n, 'tag') if isinstance(n, ast.Compare) else None
        if L:
            tags |= {t for t in L if isinstance(t, str)}
    # closed: some raise of the spec error is reached exactly when tag is none of them
    pi = path_info(v.node)
    closed = False
    for n in own_nodes(v.node):
        if isinstance(n, ast.Raise) and n.exc is not None and 'InvalidSpec' in unparse(n.exc):
            excluded = set()
            for e, pol in pi.at(n):
                L = _literal_set(e, 'tag')
                if L is not None and not pol:
                    excluded |= L
            if tags and excluded >= tags:
                closed = True
    if len(tags) < 3 or not closed:
        raise AnalysisError('anchor=%s (doc tag dispatch not recognised)' % v.qualname)
    return frozenset(tags)


def _literal_set(e, subject):
    """Literals L such that the test is ``subject == l`` / ``subject in (l..)``."""
    if isinstance(e, ast.Compare) and len(e.ops) == 1 and unparse(e.left) == subject:
        c = e.comparators[0]
        if isinstance(e.ops[0], ast.Eq) and isinstance(c, ast.Constant):
            return {c.value}
        if isinstance(e.ops[0], ast.In) and isinstance(c, (ast.Tuple, ast.List, ast.Set)) and \
                all(isinstance(x, ast.Constant) for x in c.elts):
            return {x.value for x in c.elts}
    return None


def _spec_dependent(f, exprs):
    """Do the expressions mention a parameter (other than self/cls) or a local
    that is derived from one?  Otherwise they only involve backend options,
    the file system and constants."""
    from .dataflow import defs
    d = defs(f.node)
    seen, todo = set(), []
    for e in exprs:
        todo.extend(x.id for x in ast.walk(e) if isinstance(x, ast.Name))
    while todo:
        nm = todo.pop()
        if nm in seen:
            continue
        seen.add(nm)
        if nm in d.params and nm not in ('self', 'cls'):
            return True
        for v in d.all_values(nm):
            todo.extend(x.id for x in ast.walk(v) if isinstance(x, ast.Name))
    g = f.parent
    while g is not None:      # closure variables of an enclosing function
        dg = defs(g.node)
        if any(nm in dg.params and nm not in ('self', 'cls') for nm in seen):
            return True
        g = g.parent
    return False


def _callsite_discharged(flow, f, test):
    """Every call site of ``f`` runs under the same test, with the parameter
    replaced by the argument."""
    sites = flow.sites.get(f.qualname, [])
    if not sites or flow.template_sites.get(f.qualname) or f.qualname in flow.escapes:
        return False
    params = flow._own_params(f)
    for caller, call in sites:
        sub = {}
        for p in params:
            a = flow._arg_for(f, call, p)
            if a is not None and not isinstance(a, str):
                sub[p] = unparse(a)

        class R(ast.NodeTransformer):
            def visit_Name(self, node):
                if node.id in sub:
                    return ast.parse(sub[node.id], mode='eval').body
                return node
        import copy
        want = unparse(R().visit(copy.deepcopy(test)))
        pi = path_info(caller.node)
        if not any(pol and unparse(e) == want for e, pol in pi.at(call)):
            return False
    return True


def raises(pm, ctx, ia, flow, rule, floor=0, config=None, what='the backends'):
    """Classify every raise/assert of the analysed functions:
    1. default of a class dispatch       -> reaching classes must be empty;
    2. default of a doc-tag dispatch     -> frontend tag set must be covered;
    3. condition not spec-dependent      -> configuration / internal state (exempt);
    4. assert repeated at every call site -> discharged;
    5. listed in the property's table    -> exempt with the recorded reason;
    6. otherwise                          -> a failure an accepted spec can reach."""
    config = config or {}
    fam = ia.fam
    literal_refused = True
    # defaultable classes: derived part -- List/Map/Struct.check always raise
    for c in sorted(ia.any - DEFAULTABLE):
        chk = pm.lookup_method(fam.classes[c], 'check')
        if c in ('List', 'Map', 'Struct'):
            always = chk is not None and not any(isinstance(n, ast.Return)
                                                 for n in own_nodes(chk.node)) and \
                isinstance(chk.node.body[-1], ast.Raise)
            literal_refused = literal_refused and always
            ctx.check(rule, always, '%s.check refuses every literal (no default possible)' % c,
                      chk.loc if chk else fam.module.relpath,
                      msg='%s.check can accept a literal again: %s fields may carry defaults, '
                          'which the default-value formatters cannot render' % (c, c),
                      key='%s|defaultable|%s' % (rule, c))
    sub = pm.func('stone.ir.data_types.Struct.set_enumerated_subtypes')
    nested_refused = any(isinstance(s, ast.If) and unparse(s.test) == 'self.parent_type' and
                         len(s.body) == 1 and isinstance(s.body[0], ast.Raise) and
                         'InvalidSpec' in unparse(s.body[0].exc) for s in sub.node.body)
    doc_tags = frontend_doc_tags(pm)
    n_sites = 0
    used_config = set()
    for f in flow._all_funcs():
        pi = path_info(f.node)
        for n in own_nodes(f.node):
            if isinstance(n, ast.Raise):
                exc = n.exc
                ename = dotted(exc.func) if isinstance(exc, ast.Call) else (dotted(exc) if exc
                                                                            is not None else 're')
                kind = 'raise %s' % ename
            elif isinstance(n, ast.Assert):
                kind = 'assert %s' % unparse(n.test)
            else:
                continue
            n_sites += 1
            where = '%s:%d' % (f.module.relpath, n.lineno)
            key = '%s|%s|%s' % (rule, f.qualname, kind)
            atoms = list(pi.at(n))
            if isinstance(n, ast.Assert):
                atoms = atoms + [(n.test, False)]
                if unparse(n.test) == 'len(tags) == 1':
                    ctx.check(rule, nested_refused,
                              '%s: %s holds because nested enumerated subtypes are refused'
                              % (f.short, kind), where,
                              msg='Struct.set_enumerated_subtypes no longer refuses a subtype '
                                  'that enumerates subtypes: tags of length 2 reach this assert',
                              key=key)
                    continue
                if unparse(n.test) == 'not isinstance(o, dict)' and f.name == 'fmt_obj':
                    ctx.check(rule, literal_refused,
                              '%s: %s holds because no default value is a dict' % (f.short, kind),
                              where, msg='a struct or map field can carry a literal default '
                                         'again: a dict reaches fmt_obj', key=key)
                    continue
            # 1. class dispatch
            subjects = []
            for e, pol in atoms:
                for x in ast.walk(e):
                    if isinstance(x, ast.Call) and len(x.args) >= 1 and \
                            isinstance(x.func, ast.Name):
                        s = unparse(x.args[0])
                        if class_test(pm, fam, f.module, x, s) is not None and s not in subjects:
                            subjects.append(s)
            if subjects:
                reach_all = {}
                unknown = []
                for s in subjects:
                    expr = ast.parse(s, mode='eval').body
                    for x in ast.walk(expr):
                        for ch in ast.iter_child_nodes(x):
                            ch._parent = x
                    seed = flow._seed(f, expr, 5, n)
                    if seed is None:
                        unknown.append(s)
                        continue
                    if f.name == 'fmt_default_value' and s.endswith('.data_type') and \
                            _has_default_guarded(flow, f):
                        seed = {c: 'a defaulted field' for c in seed if c in DEFAULTABLE}
                    cur = set(seed)
                    full = fam.universe()
                    for e, pol in atoms:
                        t = class_test(pm, fam, f.module, e, s)
                        if t is not None:
                            cur &= (t if pol else full - t)
                    cur -= flow._precondition_excluded(f, n, s)
                    for c in cur:
                        reach_all[c] = seed[c]
                reason = config.get((f.short, kind))
                if reach_all and reason:
                    used_config.add((f.short, kind))
                    ctx.exempt(rule, '%s: %s @ %s' % (f.short, kind, where), reason)
                    continue
                if unknown and not reach_all:
                    ctx.note('%s: %s at %s -- the classes of %s that reach it cannot be bounded '
                             '(no resolvable call site); not claimed'
                             % (f.short, kind, where, ', '.join(unknown)))
                    ctx.extra.setdefault('%s_unbounded' % rule, []).append('%s|%s' % (f.short,
                                                                                      kind))
                    continue
                lack = sorted(reach_all)
                ctx.check(rule, not lack, '%s: %s is reached by no class' % (f.short, kind),
                          where, msg='%s executes %s for %s (from %s)'
                          % (f.short, kind, ', '.join(lack),
                             '; '.join(sorted({reach_all[c] for c in lack})[:3])), key=key)
                continue
            # 2. doc-tag dispatch
            handled = set()
            tag_subject = None
            for e, pol in atoms:
                for nm in ('tag',):
                    L = _literal_set(e, nm)
                    if L is not None and not pol:
                        handled |= L
                        tag_subject = nm
            if tag_subject and tag_subject in f.params and all(
                    _literal_set(e, tag_subject) is not None for e, pol in atoms):
                missing = sorted(doc_tags - handled)
                ctx.check(rule, not missing, '%s: %s is reached by no doc tag the frontend accepts'
                          % (f.short, kind), where,
                          msg='%s executes %s for the doc tag(s) %s, which the frontend accepts'
                              % (f.short, kind, ', '.join(missing)), key=key)
                continue
            # 3. not spec-dependent
            if not _spec_dependent(f, [e for e, _ in atoms]):
                ctx.exempt(rule, '%s: %s @ %s' % (f.short, kind, where),
                           'its condition involves only backend options, the file system or '
                           'constants, not the spec')
                continue
            # 4. assert repeated by every caller
            if isinstance(n, ast.Assert) and len(pi.at(n)) == 0 and \
                    _callsite_discharged(flow, f, n.test):
                ctx.ok(rule, '%s: %s holds at every call site' % (f.short, kind), where)
                continue
            # 5. the property's table
            reason = config.get((f.short, kind))
            if reason:
                used_config.add((f.short, kind))
                ctx.exempt(rule, '%s: %s @ %s' % (f.short, kind, where), reason)
                continue
            ctx.check(rule, False, '%s: %s cannot be reached by an accepted spec' % (f.short, kind),
                      where, msg='%s can execute %s for an accepted spec: no class or doc-tag '
                                 'dispatch, call-site guard or recorded precondition rules it '
                                 'out (conditions: %s)'
                      % (f.short, kind, ' and '.join(
                          ('' if p else 'not ') + unparse(e) for e, p in atoms) or 'none'),
                      key=key)
    for k in sorted(set(config) - used_config):
        ctx.note('%s: recorded precondition %s|%s matched no site' % (rule, k[0], k[1]))
    ctx.extra['%s_raise_assert_sites' % rule] = n_sites
    ctx.floor(rule, n_sites, floor, 'raise/assert sites in %s' % what)


# ---------------------------------------------------------------- R3
def tables(pm, ctx, ia, flow, rule, floor=0):
    fam = ia.fam
    n = 0
    for f in flow._all_funcs():
        for c in own_nodes(f.node):
            if not (isinstance(c, ast.Call) and isinstance(c.func, ast.Attribute) and
                    c.func.attr == 'get' and isinstance(c.func.value, ast.Name) and
                    len(c.args) == 2):
                continue
            tab = f.module.assigns.get(c.func.value.id)
            if not isinstance(tab, ast.Dict):
                continue
            keys = {fam.class_of_expr(f.module, k) for k in tab.keys}
            if None in keys or not keys:
                continue
            arg = c.args[0]
            if not (isinstance(arg, ast.Attribute) and arg.attr == '__class__'):
                continue
            n += 1
            cs = flow.classes_at(f, c, arg.value)
            where = '%s:%d' % (f.module.relpath, c.lineno)
            key = '%s|%s|%s' % (rule, f.qualname, c.func.value.id)
            if cs is None:
                ctx.note('%s: lookup in %s at %s -- classes cannot be bounded; not claimed'
                         % (f.short, c.func.value.id, where))
                ctx.extra.setdefault('%s_unbounded' % rule, []).append(
                    '%s|%s' % (f.short, c.func.value.id))
                continue
            # a user-defined type or alias is declared under its own name: the default is right
            lack = sorted(set(cs) - keys - {'Struct', 'Union', 'Alias'})
            ctx.check(rule, not lack, '%s: every class looked up in %s is a key'
                      % (f.short, c.func.value.id), where,
                      msg='%s looks up %s in %s, which has no such key: the default %s is '
                          'emitted as if it were a declared type (from %s)'
                          % (f.short, ', '.join(lack), c.func.value.id, unparse(c.args[1]),
                             '; '.join(sorted({cs[x] for x in lack})[:3])), key=key)
    ctx.floor(rule, n, floor, 'class-keyed table lookups with a default')




def run_pack(pm, ctx, rule, modules, preserve_aliases, what, config=None, floors=(0, 0, 0),
             title='the generator completes: IR attribute reads, dispatch defaults and type '
                   'tables are total over the classes that reach them'):
    """attr_reads + raises + tables over ``modules`` under one rule id."""
    from .irattrs import IRAttrs
    from .irflow import IRFlow
    ctx.rule(rule, title)
    ia = IRAttrs(pm)
    for m in modules:
        pm.module(m)
    flow = IRFlow(pm, ia, modules, (), preserve_aliases=preserve_aliases)
    attr_reads(pm, ctx, ia, flow, rule, floors[0], what)
    raises(pm, ctx, ia, flow, rule, floors[1], config, what)
    tables(pm, ctx, ia, flow, rule, floors[2])
    ctx.extra['%s_functions' % rule] = len(flow._all_funcs())
    return ia, flow
