"""C08 -- generated classes accept a value exactly when it satisfies the
declared type.  Structural part (DESIGN 4/C08): bound constants agree between
compiler and runtime; constraint profiles of ir.*.check and bv.*.validate are
well formed (a bound is itself admissible, right quantity, every parameter has
its constraint); every type parameter is forwarded to the runtime validator;
dispatch coverage; refusal is ValidationError; user-defined vs primitive
setter split.
"""
import ast

from ..consteval import try_fold
from ..dataflow import defs
from ..lattice import bv_family, ir_family, reaching_classes
from ..model import call_name, dotted, own_nodes, unparse
from ..pathcond import assigned_alternatives, conds_truth, path_info
from ..paths import enumerate_paths
from ..profiles import controlling_test, reject_profile
from ._serial import BASE, PYTYPES, SER, VAL, is_validation_error

PROP = 'C08'
IR = 'stone.ir.data_types'
EXPLANATION = (
    'Sibling agreement and forwarding analysis between the compiler-side type classes '
    '(stone/ir/data_types.py), the runtime validators (stone_validators.py) and the generator '
    'that connects them (python_types.generate_validator_constructor / generate_func_call). '
    'R1: folded class constants (minimum/maximum vs default_minimum/default_maximum) are equal '
    'for the 5 sized types. R2: reject conditions of check/validate are extracted from the '
    'controlling tests of every raise and normalised to (quantity, operator, bound); each bound '
    'parameter must have its constraint, on the right quantity (value for numbers, len() for '
    'strings/bytes/lists), with a strict operator (the bound itself is admissible), and runtime '
    'constructors must store each bound parameter into the attribute validate reads. R3: for '
    'every IR class, the dispatch branch that handles it forwards every constructor parameter '
    '(by keyword the runtime constructor accepts, or positionally) and every return of '
    'generate_validator_constructor applies the Nullable wrap; generate_func_call omits a '
    'keyword only when its value is None. R4: the dispatch has no reachable raising default. '
    'R5: validate*/Attribute.__set__/Union.__init__ refuse only with ValidationError (asserts on '
    'caller-supplied values are escapes). R6: Attribute(user_defined=True) is emitted exactly for '
    'user-defined field types and __set__ picks validate_type_only exactly then. R7: top-level '
    'primitives are decoded with validation on. Decides these structural parts, not value '
    'behaviour.'
    ' R8 (imported from C06-R3): decoding a primitive refuses only by ValidationError -- base64/strptime failures are converted.'
    ' R10 (condition drift): the 72 refusal sites of stone_validators / stone_serializers / stone_base raise under the canonical path conditions recorded in reference/conditions.json.'
    ' RD (effect-condition drift, stonelint.effects): for the functions this property is anchored in (stonelint.ownership) the path formula of every raise / return / continue / break / assignment / call statement is compared with reference/effects.json by truth table over the leaf tests (so nested vs merged tests, guard clauses vs if/else ladders, De Morgan forms read alike); an effect lost on a path, or a control effect gained on one, is a violation; changed texts and re-spelled tests are not claimed.'
    " RE (expression drift, stonelint.exprdrift): the same functions' attribute names, variable reads, simple statements, calls and arithmetic/slice literals are compared with reference/expressions.json; a substituted attribute or variable, a dropped call or assignment, swapped arguments or a changed literal is a violation; any other edit is not claimed. RC (call-condition drift, stonelint.effects.run_calls): for every call of a repository or imported-library function in those functions, the path conditions of its occurrences are compared with reference/effects.json by truth table; an assignment under which the function used to make the call and now completes without it is a violation (tests on memo tables, emptiness of the iterated collection and earlier refusals excepted; re-spelled conditions are not claimed). MK (memo-key rule, stonelint.memo): a memo table or done-set the reference tree does not have must be keyed by every access path the skipped code reads, injectively and type-aware."
    ' RI (interface drift, stonelint.interface): constants and tables (folded values), compiled regular expressions (witness text), parameter defaults, special methods, base classes and caching decorators of the modules the property rests on are compared with reference/interface.json; only a concrete difference in what is computed is reported.'
    ' MU (mutation drift, stonelint.mutation): the functions the property rests on update in place only the caller-owned, class-level and module-level objects they updated on the confirmed tree, and have no new handler that swallows an exception (reference/mutations.json).')
ASSUMPTIONS = [
    'the reading of bounds is the one the property quantifies with (bound-1, bound, bound+1: the '
    'bound itself is admissible); the language reference does not spell out inclusiveness',
    'bound parameters are recognised by name prefix min*/max* (the repo naming convention)',
    'constant folding covers literals and arithmetic only',
]

SIZED = ['Int32', 'UInt32', 'Int64', 'UInt64', 'Float32']

# function -> (value parameter, expected quantity, expected bound names)
IR_CHECKS = {
    IR + '._BoundedInteger.check': ('val', 'val', ['minimum', 'maximum', 'min_value', 'max_value']),
    IR + '._BoundedFloat.check': ('val', 'val', ['minimum', 'maximum', 'min_value', 'max_value']),
    IR + '.String.check': ('val', 'len', ['min_length', 'max_length']),
    IR + '.List._check_list_container': ('val', 'len', ['min_items', 'max_items']),
}
BV_CHECKS = {
    VAL + '.Integer.validate': ('val', 'val', ['minimum', 'maximum']),
    VAL + '.Real.validate': ('val', 'val', ['minimum', 'maximum']),
    VAL + '.String.validate': ('val', 'len', ['min_length', 'max_length']),
    VAL + '.Bytes.validate': ('val', 'len', ['min_length', 'max_length']),
    VAL + '.List.validate': ('val', 'len', ['min_items', 'max_items']),
}
BV_TYPE_TESTS = {
    'Boolean': ('bool',), 'String': ('str',), 'Timestamp': ('datetime.datetime',),
    'Map': ('dict',), 'Integer': ('numbers.Integral',), 'Real': ('numbers.Real',),
    'List': ('list', 'tuple'), 'Bytes': ('_binary_types',),
}


def role(name):
    if name.startswith('min') or name.startswith('default_min'):
        return 'lower'
    if name.startswith('max') or name.startswith('default_max'):
        return 'upper'
    return None


def _check_profile(ctx, f, spec, side):
    vname, qty, bounds = spec
    prof = reject_profile(f.node, {vname})
    seen = {}
    for cons, rn in prof:
        for c in cons:
            if c[0] != 'cmp':
                continue
            _, q, op, bound = c
            r = role(bound)
            where = '%s:%d' % (f.module.relpath, rn.lineno)
            inst = '%s: reject when %s %s %s' % (f.short, q, op, bound)
            if r is None:
                continue
            good = (r == 'lower' and op == '<') or (r == 'upper' and op == '>')
            ctx.check('C08-R2', good and q == qty, inst, where,
                      msg='%s constraint %s %s %s is malformed: expected %s %s <bound> (the bound '
                          'itself is admissible)' % (side, q, op, bound, qty,
                                                     '<' if r == 'lower' else '>'),
                      key='C08-R2|%s|%s' % (f.qualname, bound))
            seen[bound] = True
    for b in bounds:
        ctx.check('C08-R2', b in seen, '%s enforces %s' % (f.short, b), f.loc,
                  msg='%s no longer rejects values beyond %s' % (f.short, b),
                  key='C08-R2|%s|%s|missing' % (f.qualname, b))
    return prof


def validator_construction(pm, ctx, rule):
    """The generated validator constructors carry the declared type: every IR
    constructor parameter is forwarded to the runtime validator of the same
    name, the Nullable wrap is applied on every return exactly when the type
    is nullable, and generate_func_call drops a keyword only when its value is
    None.  Shared by every property that relies on the generated validators
    (C06, C07, C08)."""
    irf, bvf = ir_family(pm), bv_family(pm)
    g = pm.func(PYTYPES + '.generate_validator_constructor')
    uni = irf.universe() - {'Nullable'}
    d = defs(g.node)
    # per-class forwarding
    for cname in sorted(uni):
        ic = irf.classes[cname]
        init = pm.lookup_method(ic, '__init__')
        params = [p for p in (init.params[1:] if init else [])]
        if ic.name in ('Struct', 'Union', 'Alias'):
            continue   # referenced by name, handled by C09
        # attribute each param is stored in
        stored = {}
        if init is not None:
            for n in own_nodes(init.node):
                if isinstance(n, ast.Assign) and isinstance(n.value, ast.Name) and \
                        n.value.id in params and isinstance(n.targets[0], ast.Attribute):
                    stored[n.value.id] = n.targets[0].attr
        # the statement(s) assigning v for this class
        branch = [n for n in own_nodes(g.node)
                  if isinstance(n, ast.Assign) and unparse(n.targets[0]) == 'v' and
                  cname in reaching_classes(pm, irf, g, n, 'dt', universe=uni)]
        if not ctx.check(rule, len(branch) == 1,
                         '%s handled by exactly one branch' % cname, g.loc,
                         msg='IR class %s is built by %d branches of '
                             'generate_validator_constructor' % (cname, len(branch)),
                         key=rule + '|%s|branch' % cname):
            continue
        call = branch[0].value
        where = '%s:%d' % (g.module.relpath, branch[0].lineno)
        if not (isinstance(call, ast.Call) and call_name(call) == 'generate_func_call'):
            ctx.check(rule, not params, '%s built without parameters' % cname, where,
                      msg='%s has parameters %s but its branch does not call generate_func_call'
                          % (cname, params), key=rule + '|%s|call' % cname)
            continue
        # validator class named
        target = call.args[0] if call.args else None
        tname = unparse(target) if target is not None else ''
        names_cls = ("'bv.%s'" % cname) in tname or ('dt.name' in tname and 'bv.' in tname)
        ctx.check(rule, names_cls, '%s -> runtime validator bv.%s' % (cname, cname), where,
                  msg='branch for %s constructs %s' % (cname, tname),
                  key=rule + '|%s|target' % cname)
        bvinit = pm.lookup_method(bvf.classes[cname], '__init__') if cname in bvf.classes else None
        bvparams = bvinit.params[1:] if bvinit else []
        kw = {}
        pos = []
        for k in call.keywords:
            if k.arg == 'kwargs' and isinstance(k.value, (ast.List, ast.Tuple)):
                for t in k.value.elts:
                    if isinstance(t, ast.Tuple) and len(t.elts) == 2:
                        kw[try_fold(t.elts[0])] = t.elts[1]
            elif k.arg == 'args' and isinstance(k.value, (ast.List, ast.Tuple)):
                pos = list(k.value.elts)
        for i, p in enumerate(params):
            attr = stored.get(p, p)
            v = kw.get(p)
            if v is not None:
                src = d.resolve(v) if isinstance(v, ast.Name) else v
                srcs = {unparse(x) for x in ([v, src] + d.all_values(v.id)
                                             if isinstance(v, ast.Name) else [v])}
                good = any(('dt.' + attr) in s_ for s_ in srcs) and p in bvparams
                ctx.check(rule, good, '%s.%s forwarded as keyword %s=dt.%s' % (
                    cname, p, p, attr), where,
                    msg='parameter %s of %s is forwarded as %s (runtime accepts %s)' % (
                        p, cname, sorted(srcs), bvparams), key=rule + '|%s|%s' % (cname, p))
            else:
                good = i < len(pos) and ('dt.' + attr) in unparse(pos[i]) and i < len(bvparams)
                ctx.check(rule, good, '%s.%s forwarded positionally (dt.%s)' % (
                    cname, p, attr), where,
                    msg='parameter %s of %s (attribute %s) is not forwarded to bv.%s' % (
                        p, cname, attr, cname), key=rule + '|%s|%s' % (cname, p))
        extra = [k for k in kw if k not in params]
        ctx.check(rule, not extra, '%s: no keyword without a declared parameter' % cname,
                  where, msg='keywords %s are not parameters of %s' % (extra, cname),
                  key=rule + '|%s|extra' % cname)

    # text parameters are spliced into Python source: they must go through repr()
    for attr in ('pattern', 'format'):
        uses = [n for n in own_nodes(g.node) if isinstance(n, ast.Attribute) and n.attr == attr
                and unparse(n.value) == 'dt' and isinstance(n.ctx, ast.Load)]
        bad = []
        for u in uses:
            par = getattr(u, '_parent', None)
            is_test = isinstance(par, ast.Compare) or isinstance(par, (ast.If, ast.IfExp,
                                                                       ast.BoolOp, ast.UnaryOp))
            in_repr = isinstance(par, ast.Call) and isinstance(par.func, ast.Name) and \
                par.func.id == 'repr' and par.args == [u]
            # repr(...) must be the whole value: not concatenated or re-quoted
            whole = in_repr and not isinstance(getattr(par, '_parent', None),
                                               (ast.BinOp, ast.JoinedStr, ast.FormattedValue))
            if in_repr and isinstance(getattr(par, '_parent', None), ast.Call) and \
                    isinstance(par._parent.func, ast.Attribute) and \
                    par._parent.func.attr == 'format':
                whole = False
            if not (is_test or whole):
                bad.append(u.lineno)
        ctx.check(rule, uses and not bad,
                  'dt.%s reaches the generated source only as repr(dt.%s)' % (attr, attr), g.loc,
                  msg='generate_validator_constructor splices dt.%s into Python source without '
                      'repr() (line %s): a quote or backslash in the spec text changes or breaks '
                      'the generated literal' % (attr, bad),
                  key=rule + '|%s|repr-%s' % (g.qualname, attr))

    # Nullable wrap on every return
    rpaths = [p for p in enumerate_paths(g.node) if p.end == 'return']
    bad = []
    for p in rpaths:
        rv = p.end_node.value
        nul = [pol for e, pol in p.atoms if isinstance(e, ast.Name) and e.id == 'nullable_dt']
        wraps = isinstance(rv, ast.Call) and call_name(rv) == 'generate_func_call' and \
            rv.args and try_fold(rv.args[0]) == 'bv.Nullable'
        if not nul:
            bad.append(p.end_node.lineno)
        elif nul[-1] and not wraps:
            bad.append(p.end_node.lineno)
        elif (not nul[-1]) and wraps:
            bad.append(p.end_node.lineno)
    ctx.check(rule, not bad and len(rpaths) >= 2,
              'every return of generate_validator_constructor is decided by nullable_dt and wraps '
              'in bv.Nullable exactly when it is set (%d return paths)' % len(rpaths), g.loc,
              msg='a return of generate_validator_constructor (line %s) bypasses the Nullable wrap'
                  % sorted(set(bad)), key=rule + '|%s|nullable-wrap' % g.qualname)
    # generate_func_call drops a keyword only for None
    gfc = pm.func(PYTYPES + '.generate_func_call')
    filt = []
    from ..model import element_sites
    for site in element_sites(gfc.node, include_nested=True):
        if 'kwargs' in unparse(site['iter']):
            filt.extend(site['ifs'])
    good = len(filt) == 1 and isinstance(filt[0], ast.Compare) and \
        isinstance(filt[0].ops[0], ast.IsNot) and \
        isinstance(filt[0].comparators[0], ast.Constant) and filt[0].comparators[0].value is None
    ctx.check(rule, good, 'generate_func_call omits a keyword only when its value is None',
              gfc.loc, msg='generate_func_call filters keywords with %s: a bound of 0 or an empty '
                           'pattern would be dropped' % [unparse(x) for x in filt],
              key=rule + '|%s|filter' % gfc.qualname)


def run(pm, ctx):
    ctx.rule('C08-R1', 'compiler-side and runtime range constants of sized types are equal')
    ctx.rule('C08-R2', 'constraint profiles: every bound parameter is enforced, on the right '
                       'quantity, strictly beyond the bound; runtime constructors store bounds '
                       'into the attributes validate reads; type tests present')
    ctx.rule('C08-R3', 'every IR constructor parameter is forwarded to the runtime validator; '
                       'Nullable wraps on every return; keyword omitted only for None')
    ctx.rule('C08-R4', 'generate_validator_constructor dispatch covers every IR class')
    ctx.rule('C08-R5', 'value-taking runtime API refuses only with ValidationError')
    ctx.rule('C08-R6', 'user_defined flag emitted exactly for user-defined field types; setter '
                       'split follows it')
    ctx.rule('C08-R7', 'top-level primitive decoding validates')

    irf, bvf = ir_family(pm), bv_family(pm)

    # ---------------- R1
    for t in SIZED:
        ic, bc = irf.classes[t], bvf.classes[t]
        for a, b in (('minimum', 'default_minimum'), ('maximum', 'default_maximum')):
            ea, eb = pm.lookup_class_attr(ic, a), pm.lookup_class_attr(bc, b)
            va, vb = try_fold(ea), try_fold(eb)
            ctx.check('C08-R1', va is not None and va == vb,
                      '%s.%s == bv.%s.%s (%r)' % (t, a, t, b, va),
                      '%s:%d' % (ic.module.relpath, getattr(ea, 'lineno', ic.node.lineno)),
                      msg='range constant differs: ir %s.%s=%r, runtime %s.%s=%r' % (
                          t, a, va, t, b, vb), key='C08-R1|%s|%s' % (t, a))
    for t in ('Float64',):
        for fam_, attr in ((irf, 'minimum'), (irf, 'maximum'),
                           (bvf, 'default_minimum'), (bvf, 'default_maximum')):
            v = try_fold(pm.lookup_class_attr(fam_.classes[t], attr), default='?')
            ctx.check('C08-R1', v is None, '%s.%s is unbounded' % (t, attr),
                      fam_.classes[t].module.relpath,
                      msg='Float64 acquired a range constant %s=%r on one side' % (attr, v),
                      key='C08-R1|Float64|%s|%s' % (fam_.module.name, attr))

    # ---------------- R2
    for q, spec in IR_CHECKS.items():
        _check_profile(ctx, pm.func(q), spec, 'compiler-side')
    for q, spec in BV_CHECKS.items():
        f = pm.func(q)
        prof = _check_profile(ctx, f, spec, 'runtime')
    # non-finite floats rejected on both sides
    for q in (IR + '._BoundedFloat.check', VAL + '.Real.validate'):
        f = pm.func(q)
        prof = reject_profile(f.node, {'val'})
        fns = {c[1] for cons, _ in prof for c in cons if c[0] == 'nonfinite'}
        ctx.check('C08-R2', fns == {'math.isnan', 'math.isinf'}, '%s rejects NaN and infinities'
                  % f.short, f.loc, msg='%s does not reject both NaN and inf (found %s)' % (
                      f.short, sorted(fns)), key='C08-R2|%s|nonfinite' % f.qualname)
    # type tests of the runtime validators
    for cname, names in sorted(BV_TYPE_TESTS.items()):
        f = pm.func('%s.%s.validate' % (VAL, cname))
        prof = reject_profile(f.node, {'val'})
        types = [c[2] for cons, _ in prof for c in cons if c[0] == 'type' and c[1] == 'val']
        ctx.check('C08-R2', tuple(sorted(names)) in types,
                  'bv.%s.validate rejects values that are not %s' % (cname, '/'.join(names)),
                  f.loc, msg='bv.%s.validate type test is %s, expected isinstance(val, %s)' % (
                      cname, types, names), key='C08-R2|%s|type' % f.qualname)
    # whole-string pattern on the runtime side
    sv = pm.func(VAL + '.String.validate')
    prof = reject_profile(sv.node, {'val'})
    pats = [c for cons, _ in prof for c in cons if c[0] == 'pattern']
    ctx.check('C08-R2', len(pats) == 1, 'bv.String.validate rejects a pattern mismatch', sv.loc,
              msg='bv.String.validate does not apply the pattern',
              key='C08-R2|%s|pattern' % sv.qualname)
    si = pm.func(VAL + '.String.__init__')
    anch = _anchoring(si, pats[0][1] if pats else 'match')
    ctx.check('C08-R2', anch == 'whole', 'bv.String pattern is a whole-string match', si.loc,
              msg='runtime String pattern is applied as %r, not as a whole-string match' % anch,
              key='C08-R2|%s|anchoring' % si.qualname)
    # runtime ctors store the bounds validate reads
    for cname, pairs in (('Integer', (('minimum', 'min_value', 'default_minimum'),
                                       ('maximum', 'max_value', 'default_maximum'))),
                         ('Real', (('minimum', 'min_value', 'default_minimum'),
                                   ('maximum', 'max_value', 'default_maximum')))):
        f = pm.func('%s.%s.__init__' % (VAL, cname))
        pi = path_info(f.node)
        for attr, param, dflt in pairs:
            stores = [n for n in own_nodes(f.node) if isinstance(n, ast.Assign) and
                      unparse(n.targets[0]) == 'self.' + attr]
            from_param = [n for n in stores if unparse(n.value) == param and
                          any(pol and unparse(e) == '%s is not None' % param
                              for e, pol in pi.at(n))]
            from_dflt = [n for n in stores if unparse(n.value) == 'self.' + dflt and
                         any((not pol) and unparse(e) == '%s is not None' % param
                             for e, pol in pi.at(n))]
            ctx.check('C08-R2', len(from_param) == 1 and len(from_dflt) == 1 and len(stores) == 2,
                      'bv.%s.__init__: self.%s = %s when given else self.%s' % (
                          cname, attr, param, dflt), f.loc,
                      msg='bv.%s.__init__ does not store %s/%s into self.%s as validate expects'
                          % (cname, param, dflt, attr),
                      key='C08-R2|%s|store-%s' % (f.qualname, attr))
    for cname, attrs in (('String', ('min_length', 'max_length', 'pattern')),
                         ('Bytes', ('min_length', 'max_length')),
                         ('List', ('item_validator', 'min_items', 'max_items')),
                         ('Map', ('key_validator', 'value_validator')),
                         ('Nullable', ('validator',)), ('Struct', ('definition',)),
                         ('Union', ('definition',))):
        f = pm.func('%s.%s.__init__' % (VAL, cname))
        for a in attrs:
            st = [n for n in own_nodes(f.node) if isinstance(n, ast.Assign) and
                  unparse(n.targets[0]) == 'self.' + a and unparse(n.value) == a]
            ctx.check('C08-R2', len(st) == 1, 'bv.%s.__init__ stores %s' % (cname, a), f.loc,
                      msg='bv.%s.__init__ does not store parameter %s in self.%s' % (cname, a, a),
                      key='C08-R2|%s|store-%s' % (f.qualname, a))
    tf = pm.func(VAL + '.Timestamp.__init__')
    ctx.check('C08-R2', any(isinstance(n, ast.Assign) and unparse(n.targets[0]) == 'self.format'
                            and unparse(n.value) == 'fmt' for n in own_nodes(tf.node)),
              'bv.Timestamp.__init__ stores fmt', tf.loc,
              msg='bv.Timestamp.__init__ does not store the format',
              key='C08-R2|%s|store-format' % tf.qualname)
    # composite validators validate their parts
    lv = pm.func(VAL + '.List.validate')
    ctx.check('C08-R2', any(isinstance(c, ast.Call) and unparse(c.func) ==
                            'self.item_validator.validate' for c in own_nodes(lv.node, True)),
              'bv.List.validate validates every item', lv.loc,
              msg='bv.List.validate no longer validates items',
              key='C08-R2|%s|items' % lv.qualname)
    mv = pm.func(VAL + '.Map.validate')
    calls = {unparse(c.func) for c in own_nodes(mv.node, True) if isinstance(c, ast.Call)}
    ctx.check('C08-R2', {'self.key_validator.validate', 'self.value_validator.validate'} <= calls,
              'bv.Map.validate validates keys and values', mv.loc,
              msg='bv.Map.validate no longer validates keys and values',
              key='C08-R2|%s|items' % mv.qualname)
    nv = pm.func(VAL + '.Nullable.validate')
    pi = path_info(nv.node)
    inner = [c for c in own_nodes(nv.node) if isinstance(c, ast.Call) and
             unparse(c.func) == 'self.validator.validate']
    ctx.check('C08-R2', len(inner) == 1 and any(
        (unparse(e) == 'val is None' and not pol) or (unparse(e) == 'val is not None' and pol)
        for e, pol in pi.at(inner[0])),
        'bv.Nullable.validate delegates every non-null value', nv.loc,
        msg='bv.Nullable.validate does not validate non-null values',
        key='C08-R2|%s|delegate' % nv.qualname)

    # ---------------- R3 / R4
    g = pm.func(PYTYPES + '.generate_validator_constructor')
    pi = path_info(g.node)
    uni = irf.universe() - {'Nullable'}
    # default branch dead
    for s in own_nodes(g.node):
        if isinstance(s, ast.Raise):
            classes = reaching_classes(pm, irf, g, s, 'dt', universe=uni)
            ctx.check('C08-R4', not classes, 'generate_validator_constructor default is dead',
                      '%s:%d' % (g.module.relpath, s.lineno),
                      msg='IR classes %s reach the raising default of '
                          'generate_validator_constructor' % sorted(classes),
                      key='C08-R4|%s|default' % g.qualname)
    # dt is the unwrapped type
    d = defs(g.node)
    dvals = d.all_values('dt')
    ok_unwrap = bool(dvals) and all(isinstance(v, ast.Call) and call_name(v) == 'unwrap_nullable'
                                    and v.args and unparse(v.args[0]) == 'data_type'
                                    for v in dvals)
    ctx.check('C08-R4', ok_unwrap, 'dispatch subject is exactly unwrap_nullable(data_type): one '
              'Nullable layer is peeled, aliases are kept and referenced by their validator name',
              g.loc,
              msg='generate_validator_constructor computes its dispatch subject as %s: peeling '
                  'aliases inlines the target validator and loses what the alias validator '
                  'carries (its redactor, its name)' % sorted({unparse(v) for v in dvals}),
              key='C08-R4|%s|unwrap' % g.qualname)

    validator_construction(pm, ctx, 'C08-R3')

    # ---------------- R5
    api = [pm.func(BASE + '.Attribute.__set__'), pm.func(BASE + '.Union.__init__')]
    for c in sorted(bvf.classes.values(), key=lambda k: k.name):
        for m in c.methods.values():
            if m.name.startswith('validate'):
                api.append(m)
    n_r5 = 0
    for f in api:
        value_params = set(f.params[1:])
        for n in own_nodes(f.node):
            where = '%s:%d' % (f.module.relpath, n.lineno) if hasattr(n, 'lineno') else f.loc
            if isinstance(n, ast.Raise):
                n_r5 += 1
                inh = any(isinstance(p, ast.ExceptHandler) for p in _parents(n))
                ok = is_validation_error(pm, f.module, n) or (n.exc is None and inh)
                ctx.check('C08-R5', ok, '%s: raise %s' % (
                    f.short, unparse(n.exc.func if isinstance(n.exc, ast.Call) else n.exc)
                    if n.exc is not None else '(re-raise)'), where,
                    msg='%s refuses a value with %s, not ValidationError' % (
                        f.short, unparse(n.exc)[:60] if n.exc is not None else 're-raise'),
                    key='C08-R5|%s|raise %s' % (f.qualname, unparse(
                        n.exc.func if isinstance(n.exc, ast.Call) else n.exc)
                        if n.exc is not None else ''))
            elif isinstance(n, ast.Assert):
                n_r5 += 1
                names = {x.id for x in ast.walk(n.test) if isinstance(x, ast.Name)}
                dd = defs(f.node)
                # a local derived from a parameter counts as caller-supplied
                derived = set()
                for nm in names:
                    if nm in value_params:
                        derived.add(nm)
                    else:
                        for v in dd.all_values(nm):
                            if {x.id for x in ast.walk(v) if isinstance(x, ast.Name)} & value_params:
                                derived.add(nm)
                ctx.check('C08-R5', not derived,
                          '%s: assert %s' % (f.short, unparse(n.test)[:50]), where,
                          msg='%s refuses a caller-supplied value with an assert (AssertionError), '
                              'not ValidationError: assert %s' % (f.short, unparse(n.test)),
                          key='C08-R5|%s|assert %s' % (f.qualname, unparse(n.test)))
    ctx.floor('C08-R5', n_r5, 25, 'raise/assert sites in the value-taking runtime API')

    # ---------------- R6
    gp = pm.func(PYTYPES + '.PythonTypesBackend._generate_struct_class_properties')
    pi = path_info(gp.node)
    found = {'user_defined': 0, 'nullable': 0}
    for n in own_nodes(gp.node):
        if isinstance(n, ast.AugAssign) and isinstance(n.value, ast.Constant) and \
                isinstance(n.value.value, str):
            txt = n.value.value
            ct = controlling_test(n)
            if 'user_defined=True' in txt:
                found['user_defined'] += 1
                good = ct is not None and ct[1] and isinstance(ct[0], ast.Call) and \
                    call_name(ct[0]) == 'is_user_defined_type' and \
                    unparse(ct[0].args[0]) == 'field_dt'
                ctx.check('C08-R6', good, 'user_defined=True emitted iff is_user_defined_type('
                          'field_dt)', '%s:%d' % (gp.module.relpath, n.lineno),
                          msg='user_defined flag is emitted under %s' % (
                              unparse(ct[0]) if ct else 'no condition'),
                          key='C08-R6|%s|user_defined' % gp.qualname)
            if 'nullable=True' in txt:
                found['nullable'] += 1
                good = ct is not None and ct[1] and unparse(ct[0]) == 'dt_nullable'
                ctx.check('C08-R6', good, 'nullable=True emitted iff the field type is Nullable',
                          '%s:%d' % (gp.module.relpath, n.lineno),
                          msg='nullable flag is emitted under %s' % (
                              unparse(ct[0]) if ct else 'no condition'),
                          key='C08-R6|%s|nullable' % gp.qualname)
    ctx.check('C08-R6', found == {'user_defined': 1, 'nullable': 1},
              '_generate_struct_class_properties emits both flags', gp.loc,
              msg='flag emission sites changed: %r' % found, key='C08-R6|%s|sites' % gp.qualname)
    dd = defs(gp.node)
    vals = {unparse(v) for v in dd.all_values('field_dt')}
    ctx.check('C08-R6', vals == {'field.data_type.data_type', 'field.data_type'} and
              {unparse(v) for v in dd.all_values('dt_nullable')} == {'True', 'False'},
              'field_dt is the field type with Nullable peeled', gp.loc,
              msg='field_dt / dt_nullable are computed differently: %s' % sorted(vals),
              key='C08-R6|%s|peel' % gp.qualname)
    aset = pm.func(BASE + '.Attribute.__set__')
    pi = path_info(aset.node)
    for n in own_nodes(aset.node):
        if isinstance(n, ast.Call) and call_name(n) in ('validate_type_only', 'validate') and \
                unparse(n.func).startswith('self.validator.'):
            want = call_name(n) == 'validate_type_only'
            ats = [pol for e, pol in pi.at(n) if unparse(e) == 'self.user_defined']
            ctx.check('C08-R6', ats == [want], 'Attribute.__set__: %s under user_defined=%s' % (
                call_name(n), want), '%s:%d' % (aset.module.relpath, n.lineno),
                msg='Attribute.__set__ calls %s under user_defined=%s' % (call_name(n), ats),
                key='C08-R6|%s|%s' % (aset.qualname, call_name(n)))
    uinit = pm.func(BASE + '.Union.__init__')
    for n in own_nodes(uinit.node):
        if isinstance(n, ast.Call) and call_name(n) == 'validate_type_only':
            cls = reaching_classes(pm, bvf, uinit, n, 'validator')
            ctx.check('C08-R6', cls == {'Struct', 'StructTree', 'Union'},
                      'Union.__init__: type-only validation exactly for Struct/Union members',
                      '%s:%d' % (uinit.module.relpath, n.lineno),
                      msg='Union.__init__ validates type-only for %s' % sorted(cls),
                      key='C08-R6|%s|type-only' % uinit.qualname)
        if isinstance(n, ast.Call) and call_name(n) == 'validate' and \
                unparse(n.func) == 'validator.validate':
            cls = reaching_classes(pm, bvf, uinit, n, 'validator')
            ctx.check('C08-R6', cls == bvf.universe() - {'Struct', 'StructTree', 'Union', 'Void'},
                      'Union.__init__: full validation for every other non-Void member',
                      '%s:%d' % (uinit.module.relpath, n.lineno),
                      msg='Union.__init__ fully validates %s' % sorted(cls),
                      key='C08-R6|%s|full' % uinit.qualname)

    # ---------------- R7
    e = pm.func(SER + '.json_compat_obj_decode')
    pi = path_info(e.node)
    calls = [c for c in own_nodes(e.node) if isinstance(c, ast.Call) and
             call_name(c) == 'make_stone_friendly']
    good = len(calls) == 1 and len(calls[0].args) == 3 and \
        isinstance(calls[0].args[2], ast.Constant) and calls[0].args[2].value is True and \
        reaching_classes(pm, bvf, e, calls[0], 'data_type') == bvf.below('Primitive')
    ctx.check('C08-R7', good, 'json_compat_obj_decode validates top-level primitives '
              '(make_stone_friendly(..., True) for exactly the Primitive classes)', e.loc,
              msg='top-level primitives are not decoded with validate=True',
              key='C08-R7|%s|validate' % e.qualname)
    msf = pm.func(SER + '.PythonPrimitiveToStoneDecoder.make_stone_friendly')
    pi = path_info(msf.node)
    vcalls = [c for c in own_nodes(msf.node) if isinstance(c, ast.Call) and
              call_name(c) in ('validate', 'validate_with_permissions')]
    ctx.check('C08-R7', len(vcalls) == 2 and all(
        any(pol and isinstance(x, ast.Name) and x.id == 'validate' for x, pol in pi.at(c))
        for c in vcalls), 'make_stone_friendly validates when asked', msf.loc,
        msg='make_stone_friendly does not validate under its validate flag',
        key='C08-R7|%s|flag' % msf.qualname)
    # ---------------- R9: a child union accepts every tag of its ancestors
    ctx.rule('C08-R9', 'a union class inherits the tag table of its parent whenever the parent has '
                       'one for the caller: the chain is not cut by a parent without own members')
    gu = pm.func(PYTYPES + '.PythonTypesBackend._generate_union_class_reflection_attributes')
    piu = path_info(gu.node)
    ups = [c for c in own_nodes(gu.node) if isinstance(c, ast.Call) and call_name(c) == 'emit' and
           c.args and '.update(' in unparse(c.args[0])]
    conds = [sorted((unparse(e), p) for e, p in piu.at(c)) for c in ups]
    ctx.check('C08-R9', conds == [[('caller_in_parent', True)]],
              'Child._tagmap.update(Parent._tagmap) is emitted exactly under caller_in_parent',
              gu.loc, msg='the parent tag table is merged under %s: a union three levels deep '
                          'loses the tags of its grandparent when the middle union adds none'
                          % conds, key='C08-R9|%s|update' % gu.qualname)
    cip = [leaf for leaf, _ in assigned_alternatives(gu.node, 'caller_in_parent')]
    okc = False
    if len(cip) == 1:
        from ..pathcond import truth_table

        def kk(e):
            return {'data_type.parent_type': 'parent', 'is_public': 'public',
                    'omitted_caller in parent_omitted_callers': 'known'}.get(unparse(e),
                                                                           ('other', unparse(e)))
        keys, tab = truth_table(cip[0], kk)
        okc = keys == ['known', 'parent', 'public'] and all(
            bool(v) == (env[1] and (env[2] or env[0])) for env, v in tab.items())
    ctx.check('C08-R9', okc, 'caller_in_parent = there is a parent and the caller is public or '
              'known to an ancestor', gu.loc,
              msg='caller_in_parent is computed as %s' % [unparse(c) for c in cip],
              key='C08-R9|%s|caller_in_parent' % gu.qualname)
    ctx.import_rules(pm, 'C06', {'C06-R3'}, 'C08-R8',
                     'library calls on untrusted scalars convert every library exception to '
                     'ValidationError (shared with C06-R3)')
    from .. import effects
    effects.run_refusals(pm, ctx, 'C08-R10', ('stone.backends.python_rsrc.stone_validators',
                                              'stone.backends.python_rsrc.stone_serializers',
                                              'stone.backends.python_rsrc.stone_base'),
                         ('ValidationError', 'AssertionError'),
                         'each runtime refusal (ValidationError / AssertionError raise) happens '
                         'under the condition confirmed on the reference tree', 'raised')

    ctx.import_rules(pm, 'C02', {'C02-R12'}, 'C08-R11',
                     'the unwrap helpers of the IR peel exactly the wrappers their names say '
                     '(shared with C02-R12)')
    none_chain(pm, ctx)
    from ..effects import run_decisions
    from ..ownership import OWN
    run_decisions(pm, ctx, 'C08-RD', OWN['C08'])
    from .. import exprdrift
    exprdrift.run(pm, ctx, 'C08-RE', OWN['C08'])
    from ..effects import run_calls
    run_calls(pm, ctx, 'C08-RC', OWN['C08'])
    from .. import memo
    memo.run(pm, ctx, 'C08-MK', OWN['C08'])
    from .. import interface
    interface.run(pm, ctx, 'C08-RI', OWN['C08'])
    from .. import mutation
    mutation.run(pm, ctx, 'C08-MU', OWN['C08'])


def _anchoring(init_func, method):
    """Classify how the runtime compiles the pattern: 'whole' | 'prefix' | 'search' | '?'"""
    for n in own_nodes(init_func.node):
        if isinstance(n, ast.Call) and dotted(n.func) == 're.compile' and n.args:
            arg = n.args[0]
            consts = [c.value for c in sorted(
                (c for c in ast.walk(arg)
                 if isinstance(c, ast.Constant) and isinstance(c.value, str)),
                key=lambda c: getattr(c, "_ord", (c.lineno, c.col_offset)))]
            has_var = any(isinstance(c, ast.Name) for c in ast.walk(arg))
            if method == 'fullmatch':
                return 'whole'
            pre = consts[0] if consts else ''
            suf = consts[-1] if len(consts) > 1 else ''
            if has_var and pre.startswith('\\A(?:') and suf == ')\\Z' and method in ('match', 'search'):
                return 'whole'
            if method == 'match':
                return 'prefix' if not consts else 'anchored-loosely:%s...%s' % (pre, suf)
            return 'search'
    return '?'


def _parents(node):
    n = getattr(node, '_parent', None)
    while n is not None:
        yield n
        n = getattr(n, '_parent', None)


def none_chain(pm, ctx, rule='C08-R12', prefixes=('stone.backends.python_rsrc',)):
    """A method called directly on the result of a call that is documented to return None in
    some cases (`tzinfo.utcoffset()`, `dict.get(k)` without default, `re.match/search`) raises
    AttributeError for that case unless the result is tested first."""
    ctx.rule(rule, 'the result of a call that may be None (utcoffset, dict.get without default, '
                   're.match / search / fullmatch) is tested before a method is called on it')
    import ast as _ast
    may_none = {'utcoffset': 0, 'get': 1, 'match': None, 'search': None, 'fullmatch': None}

    def sites(nodes):
        for a in nodes:
            if not (isinstance(a, _ast.Attribute) and isinstance(a.value, _ast.Call) and
                    isinstance(a.value.func, _ast.Attribute) and
                    a.value.func.attr in may_none):
                continue
            c = a.value
            name = c.func.attr
            if name == 'get' and (len(c.args) != 1 or c.keywords):
                continue            # a default was given
            if name in ('match', 'search', 'fullmatch') and not (
                    'pattern' in unparse(c.func.value) or unparse(c.func.value) in ('re',)
                    or unparse(c.func.value).endswith('_re')):
                continue
            yield a, c, name
    # the expected count on a sound tree is zero: the matcher must still see its own example
    sample = _ast.parse('def f(v):\n    return v.tzinfo.utcoffset(v).total_seconds()\n')
    if len(list(sites(_ast.walk(sample)))) != 1:
        from ..model import AnalysisError
        raise AnalysisError('rule=%s no longer recognises its positive example' % rule)
    n = 0
    for px in prefixes:
        for f in pm.funcs_in(px):
            for a, c, name in sites(own_nodes(f.node)):
                n += 1
                ok = False
                for tr, part, k in path_info(f.node).trys_at(a):
                    if part == 'body' and any(h.type is None or 'AttributeError' in unparse(h.type)
                                              or unparse(h.type) == 'Exception'
                                              for h in tr.handlers):
                        ok = True
                ctx.check(rule, ok, '%s: %s() tested before .%s' % (f.short, name, a.attr),
                          '%s:%d' % (f.module.relpath, a.lineno),
                          msg='%s calls .%s on the result of %s, which may be None: AttributeError '
                              'instead of the documented refusal' % (
                                  f.short, a.attr, unparse(c)[:60]),
                          key='%s|%s|%s().%s' % (rule, f.qualname, name, a.attr))
    ctx.ok(rule, 'matcher self-check (1 example); %d sites in the runtime' % n,
           'stonelint/rules/C08.py', nontrivial=False)
    return n
