"""Self-test of the checkers, both ways (DESIGN section 6).

Every mutant is a single edit applied to a scratch copy of /repo's ``stone``
and ``docs`` trees (under $TMPDIR, removed immediately).  ``fire`` mutants
break one rule instance and must turn the property's check from 0 to 1 with
the expected rule in the report; ``silent`` mutants are behaviour-preserving
twins and must leave it at 0.  A mutant whose anchor text no longer exists in
the tree is reported as stale, not as a failure.
"""
import importlib
import io
import os
import shutil
import sys
import tempfile
import time
from concurrent.futures import ProcessPoolExecutor
from contextlib import redirect_stdout

HERE = os.path.dirname(os.path.abspath(__file__))
VERIF = os.path.dirname(HERE)


def load_mutants(prop=None):
    out = []
    d = os.path.join(VERIF, 'selftest')
    for fn in sorted(os.listdir(d)):
        if not fn.endswith('.py') or fn.startswith('_'):
            continue
        if prop and not (fn.startswith(prop) or fn.startswith('seeded')):
            continue
        ns = {'VERIF': VERIF}
        with open(os.path.join(d, fn), encoding='utf-8') as f:
            exec(compile(f.read(), fn, 'exec'), ns)
        for m in ns.get('MUTANTS', []):
            m = dict(m)
            m.setdefault('prop', fn[:3])
            if prop and m['prop'] != prop:
                continue
            out.append(m)
    return out


def apply_edits(root, edits):
    """edits: list of (relpath, old, new[, count]).  Returns None or a
    'stale' reason."""
    for e in edits:
        rel, old, new = e[0], e[1], e[2]
        path = os.path.join(root, rel)
        if not os.path.exists(path):
            return 'file %s missing' % rel
        with open(path, encoding='utf-8') as f:
            src = f.read()
        n = src.count(old)
        want = e[3] if len(e) > 3 else 1
        if n != want:
            return 'anchor text occurs %d times in %s (expected %d)' % (n, rel, want)
        src = src.replace(old, new)
        with open(path, 'w', encoding='utf-8') as f:
            f.write(src)
        if path.endswith('.py'):
            try:
                compile(src, path, 'exec')
            except SyntaxError as ex:
                return 'mutant does not compile: %s' % ex
    return None


def make_copy(repo='/repo'):
    tmp = tempfile.mkdtemp(prefix='stone-mut-')
    shutil.copytree(os.path.join(repo, 'stone'), os.path.join(tmp, 'stone'),
                    ignore=shutil.ignore_patterns('__pycache__', '*.pyc'))
    if os.path.isdir(os.path.join(repo, 'docs')):
        shutil.copytree(os.path.join(repo, 'docs'), os.path.join(tmp, 'docs'))
    return tmp


def run_one(m):
    sys.path.insert(0, VERIF)
    from stonelint.model import AnalysisError, Program
    from stonelint.report import Ctx
    tmp = make_copy(m.get('repo', '/repo'))
    try:
        if m.get('patch'):
            import subprocess
            r = subprocess.run(['patch', '-p1', '-s', '-f', '-d', tmp, '-i',
                                os.path.join(VERIF, m['patch'])], capture_output=True, text=True)
            stale = None if r.returncode == 0 else 'patch does not apply: %s' % (
                r.stdout + r.stderr)[-200:]
        else:
            stale = apply_edits(tmp, m['edits'])
        if stale:
            return dict(m, outcome='stale', info=stale)
        mod = importlib.import_module('stonelint.rules.' + m['prop'])
        buf = io.StringIO()
        try:
            with redirect_stdout(buf):
                pm = Program(tmp)
                ctx = Ctx(m['prop'], tier=m.get('tier', 'quick'), repo=tmp, quiet=True,
                          write_files=False)
                mod.run(pm, ctx)
                if m.get('tier') == 'thorough' and hasattr(mod, 'run_thorough'):
                    mod.run_thorough(pm, ctx)
        except AnalysisError as e:
            return dict(m, outcome='analysis-error', info=str(e))
        except Exception as e:  # noqa
            import traceback
            return dict(m, outcome='crash', info=traceback.format_exc()[-800:])
        rules = sorted({v['rule'] for v in ctx.violations})
        keys = [v['key'] for v in ctx.violations]
        if m['expect'] == 'fire':
            want = m.get('rule')
            okk = bool(ctx.violations) and (want is None or want in rules)
            if okk and m.get('key'):
                okk = any(m['key'] in k for k in keys)
            return dict(m, outcome='killed' if okk else 'MISSED', info='; '.join(keys)[:400])
        okk = not ctx.violations
        return dict(m, outcome='quiet' if okk else 'FALSE-ALARM', info='; '.join(keys)[:400])
    finally:
        shutil.rmtree(tmp, ignore_errors=True)


def run_mutants(muts, jobs=16):
    t0 = time.time()
    if jobs <= 1 or len(muts) <= 1:
        res = [run_one(m) for m in muts]
    else:
        with ProcessPoolExecutor(max_workers=jobs) as ex:
            res = list(ex.map(run_one, muts))
    return res, time.time() - t0


def summarize(res):
    c = {}
    for r in res:
        c[r['outcome']] = c.get(r['outcome'], 0) + 1
    return c


def main(prop=None, jobs=16):
    muts = load_mutants(prop)
    res, wall = run_mutants(muts, jobs)
    bad = 0
    for r in res:
        flag = r['outcome'] in ('MISSED', 'FALSE-ALARM', 'crash', 'analysis-error')
        if r['outcome'] == 'analysis-error' and r.get('expect') == 'error':
            flag = False
        bad += flag
        print('%-12s %s %-28s %s' % (r['outcome'], r['prop'], r['id'],
                                     (r.get('info') or '')[:150] if flag or
                                     r['outcome'] == 'stale' else ''))
    print('selftest: %d mutants in %.1fs: %s' % (len(res), wall, summarize(res)))
    return 1 if bad else 0
