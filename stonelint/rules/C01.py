"""C01 -- the compiler accepts exactly the specs that obey the language rules.

The "iff" over all specs is not statically decidable.  Decided here are the
structural necessary conditions of "every violation is reported" (DESIGN
4/C01): enforcement code exists and is reachable, the semantic passes run in
an order consistent with their dependencies, sibling checks agree, symbols are
bound only after the clash test, parser folds check duplicates, a type
reference yields only types, name look-ups include inherited members.
"""
import ast
import json
import os

from ..envkinds import EnvKinds
from ..model import call_name, own_nodes, self_assigns, unparse
from ..pathcond import path_info
from ..paths import enumerate_paths, path_calls
from .C03 import build_scope

PROP = 'C01'
GEN = 'stone.frontend.ir_generator.IRGenerator'
PARSER = 'stone.frontend.parser.ParserFactory'
LEXER = 'stone.frontend.lexer.Lexer'
IRM = 'stone.ir.data_types'
HERE = os.path.dirname(os.path.dirname(os.path.dirname(os.path.abspath(__file__))))
REF = os.path.join(HERE, 'reference', 'enforcement_sites.json')

EXPLANATION = (
    'Structural analysis of the rule-enforcing code of the frontend. R1: every function of '
    'stone/frontend and stone/ir that reports a spec error (raise InvalidSpec, append to a '
    'lexer/parser errors list) is reachable from specs_to_ir in the call graph, and no function '
    'has fewer enforcement sites than the reference count confirmed by reading '
    '(reference/enforcement_sites.json). R2: generate_IR invokes the eleven semantic passes '
    'unconditionally, before api.normalize(), in an order consistent with the dependency '
    'partial order (forward refs < imports < patches < type population < defaults/subtypes/'
    'routes < examples/doc refs/annotations). R3: sibling checks agree (struct vs union parent '
    'checks; the three namespace/symbol resolvers; on-demand population in _resolve_type; '
    'name look-ups iterate all_fields; stacked-nullable test unwraps the whole alias chain). '
    'R4: in every _create_* the environment is written only after the name-clash test whose '
    'true branch raises. R5: parser actions that fold user-named items into a dict/set test '
    'membership and record an error. R6: a type reference resolves only to data types '
    '(environment typestate). Decides these necessary conditions of the "every violation is '
    'reported" direction; not the "never refuses a valid spec" direction nor the lexer\'s '
    'indentation arithmetic.'
    " R7 (imported from C02-R5): the legality checks iterate all_fields; Struct/Union.all_fields must include every ancestor's fields, otherwise a legal reference to an inherited tag or field is refused."
    ' RC (call-condition drift, stonelint.effects.run_calls): for every call of a repository or imported-library function in the functions the property is anchored in, the path conditions of its occurrences are compared with reference/effects.json by truth table; an assignment under which the function used to make the call and now completes without it is a violation (tests on memo tables, emptiness of the iterated collection and earlier refusals excepted; re-spelled conditions are not claimed).'
    ' MK (memo-key rule, stonelint.memo): a memo table or done-set the reference tree does not have must be keyed by every access path the skipped code reads, injectively and type-aware.'
    ' GR (stonelint.grammar): the spec grammar (BNF in the p_* docstrings) and the lexer tables (token regexes, KEYWORDS/RESERVED, t_ignore, states) are extracted with ast: every grammar symbol is defined, reachable and productive; every p[k] of an action exists in every alternative its path admits; against reference/grammar.json the production set is unchanged up to nonterminal names or no token string is found on which the LALR tables of the two grammars disagree; the lexer tables give the same first token on every probe text. A report carries the witness sentence / text; a change without witness is not claimed.'
    ' RI (interface drift, stonelint.interface): constants and tables (folded values), compiled regular expressions (witness text), parameter defaults, special methods, base classes and caching decorators of the modules the property rests on are compared with reference/interface.json; only a concrete difference in what is computed is reported.'
    ' MU (mutation drift, stonelint.mutation): the functions the property rests on update in place only the caller-owned, class-level and module-level objects they updated on the confirmed tree, and have no new handler that swallows an exception (reference/mutations.json).')
ASSUMPTIONS = [
    'reference/enforcement_sites.json holds, per function, the number of error-reporting sites '
    'confirmed by reading at the pinned commit plus the fix commits; a function may gain sites '
    'freely',
    'the pass dependency order was read off the code (which pass consumes which attribute)',
]

PASSES = ['_add_data_types_and_routes_to_api', '_add_imports_to_env', '_merge_patches',
          '_populate_type_attributes', '_populate_field_defaults',
          '_populate_enumerated_subtypes', '_populate_route_attributes',
          '_populate_recursive_custom_annotations', '_populate_examples', '_validate_doc_refs',
          '_validate_annotations']
ORDER = [
    ('_add_data_types_and_routes_to_api', '_add_imports_to_env', 'imports are checked against '
     'the namespaces the forward-reference pass registered'),
    ('_add_imports_to_env', '_merge_patches', 'patches and population resolve names through '
     'imported environments'),
    ('_add_data_types_and_routes_to_api', '_merge_patches', 'a patch needs its target registered'),
    ('_merge_patches', '_populate_type_attributes', 'patched fields must be in the AST before '
     'fields are created'),
    ('_populate_type_attributes', '_populate_field_defaults', 'defaults are checked against '
     'populated field types'),
    ('_populate_type_attributes', '_populate_enumerated_subtypes', 'subtypes need parent links'),
    ('_populate_type_attributes', '_populate_route_attributes', 'route types must resolve to '
     'populated types'),
    ('_populate_route_attributes', '_populate_recursive_custom_annotations', 'walks route '
     'argument/result/error types'),
    ('_populate_field_defaults', '_populate_examples', 'examples embed defaults'),
    ('_populate_enumerated_subtypes', '_populate_examples', 'examples of subtype trees'),
    ('_populate_route_attributes', '_validate_doc_refs', 'doc refs name routes and versions'),
    ('_populate_type_attributes', '_validate_doc_refs', 'doc refs name fields'),
    ('_populate_type_attributes', '_validate_annotations', 'redactor legality needs field types'),
]


def parser_state(pm, ctx, rule):
    """Per-file parser state: whatever a p_* action accumulates on the factory
    and parse() hands out with its result is emptied by get_parser(), and the
    frontend asks for a fresh parser for every file."""
    ctx.rule(rule, 'parser accumulators that reach parse()\'s result are reset for every file')
    pf = pm.cls(PARSER.rsplit('.', 1)[0] + '.ParserFactory') if not PARSER.endswith(
        'ParserFactory') else pm.cls(PARSER)
    acc = {}
    for m in pf.methods.values():
        for c in own_nodes(m.node):
            if isinstance(c, ast.Call) and isinstance(c.func, ast.Attribute) and \
                    c.func.attr in ('append', 'extend', 'insert') and \
                    isinstance(c.func.value, ast.Attribute) and \
                    isinstance(c.func.value.value, ast.Name) and c.func.value.value.id == 'self':
                acc.setdefault(c.func.value.attr, []).append(m.name)
    parse = pf.methods['parse']
    handed_out = set()
    for n in own_nodes(parse.node):
        if isinstance(n, ast.Attribute) and isinstance(n.ctx, ast.Load) and \
                isinstance(n.value, ast.Name) and n.value.id == 'self' and n.attr in acc:
            par = getattr(n, '_parent', None)
            receiver = isinstance(par, ast.Attribute) and par.value is n and \
                par.attr in ('append', 'extend', 'insert')
            if not receiver:
                handed_out.add(n.attr)
    gp = pf.methods['get_parser']
    resets = self_assigns(gp.node)
    for a in sorted(handed_out):
        ctx.check(rule, resets.get('self.' + a) in ('[]', 'list()'),
                  'get_parser empties self.%s (filled by %s, handed out by parse)' % (
                      a, ', '.join(sorted(set(acc[a]))[:3])), gp.loc,
                  msg='ParserFactory.get_parser no longer empties self.%s: what one file '
                      'accumulated is appended to the definitions of every later file' % a,
                  key='%s|%s|reset:%s' % (rule, gp.qualname, a))
    ctx.floor(rule, len(handed_out), 1, 'parser accumulators handed out by parse()')
    fe = pm.func('stone.frontend.frontend.specs_to_ir')
    loops = [l for l in own_nodes(fe.node) if isinstance(l, ast.For) and
             unparse(l.iter) == 'specs']
    ok = False
    if len(loops) == 1:
        order = [call_name(c) for c in own_nodes(loops[0]) if isinstance(c, ast.Call) and
                 call_name(c) in ('get_parser', 'parse')]
        ok = order[:2] == ['get_parser', 'parse'] and order.count('parse') == 1
    ctx.check(rule, ok, 'specs_to_ir takes a reset parser for every spec file', fe.loc,
              msg='specs_to_ir no longer calls get_parser() before each parse()',
              key='%s|%s|per-file' % (rule, fe.qualname))


def enforcement_sites(pm):
    """{qualname: count} of error-reporting sites per function."""
    out = {}
    for f in pm.funcs_in('stone.frontend', 'stone.ir'):
        n = 0
        for x in own_nodes(f.node):
            if isinstance(x, ast.Raise) and x.exc is not None:
                t = unparse(x.exc.func if isinstance(x.exc, ast.Call) else x.exc)
                if t == 'InvalidSpec' or t.endswith('_symbol_already_defined') or \
                        t == 'raise_mismatch_error':
                    n += 1
            elif isinstance(x, ast.Call) and isinstance(x.func, ast.Attribute) and \
                    x.func.attr in ('append', 'insert') and \
                    unparse(x.func.value) in ('self.errors',):
                n += 1
            elif isinstance(x, ast.Expr) and isinstance(x.value, ast.Call) and \
                    call_name(x.value) == 'raise_mismatch_error':
                n += 1
        if n:
            out[f.qualname] = n
    return out


def on_demand_population(pm, ctx, rule):
    """_resolve_type populates a still-forward referenced type on demand: it
    must do so in the environment the name was looked up in (the referenced
    namespace's), for structs and unions alike, cycle-guarded.  Shared by C01,
    C02 and C11."""
    rt = pm.func(GEN + '._resolve_type')
    pi = path_info(rt.node)
    pops = [c for c in own_nodes(rt.node) if isinstance(c, ast.Call) and
            call_name(c) in ('_populate_struct_type_attributes',
                             '_populate_union_type_attributes')]
    lookups = [n for n in own_nodes(rt.node) if isinstance(n, ast.Subscript) and
               unparse(n.slice) == 'type_ref.name' and isinstance(n.ctx, ast.Load)]
    lookup_envs = {unparse(n.value) for n in lookups}
    ok = len(pops) == 2 and len(lookup_envs) == 1 and \
        all(unparse(c.args[0]) in lookup_envs and unparse(c.args[1]) == 'data_type' for c in pops)
    ctx.check(rule, ok, '_resolve_type populates a forward reference on demand in the '
              'environment the name was looked up in (struct and union alike)', rt.loc,
              msg='on-demand population in _resolve_type is not given the environment of the '
                  'referenced namespace (%s vs lookup in %s)' % (
                      [unparse(c.args[0]) for c in pops], sorted(lookup_envs)),
              key='%s|%s|on-demand-env' % (rule, rt.qualname))
    for c in pops:
        ats = {unparse(e): pol for e, pol in pi.at(c)}
        ctx.check(rule, ats.get('enforce_fully_defined') is True and
                  ats.get('data_type._is_forward_ref') is True and
                  ats.get('isinstance(data_type, UserDefined)') is True and
                  ats.get('data_type in self._resolution_in_progress') is False,
                  '%s only for a still-forward user type, cycle-guarded' % call_name(c),
                  '%s:%d' % (rt.module.relpath, c.lineno),
                  msg='on-demand population guard changed: %s' % ats,
                  key='%s|%s|on-demand-guard|%s' % (rule, rt.qualname, call_name(c)))
    # the environment is rebound to the referenced namespace's before the lookup
    rebind = [n for n in own_nodes(rt.node) if isinstance(n, ast.Assign) and
              unparse(n) == 'env = env[type_ref.ns]']
    ctx.check(rule, len(rebind) == 1 and any(unparse(e) == 'type_ref.ns' and pol
                                             for e, pol in pi.at(rebind[0])),
              '_resolve_type switches to the referenced namespace\'s environment for `ns.T`',
              rt.loc, msg='_resolve_type no longer looks `ns.T` up in the environment of ns',
              key='%s|%s|rebind' % (rule, rt.qualname))


def run(pm, ctx):
    for r, t in (('C01-R1', 'enforcement sites exist (not fewer than confirmed) and are reachable'),
                 ('C01-R2', 'pass sequence of generate_IR'),
                 ('C01-R3', 'sibling checks agree'),
                 ('C01-R4', 'environment bound only after the clash test'),
                 ('C01-R5', 'parser folds test for duplicates'),
                 ('C01-R6', 'a type reference resolves only to data types')):
        ctx.rule(r, t)
    cg, reach, extra_edges, entry, irf = build_scope(pm)

    # ---------------- R1
    cur = enforcement_sites(pm)
    ref = json.load(open(REF))['sites']
    for q, n in sorted(ref.items()):
        have = cur.get(q, 0)
        exists = q in pm.functions
        ctx.check('C01-R1', exists and have >= n,
                  '%s reports >= %d kinds of violation (has %d)' % (q.replace('stone.', ''), n, have),
                  pm.functions[q].loc if exists else q,
                  msg='%s now has %d error-reporting sites, fewer than the %d confirmed: a '
                      'language rule is no longer enforced there' % (q, have, n),
                  key='C01-R1|%s|count' % q)
    whitelist_only = {GEN + '._filter_namespaces_by_route_whitelist'}
    for q in sorted(cur):
        f = pm.functions[q]
        # nested helper functions are reachable with their parent
        top = f
        while top.parent is not None:
            top = top.parent
        ok = q in reach or top.qualname in reach or q in whitelist_only
        ctx.check('C01-R1', ok, '%s is reachable from specs_to_ir' % f.short, f.loc,
                  msg='%s reports spec errors but nothing reachable from specs_to_ir calls it: '
                      'its rules are not enforced' % f.short, key='C01-R1|%s|reachable' % q)
    ctx.extra['enforcement_sites_total'] = sum(cur.values())

    # ---------------- R2
    g = pm.func(GEN + '.generate_IR')
    pos = {}
    for i, s in enumerate(g.node.body):
        for c in ast.walk(s):
            if isinstance(c, ast.Call) and isinstance(c.func, ast.Attribute) and \
                    isinstance(c.func.value, ast.Name) and c.func.value.id == 'self' and \
                    c.func.attr in PASSES:
                uncond = isinstance(s, ast.Expr) or (
                    isinstance(s, ast.For) and c.func.attr == '_add_data_types_and_routes_to_api'
                    and 'self._partial_asts' in unparse(s.iter))
                pos.setdefault(c.func.attr, (i, uncond))
    norm = [i for i, s in enumerate(g.node.body)
            if isinstance(s, ast.Expr) and unparse(s.value) == 'self.api.normalize()']
    for p in PASSES:
        ok = p in pos and pos[p][1] and norm and pos[p][0] < norm[0]
        ctx.check('C01-R2', bool(ok), 'generate_IR runs %s unconditionally before normalize' % p,
                  g.loc, msg='generate_IR no longer runs %s on every path before normalize()' % p,
                  key='C01-R2|%s|runs' % p)
    for a, b, why in ORDER:
        if a in pos and b in pos:
            ctx.check('C01-R2', pos[a][0] < pos[b][0], '%s before %s (%s)' % (a, b, why), g.loc,
                      msg='%s now runs after %s, but %s' % (a, b, why),
                      key='C01-R2|%s<%s' % (a, b))
    rets = [s for s in own_nodes(g.node) if isinstance(s, ast.Return)]
    ctx.check('C01-R2', len(rets) == 1 and unparse(rets[0].value) == 'self.api' and norm and
              g.node.body.index(rets[0]) > norm[0] if rets and rets[0] in g.node.body else False,
              'generate_IR returns the API only after normalize()', g.loc,
              msg='generate_IR can return before normalize()', key='C01-R2|return')
    # each pass visits every namespace / every data type
    for p, loops in (('_populate_type_attributes', ['self.api.namespaces.values()']),
                     ('_populate_field_defaults', ['self.api.namespaces.values()',
                                                   'namespace.data_types', 'data_type.fields']),
                     ('_populate_enumerated_subtypes', ['self.api.namespaces.values()',
                                                        'namespace.data_types']),
                     ('_populate_route_attributes', ['self.api.namespaces.values()',
                                                     'namespace.routes']),
                     ('_populate_examples', ['self.api.namespaces.values()',
                                             'namespace.data_types']),
                     ('_validate_doc_refs', ['self.api.namespaces.values()',
                                             'namespace.data_types', 'data_type.fields',
                                             'namespace.routes']),
                     ('_validate_annotations', ['self.api.namespaces.values()',
                                                'namespace.data_types', 'data_type.fields',
                                                'namespace.aliases'])):
        f = pm.func(GEN + '.' + p)
        its = [unparse(n.iter) for n in own_nodes(f.node) if isinstance(n, ast.For)]
        miss = [x for x in loops if x not in its]
        ctx.check('C01-R2', not miss, '%s iterates %s' % (p, loops), f.loc,
                  msg='%s no longer iterates %s: some declarations escape the pass' % (p, miss),
                  key='C01-R2|%s|coverage' % p)

    # ---------------- R3a parent checks
    for nm, kind in (('_populate_struct_type_attributes', 'Struct'),
                     ('_populate_union_type_attributes', 'Union')):
        f = pm.func(GEN + '.' + nm)
        pi = path_info(f.node)
        conds = set()
        for n in own_nodes(f.node):
            if isinstance(n, ast.Raise):
                for e, pol in pi.at(n):
                    t = unparse(e)
                    if t.startswith('isinstance(parent_type,'):
                        conds.add((t, pol))
        want = {('isinstance(parent_type, Alias)', True), ('isinstance(parent_type, Nullable)', True),
                ('isinstance(parent_type, %s)' % kind, False)}
        ctx.check('C01-R3', want <= conds, '%s refuses alias / nullable / wrong-kind parents' % nm,
                  f.loc, msg='%s lost a parent check its sibling has (missing %s)' % (
                      nm, sorted(want - conds)), key='C01-R3|%s|parent-checks' % f.qualname)
        res = [c for c in own_nodes(f.node) if isinstance(c, ast.Call) and
               call_name(c) == '_resolve_type' and 'extends' in unparse(c)]
        ctx.check('C01-R3', len(res) == 1 and len(res[0].args) == 3 and
                  unparse(res[0].args[2]) == 'True',
                  '%s resolves the parent fully defined' % nm, f.loc,
                  msg='%s no longer requires a fully defined parent' % nm,
                  key='C01-R3|%s|fully-defined' % f.qualname)
        sa = [c for c in own_nodes(f.node) if isinstance(c, ast.Call) and
              unparse(c.func) == 'data_type.set_attributes']
        ctx.check('C01-R3', len(sa) == 1 and 'parent_type' in [unparse(a) for a in sa[0].args],
                  '%s hands fields and parent to set_attributes' % nm, f.loc,
                  msg='%s no longer calls set_attributes with the parent' % nm,
                  key='C01-R3|%s|set_attributes' % f.qualname)
    # R3b resolvers
    for nm, nsattr, nameattr in (('_resolve_type', 'type_ref.ns', 'type_ref.name'),
                                 ('_resolve_annotation_type', 'annotation_ref.ns',
                                  'annotation_ref.annotation'),
                                 ('_populate_type_attributes', 'annotation.annotation_type_ns',
                                  'annotation.annotation_type_name')):
        f = pm.func(GEN + '.' + nm)
        pi = path_info(f.node)
        seen = set()
        for n in own_nodes(f.node):
            if isinstance(n, ast.Raise):
                for e, pol in pi.at(n):
                    t = unparse(e)
                    if t.startswith(nsattr + ' not in ') and pol:
                        seen.add('ns-imported')
                    if t.startswith('isinstance(') and t.endswith(', Environment)') and not pol:
                        seen.add('is-namespace')
                    if t.startswith(nameattr + ' not in ') and pol:
                        seen.add('symbol-defined')
        want = {'ns-imported', 'is-namespace', 'symbol-defined'}
        ctx.check('C01-R3', seen >= want, '%s checks namespace imported / is a namespace / symbol '
                  'defined' % nm, f.loc,
                  msg='%s lost a resolution check its siblings have (missing %s)' % (
                      nm, sorted(want - seen)), key='C01-R3|%s|resolution' % f.qualname)
    # R3c _resolve_type details
    rt = pm.func(GEN + '._resolve_type')
    pi = path_info(rt.node)
    on_demand_population(pm, ctx, 'C01-R3')
    nn = [n for n in own_nodes(rt.node) if isinstance(n, ast.Raise) and
          any(unparse(e) == 'isinstance(unwrapped_dt, Nullable)' and pol for e, pol in pi.at(n))]
    from ..dataflow import defs
    uw = [unparse(v) for k, v, _ in defs(rt.node).values.get('unwrapped_dt', [])]
    ctx.check('C01-R3', len(nn) == 1 and uw == ['unwrap_aliases(data_type)'] and
              any(unparse(e) == 'type_ref.nullable' and pol for e, pol in pi.at(nn[0])),
              '_resolve_type refuses `?` on a type that is nullable through any alias chain',
              rt.loc, msg='the stacked-nullable test no longer unwraps the whole alias chain '
                          '(unwrapped_dt = %s)' % uw, key='C01-R3|%s|stacked-nullable' % rt.qualname)
    ua = pm.func(IRM + '.unwrap_aliases')
    ctx.check('C01-R3', any(isinstance(n, ast.While) and 'is_alias(data_type)' in unparse(n.test)
                            for n in own_nodes(ua.node)),
              'unwrap_aliases loops over the whole chain', ua.loc,
              msg='unwrap_aliases no longer unwraps every alias level',
              key='C01-R3|%s|loop' % ua.qualname)
    # R3d look-ups by name include inherited members
    for q, what in ((IRM + '.Union.check', 'tag of a default'),
                    (IRM + '.Union._add_example', 'tag of an example'),
                    (IRM + '.Struct._add_example_helper', 'example fields'),
                    (IRM + '.Struct.check_attr_repr', 'route attributes'),
                    (GEN + '._validate_doc_refs_helper', 'doc-referenced fields')):
        f = pm.func(q)
        its = [unparse(n.iter) for n in own_nodes(f.node, include_nested=True)
               if isinstance(n, (ast.For, ast.comprehension))]
        own_only = [t for t in its if t.endswith('.fields') and 'example' not in t and
                    'patched' not in t]
        inherited = [t for t in its if t.endswith('.all_fields')]
        ctx.check('C01-R3', inherited and not own_only,
                  '%s looks %s up among inherited members too (all_fields)' % (f.short, what),
                  f.loc, msg='%s iterates only the type\'s own fields %s: an inherited member is '
                             'wrongly unknown' % (f.short, own_only),
                  key='C01-R3|%s|all_fields' % f.qualname)
    # field clash along the inheritance chain
    sa = pm.func(IRM + '.UserDefined.set_attributes')
    wh = [n for n in own_nodes(sa.node) if isinstance(n, ast.While)]
    ok = len(wh) == 1 and unparse(wh[0].test) == 'cur_type' and \
        any(isinstance(n, ast.Assign) and unparse(n) == 'cur_type = cur_type.parent_type'
            for n in wh[0].body) and \
        any(isinstance(n, ast.Raise) for n in ast.walk(wh[0]))
    ctx.check('C01-R3', ok, 'set_attributes checks field clashes against every ancestor', sa.loc,
              msg='the ancestor field-clash walk in set_attributes changed',
              key='C01-R3|%s|ancestors' % sa.qualname)
    ses = pm.func(IRM + '.Struct.set_enumerated_subtypes')
    wh = [n for n in own_nodes(ses.node) if isinstance(n, ast.While)]
    ctx.check('C01-R3', len(wh) == 1 and any(isinstance(n, ast.Raise) for n in ast.walk(wh[0])),
              'set_enumerated_subtypes checks tag clashes against every ancestor', ses.loc,
              msg='the ancestor tag-clash walk changed',
              key='C01-R3|%s|ancestors' % ses.qualname)

    # ---------------- R4
    for nm in ('_create_alias', '_create_annotation', '_create_annotation_type', '_create_type'):
        f = pm.func(GEN + '.' + nm)
        pi = path_info(f.node)
        stores = [n for n in own_nodes(f.node) if isinstance(n, ast.Assign) and
                  isinstance(n.targets[0], ast.Subscript) and
                  unparse(n.targets[0].value) == 'env']
        ok = len(stores) == 1 and unparse(stores[0].targets[0].slice) == 'item.name' and \
            any(unparse(e) == 'item.name in env' and not pol for e, pol in pi.at(stores[0]))
        ctx.check('C01-R4', ok, '%s binds env[item.name] only after `item.name in env` raised'
                  % nm, f.loc, msg='%s binds the symbol without the clash test dominating it' % nm,
                  key='C01-R4|%s|bind-after-test' % f.qualname)
        ret = [r for r in own_nodes(f.node) if isinstance(r, ast.Return)]
        ctx.check('C01-R4', len(ret) == 1 and stores and
                  unparse(ret[0].value) == unparse(stores[0].value),
                  '%s returns the object it bound' % nm, f.loc,
                  msg='%s returns a different object than it bound' % nm,
                  key='C01-R4|%s|returns-bound' % f.qualname)
    cr = pm.func(GEN + '._create_route')
    paths = [p for p in enumerate_paths(cr.node) if p.end == 'return']
    good = bool(paths)
    for p in paths:
        ats = {unparse(e): pol for e, pol in p.atoms}
        if ats.get('item.name in env'):
            good &= ats.get('isinstance(env[item.name], ApiRoutesByVersion)') is True and \
                ats.get('item.version in env[item.name].at_version') is False
        else:
            good &= any(isinstance(s, ast.Assign) and unparse(s) ==
                        'env[item.name] = ApiRoutesByVersion()' for s in p.stmts)
    ctx.check('C01-R4', good, '_create_route: every returning path either found a routes table '
              'without that version or created the table (%d paths)' % len(paths), cr.loc,
              msg='_create_route can register a route over another symbol or an existing version',
              key='C01-R4|%s|paths' % cr.qualname)
    cn = pm.func(GEN + '._check_canonical_name_available')
    add = pm.func(GEN + '._add_data_types_and_routes_to_api')
    kinds = {}
    for c in own_nodes(add.node):
        if isinstance(c, ast.Call) and call_name(c) == '_check_canonical_name_available':
            dup = any(k.arg == 'allow_duplicate' and unparse(k.value) == 'True'
                      for k in c.keywords)
            for e, pol in path_info(add.node).at(c):
                if pol and unparse(e).startswith('isinstance(item, '):
                    kinds[unparse(e)[len('isinstance(item, '):-1]] = dup
    want = {'AstTypeDef': False, 'AstRouteDef': True, 'AstAlias': False,
            'AstAnnotationDef': False, 'AstAnnotationTypeDef': False}
    ctx.check('C01-R4', kinds == want, 'canonical-name clash test for every definition kind '
              '(duplicates allowed for route versions only)', add.loc,
              msg='canonical-name availability is checked for %s (expected %s)' % (kinds, want),
              key='C01-R4|%s|canonical' % add.qualname)

    # ---------------- R5
    folds = [
        ('p_kw_args_update', 'key in p[1]', 'keyword arguments'),
        ('p_route', 'attr.name in keys', 'route attributes'),
        ('p_examples_add', 'p[2].label in p[0]', 'example labels'),
        ('p_example', 'example_field.name in seen_fields', 'example fields'),
    ]
    for nm, test, what in folds:
        f = pm.func(PARSER + '.' + nm)
        pi = path_info(f.node)
        ok = False
        for c in own_nodes(f.node):
            if isinstance(c, ast.Call) and unparse(c.func) == 'self.errors.append':
                ok = ok or any(unparse(e) == test and pol for e, pol in pi.at(c))
        ctx.check('C01-R5', ok, '%s records an error for duplicate %s' % (nm, what), f.loc,
                  msg='%s folds %s without the duplicate test' % (nm, what),
                  key='C01-R5|%s|duplicate' % f.qualname)
    ctx.exempt('C01-R5', 'ParserFactory.p_ex_map_pairs_*', 'map literals have no uniqueness rule '
               'in the language reference')
    inh = pm.func(PARSER + '.p_inheritance')
    pi = path_info(inh.node)
    ok = any(isinstance(c, ast.Call) and unparse(c.func) == 'self.errors.append' and
             any(unparse(e) == 'p[2].nullable' and pol for e, pol in pi.at(c))
             for c in own_nodes(inh.node))
    ctx.check('C01-R5', ok, 'p_inheritance refuses a nullable parent reference', inh.loc,
              msg='a nullable `extends` reference is no longer refused',
              key='C01-R5|%s|nullable-parent' % inh.qualname)

    # ---------------- R6
    ek = EnvKinds(pm)
    rets = [r for r in own_nodes(rt.node) if isinstance(r, ast.Return)]
    d = defs(rt.node)
    bad_kinds = set()
    n_assign = 0
    for kind, v, stmt in d.values.get('data_type', []):
        n_assign += 1
        ks = ek.kinds_at(rt, stmt, v)
        if ks is None:
            continue    # constructed here (instantiate / Nullable(...))
        bad_kinds |= {k for k in ks if not k.startswith('inst:')}
    ctx.check('C01-R6', not bad_kinds and n_assign >= 3,
              '_resolve_type binds its result from the environment only for data-type instances',
              rt.loc, msg='_resolve_type can return an environment value of kind %s as a data '
                          'type (annotation / annotation type / namespace accepted as a type)'
                          % sorted(bad_kinds), key='C01-R6|%s|result-kinds' % rt.qualname)
    ctx.check('C01-R6', len(rets) == 1 and unparse(rets[0].value) == 'data_type',
              '_resolve_type has a single result', rt.loc,
              msg='_resolve_type gained another return', key='C01-R6|%s|single' % rt.qualname)
    ra = pm.func(GEN + '._resolve_annotation_type')
    # annotations attached to fields are checked by Field.set_annotations' final else
    for q in (IRM + '.Field.set_annotations', IRM + '.Alias.set_annotations'):
        f = pm.func(q)
        last = [n for n in own_nodes(f.node) if isinstance(n, ast.Raise)]
        pi = path_info(f.node)
        ok = any(all(not pol for e, pol in pi.at(r) if unparse(e).startswith('isinstance(annotation'))
                 and sum(1 for e, pol in pi.at(r) if unparse(e).startswith('isinstance(annotation'))
                 >= 2 for r in last)
        ctx.check('C01-R6', ok, '%s refuses anything that is not a known annotation kind' % f.short,
                  f.loc, msg='%s lost its refusal of unknown annotation objects' % f.short,
                  key='C01-R6|%s|else' % f.qualname)
    # no class test on an environment value is vacuous: a test no stored kind can satisfy
    # guards a refusal that never happens (e.g. isinstance(obj, Void) where environments
    # hold the *class* Void)
    n_tests = 0
    for f in pm.funcs_in('stone.frontend.ir_generator'):
        pi = path_info(f.node)
        for t in own_nodes(f.node):
            if not (isinstance(t, ast.Call) and call_name(t) == 'isinstance' and len(t.args) == 2):
                continue
            ks = ek.kinds_at(f, t, t.args[0])
            if ks is None or not ks:
                continue
            n_tests += 1
            sat = ek._filter(ks, f.module, t, True, unparse(t.args[0]))
            ctx.check('C01-R6', bool(sat), '%s: %s can hold for a stored kind' % (
                f.short, unparse(t)), '%s:%d' % (f.module.relpath, t.lineno),
                msg='%s tests %s, but an environment never holds such an instance (kinds here: '
                    '%s): the branch it guards -- typically a refusal -- is dead'
                    % (f.short, unparse(t), sorted(ks)),
                key='C01-R6|%s|vacuous|%s' % (f.qualname, unparse(t)))
    ctx.floor('C01-R6', n_tests, 8, 'isinstance tests on environment values')
    parser_state(pm, ctx, 'C01-R8')
    ctx.import_rules(pm, 'C02', {'C02-R5'}, 'C01-R7',
                     'field listings that legality checks iterate are complete (shared with C02-R5)')
    ctx.import_rules(pm, 'C02', {'C02-R9'}, 'C01-R10',
                     'absence of a declared value is tested with `is None`, never by truth value: '
                     'a route attribute or default of false / 0 / "" is a value (shared with '
                     'C02-R9)')
    from .. import effects
    effects.run_refusals(pm, ctx, 'C01-R9', ('stone.frontend', 'stone.ir'),
                         ('InvalidSpec', 'ParameterError', 'ValueError'),
                         'each spec error is reported under the condition confirmed on the '
                         'reference tree (path formulas compared by truth table over the leaf '
                         'tests; re-spelled tests are not claimed)', 'reported',
                         raisers=('raise_mismatch_error',))

    ctx.import_rules(pm, 'C11', {'C11-R7'}, 'C01-R11',
                     'examples of every namespace are registered before any is computed: a legal reference to an example of an imported type is not refused for some file orders (shared with C11-R7)')
    from ..effects import run_decisions
    from ..ownership import OWN
    run_decisions(pm, ctx, 'C01-RD', OWN['C01'])
    from .. import exprdrift
    exprdrift.run(pm, ctx, 'C01-RE', OWN['C01'])
    from ..effects import run_calls
    run_calls(pm, ctx, 'C01-RC', OWN['C01'])
    from .. import memo
    memo.run(pm, ctx, 'C01-MK', OWN['C01'])
    from .. import interface
    interface.run(pm, ctx, 'C01-RI', OWN['C01'])
    from .. import mutation
    mutation.run(pm, ctx, 'C01-MU', OWN['C01'])
    from .. import grammar
    grammar.run(pm, ctx, 'C01-GR', which=('GR1','GR2','GR3','GR4'))
