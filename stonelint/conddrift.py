"""Condition drift of refusal sites (cross-check through time).

A *refusal site* is a statement that reports an error: ``raise <Exc>(...)`` of
one of the error classes of the layer analysed, or an append to the parser's
error list.  The condition under which it runs is the conjunction of the path
atoms that dominate it.  `reference/conditions.json` records, for every site of
the tree on which the rules were confirmed, that condition in a canonical form;
a check compares the current tree with it.

Canonical form (after the model's normal forms and alpha-normalisation):
* single-assignment locals are substituted by their definitions, so naming or
  inlining an intermediate value changes nothing;
* an ordering / equality comparison becomes ``(lhs, rhs, allowed orderings)``
  with operands in a fixed order and the polarity folded in, so ``not a < b``
  and ``a >= b`` read the same and ``a < b`` vs ``a <= b`` differ only in the
  relation;
* every other atom is ``(text, polarity)``.

Verdicts per site (sites are matched by function, exception class and the
first text literal of the message; an unmatched site is not claimed):
* same condition                                  -> ok
* same operands, different relation or polarity   -> the refusal now happens
  for other inputs: VIOLATION
* the atoms are a strict subset / strict superset -> the refusal was widened /
  narrowed by a pure removal / addition of a conjunct: VIOLATION
* atoms replaced by others                        -> not comparable, no claim
  (a re-spelling and a semantic change cannot be told apart)
"""
import ast
import json
import os

from .dataflow import defs
from .model import call_name, own_nodes, unparse
from .pathcond import path_info

ORD = frozenset({'<', '=', '>'})
OPS = {ast.Lt: {'<'}, ast.LtE: {'<', '='}, ast.Gt: {'>'}, ast.GtE: {'>', '='},
       ast.Eq: {'='}, ast.NotEq: {'<', '>'}}


def _subst_text(f, e, depth=3):
    """Text of ``e`` with single-assignment locals replaced by their value."""
    d = defs(f.node)
    names = {}
    for x in ast.walk(e):
        if isinstance(x, ast.Name) and isinstance(x.ctx, ast.Load) and x.id not in names:
            v = d.single(x.id)
            if v is not None and depth > 0 and not any(
                    isinstance(y, ast.Name) and y.id == x.id for y in ast.walk(v)):
                names[x.id] = '(%s)' % _subst_text(f, v, depth - 1)
    if not names:
        return unparse(e)
    touched = []
    for x in ast.walk(e):
        if isinstance(x, ast.Name) and x.id in names:
            touched.append((x, x.id))
            x.id = '\x00%s\x00' % x.id
    try:
        t = unparse(e)
    finally:
        for x, old in touched:
            x.id = old
    for nm, rep in names.items():
        t = t.replace('\x00%s\x00' % nm, rep)
    return t


def canonical_atom(f, e, pol):
    if isinstance(e, ast.Compare) and len(e.ops) == 1 and type(e.ops[0]) in OPS:
        a, b = _subst_text(f, e.left), _subst_text(f, e.comparators[0])
        rel = set(OPS[type(e.ops[0])])
        if not pol:
            rel = set(ORD) - rel
        if a > b:
            a, b = b, a
            rel = {{'<': '>', '>': '<', '=': '='}[x] for x in rel}
        return ['cmp', a, b, ''.join(sorted(rel))]
    if isinstance(e, ast.Compare) and len(e.ops) == 1 and \
            isinstance(e.ops[0], (ast.Is, ast.IsNot, ast.In, ast.NotIn)):
        pos = isinstance(e.ops[0], (ast.Is, ast.In))
        op = 'is' if isinstance(e.ops[0], (ast.Is, ast.IsNot)) else 'in'
        return ['rel', _subst_text(f, e.left), op, _subst_text(f, e.comparators[0]),
                pos == pol]
    return ['atom', _subst_text(f, e), bool(pol)]


def _owning_if(e):
    """The If/While statement whose test contains expression ``e``."""
    child, par = e, getattr(e, '_parent', None)
    while par is not None:
        if isinstance(par, (ast.If, ast.While)) and (child is par.test):
            return par
        if isinstance(par, ast.stmt):
            return None
        child, par = par, getattr(par, '_parent', None)
    return None


def _only_raises(stmts):
    """Every way out of ``stmts`` is a raise (no return/continue/break)."""
    from .pathcond import terminates
    if not terminates(stmts):
        return False
    for st in stmts:
        for x in ast.walk(st):
            if isinstance(x, (ast.Return, ast.Continue, ast.Break)):
                return False
    return True


def _from_refusing_exit(e, pol, site):
    """The atom is the negation of a test whose branch only refuses (raises):
    whichever of the two refusals comes first, the input is refused, so the
    atom does not change what is accepted."""
    if pol:
        return False
    st = _owning_if(e)
    if st is None or not isinstance(st, ast.If):
        return False
    inside = any(x is site for x in ast.walk(st) if x is not st) and \
        not any(x is site for b in st.orelse for x in ast.walk(b))
    if inside:
        return False
    return _only_raises(st.body)


def _message_key(n):
    for x in ast.walk(n):
        if isinstance(x, ast.Constant) and isinstance(x.value, str) and len(x.value) >= 6:
            return x.value[:48]
    return ''


def refusal_sites(pm, prefixes, exc_names, error_lists=('self.errors',), raisers=()):
    """[(function, node, exception name, message key)]."""
    out = []
    for f in pm.funcs_in(*prefixes):
        for n in own_nodes(f.node):
            if isinstance(n, ast.Raise) and n.exc is not None:
                t = unparse(n.exc.func if isinstance(n.exc, ast.Call) else n.exc)
                t = t.split('.')[-1]
                if t in exc_names:
                    out.append((f, n, t, _message_key(n.exc)))
            elif isinstance(n, ast.Call) and isinstance(n.func, ast.Attribute) and \
                    n.func.attr in ('append', 'insert') and unparse(n.func.value) in error_lists:
                out.append((f, n, 'errors', _message_key(n)))
            elif isinstance(n, ast.Expr) and isinstance(n.value, ast.Call) and \
                    call_name(n.value) in raisers:
                out.append((f, n, call_name(n.value), _message_key(n.value)))
    return out


def conditions(pm, prefixes, exc_names, **kw):
    """{site id: sorted canonical atoms} ; site id = qualname|exc|message|ordinal."""
    out = {}
    counts = {}
    for f, n, exc, msg in refusal_sites(pm, prefixes, exc_names, **kw):
        pi = path_info(f.node)
        atoms = sorted(json.dumps(canonical_atom(f, e, pol)) for e, pol in pi.at(n)
                       if not _from_refusing_exit(e, pol, n))
        base = '%s|%s|%s' % (f.qualname, exc, msg)
        k = counts.get(base, 0)
        counts[base] = k + 1
        out['%s|%d' % (base, k)] = {'atoms': atoms, 'line': n.lineno, 'file': f.module.relpath}
    return out


def _key_of(atom):
    a = json.loads(atom)
    if a[0] == 'cmp':
        return ('cmp', a[1], a[2])
    if a[0] == 'rel':
        return ('rel', a[1], a[2], a[3])
    return ('atom', a[1])


def compare(ref_atoms, cur_atoms):
    """('ok' | 'changed' | 'narrowed' | 'widened' | 'incomparable', detail)."""
    r, c = set(ref_atoms), set(cur_atoms)
    if r == c:
        return 'ok', ''
    rk = {_key_of(a): a for a in r}
    ck = {_key_of(a): a for a in c}
    if set(rk) == set(ck):
        diff = [(rk[k], ck[k]) for k in rk if rk[k] != ck[k]]
        return 'changed', '; '.join('%s -> %s' % d for d in diff)
    if set(rk) < set(ck) and all(rk[k] == ck[k] for k in rk):
        return 'narrowed', 'additional condition(s): %s' % sorted(ck[k] for k in set(ck) - set(rk))
    if set(ck) < set(rk) and all(rk[k] == ck[k] for k in ck):
        return 'widened', 'dropped condition(s): %s' % sorted(rk[k] for k in set(rk) - set(ck))
    return 'incomparable', ''


def load_reference(verif_root, name):
    p = os.path.join(verif_root, 'reference', 'conditions.json')
    if not os.path.exists(p):
        return None
    with open(p, encoding='utf-8') as fh:
        return json.load(fh).get(name)


LAYERS = {
    # name: (module prefixes, exception names, extra kwargs)
    'frontend': (('stone.frontend', 'stone.ir'), ('InvalidSpec', 'ParameterError', 'ValueError'),
                 {'raisers': ('raise_mismatch_error',)}),
    'runtime': (('stone.backends.python_rsrc.stone_validators',
                 'stone.backends.python_rsrc.stone_serializers',
                 'stone.backends.python_rsrc.stone_base'),
                ('ValidationError', 'AssertionError'), {}),
}


def run(pm, ctx, rule, layer, title, what):
    """Compare the refusal conditions of one layer with the reference."""
    from .model import AnalysisError
    ctx.rule(rule, title)
    prefixes, excs, kw = LAYERS[layer]
    verif = os.path.dirname(os.path.dirname(os.path.abspath(__file__)))
    ref = load_reference(verif, layer)
    if ref is None:
        raise AnalysisError('anchor=reference/conditions.json (%s layer missing)' % layer)
    cur = conditions(pm, prefixes, excs, **kw)
    n = matched = 0
    for sid, info in sorted(cur.items()):
        r = ref.get(sid)
        if r is None:
            continue
        matched += 1
        verdict, detail = compare(r['atoms'], info['atoms'])
        where = '%s:%d' % (info['file'], info['line'])
        short = sid.split('|')
        inst = '%s: %s %r reported under its confirmed condition' % (
            short[0].replace('stone.', ''), short[1], short[2][:30])
        if verdict in ('ok', 'incomparable'):
            if verdict == 'incomparable':
                ctx.note('%s: condition of %s re-spelled or replaced; not comparable, not claimed'
                         % (rule, sid))
            ctx.ok(rule, inst, where)
            continue
        n += 1
        ctx.check(rule, False, inst, where,
                  msg='%s: the condition under which %s %r is %s has been %s (%s): %s' % (
                      short[0].replace('stone.', ''), short[1], short[2][:40], what, verdict,
                      detail[:300], {'changed': 'the refusal now happens for other inputs',
                                     'narrowed': 'inputs that used to be refused are accepted',
                                     'widened': 'inputs that used to be accepted are refused'}[
                                         verdict]),
                  key='%s|%s' % (rule, sid))
    ctx.extra['%s_sites_matched' % rule] = matched
    ctx.extra['%s_sites_current' % rule] = len(cur)
    ctx.floor(rule, matched, max(1, int(0.5 * len(ref))), 'refusal sites matched with the reference')
