"""Interface drift (rule ``<ID>-RI``): the parts of a module that are not
statements of a function body, compared with the confirmed tree.

The drift rules over function bodies (effects, expressions) do not see a
change made *around* the code: a decorator, a parameter default, a base class,
a special method that redefines an operator for every user of a class, a
class-level or module-level constant or table, a compiled regular expression.
``reference/interface.json`` records these for the confirmed tree.

Verdicts (each is exact in the sense that a report names a concrete difference
in what the program computes; what cannot be decided is not claimed):

* constant        numbers / strings / tuples / sets / dicts that fold to a
                  value (``keyword.kwlist`` and friends are folded from the
                  standard library): another value is a violation, with the
                  differing element as witness; unfoldable text is not claimed
* regex           a pattern given to ``re.compile`` (or a ``t_`` style string):
                  a probe text that one pattern matches and the other does
                  not is the witness; without witness not claimed
* default         another default value of a parameter that some call in the
                  repository (or none at all: public API) leaves out
* special method  ``__eq__ __hash__ __lt__ __bool__ __len__ __contains__
                  __iter__ __getattr__ __copy__ __deepcopy__ ...`` added to or
                  removed from a class: the operator changes meaning at every
                  use of the class
* base classes    changed: isinstance / except matching and the MRO change
* decorator       a caching decorator (``lru_cache``, ``cache``,
                  ``cached_property``) added to a function whose body reads
                  attributes of its arguments (the cache is keyed by identity /
                  equality of the argument, the result depends on its state)
                  or tells ``bool``/``int``/``float`` arguments apart
                  (``1 == 1.0 == True`` share one entry); ``property`` /
                  ``staticmethod`` / ``classmethod`` added or removed
"""
import ast
import itertools
import json
import keyword
import os
import re
import string

from . import consteval
from .model import own_nodes, unparse

SPECIALS = {'__eq__', '__ne__', '__hash__', '__lt__', '__le__', '__gt__', '__ge__', '__bool__',
            '__len__', '__contains__', '__iter__', '__getattr__', '__getattribute__',
            '__setattr__', '__delattr__', '__copy__', '__deepcopy__', '__reduce__',
            '__getstate__', '__setstate__', '__call__', '__getitem__', '__setitem__',
            '__get__', '__set__', '__delete__', '__enter__', '__exit__', '__new__',
            '__init_subclass__', '__class_getitem__'}
CACHING = {'lru_cache', 'cache', 'cached_property', 'memoize', 'memoized'}
KIND_DECOS = {'property', 'abstractmethod', 'contextmanager'}      # staticmethod on a method that
# does not use self leaves every `self.m(...)` call working: not a change of meaning

STDLIB = {
    'keyword.kwlist': list(keyword.kwlist),
    'keyword.softkwlist': list(getattr(keyword, 'softkwlist', [])),
    'string.ascii_letters': string.ascii_letters, 'string.ascii_lowercase': string.ascii_lowercase,
    'string.ascii_uppercase': string.ascii_uppercase, 'string.digits': string.digits,
    'string.punctuation': string.punctuation, 'string.whitespace': string.whitespace,
}
REF = os.path.join(os.path.dirname(os.path.dirname(os.path.abspath(__file__))), 'reference',
                   'interface.json')
_NO = object()


# ---------------------------------------------------------------------------
# folding

def _fold(node, env):
    """Value of a constant expression; frozenset/set/tuple/list/dict/sorted of
    folded values; a few standard-library constants; else _NO."""
    if isinstance(node, ast.Attribute):
        t = unparse(node)
        if t in STDLIB:
            return STDLIB[t]
        return _NO
    if isinstance(node, ast.Call) and isinstance(node.func, ast.Name) and \
            node.func.id == 'getattr' and len(node.args) >= 2 and \
            isinstance(node.args[1], ast.Constant):
        t = '%s.%s' % (unparse(node.args[0]), node.args[1].value)
        if t in STDLIB:
            return STDLIB[t]
        return _NO
    if isinstance(node, ast.Call) and isinstance(node.func, ast.Name) and \
            node.func.id in ('frozenset', 'set', 'tuple', 'list', 'sorted', 'dict') and \
            not node.keywords:
        if not node.args:
            return {'frozenset': frozenset(), 'set': set(), 'tuple': (), 'list': [],
                    'sorted': [], 'dict': {}}[node.func.id]
        if len(node.args) == 1:
            v = _fold(node.args[0], env)
            if v is _NO:
                return _NO
            try:
                return {'frozenset': frozenset, 'set': set, 'tuple': tuple, 'list': list,
                        'sorted': sorted, 'dict': dict}[node.func.id](v)
            except (TypeError, ValueError):
                return _NO
        return _NO
    if isinstance(node, ast.BinOp) and isinstance(node.op, (ast.BitOr, ast.BitAnd, ast.Sub,
                                                             ast.Add)):
        l, r = _fold(node.left, env), _fold(node.right, env)
        if l is _NO or r is _NO:
            return _NO
        try:
            if isinstance(node.op, ast.BitOr):
                return l | r
            if isinstance(node.op, ast.BitAnd):
                return l & r
            if isinstance(node.op, ast.Sub):
                return l - r
            return l + r
        except TypeError:
            return _NO
    if isinstance(node, (ast.Tuple, ast.List, ast.Set)):
        vals = [_fold(e, env) for e in node.elts]
        if any(v is _NO for v in vals):
            return _NO
        try:
            return {ast.Tuple: tuple, ast.List: list, ast.Set: frozenset}[type(node)](vals)
        except TypeError:
            return _NO
    if isinstance(node, ast.Dict):
        if any(k is None for k in node.keys):
            return _NO
        ks = [_fold(k, env) for k in node.keys]
        vs = [_fold(v, env) for v in node.values]
        if any(k is _NO for k in ks):
            return _NO
        try:
            return {k: (None if v is _NO else v) for k, v in zip(ks, vs)} \
                if not any(v is _NO for v in vs) else {k: '<expr>' for k in ks}
        except TypeError:
            return _NO
    if isinstance(node, ast.Name) and node.id in env:
        return env[node.id]
    try:
        return consteval.fold(node, env)
    except (consteval.NotConstant, TypeError, ValueError, ZeroDivisionError, OverflowError):
        return _NO


def _jsonable(v):
    if isinstance(v, (frozenset, set)):
        try:
            return {'set': sorted(_jsonable(x) for x in v)}
        except TypeError:
            return {'set': sorted((json.dumps(_jsonable(x), sort_keys=True) for x in v))}
    if isinstance(v, tuple):
        return {'tuple': [_jsonable(x) for x in v]}
    if isinstance(v, list):
        return {'list': [_jsonable(x) for x in v]}
    if isinstance(v, dict):
        return {'dict': sorted([[json.dumps(_jsonable(k), sort_keys=True), _jsonable(x)]
                                for k, x in v.items()])}
    if isinstance(v, float):
        return {'float': repr(v)}
    if isinstance(v, bytes):
        return {'bytes': v.decode('latin-1')}
    if isinstance(v, complex):
        return {'complex': repr(v)}
    return v


def _regex_of(node):
    """Pattern text when ``node`` is re.compile('...'[, flags])."""
    if isinstance(node, ast.Call) and unparse(node.func) in ('re.compile', 'compile') and node.args:
        p = node.args[0]
        try:
            v = consteval.fold(p, {})
        except Exception:
            return None
        if isinstance(v, str):
            return v
    return None


def _describe(value_node, env):
    """{'kind': 'value'|'regex'|'text', ...} for the right-hand side of a constant."""
    rx = _regex_of(value_node)
    if rx is not None:
        flags = [unparse(a) for a in value_node.args[1:]] + \
                ['%s=%s' % (k.arg, unparse(k.value)) for k in value_node.keywords]
        return {'kind': 'regex', 'pattern': rx, 'flags': flags}
    v = _fold(value_node, env)
    if v is not _NO:
        try:
            return {'kind': 'value', 'value': _jsonable(v)}
        except TypeError:
            pass
    return {'kind': 'text', 'text': unparse(value_node)}


def _constants_of(body, env=None):
    """Constants assigned in a module or class body, folded in statement order."""
    env = {} if env is None else env
    out = {}
    for st in body:
        tgt = val = None
        aug = False
        if isinstance(st, ast.Assign) and len(st.targets) == 1 and \
                isinstance(st.targets[0], ast.Name):
            tgt, val = st.targets[0].id, st.value
        elif isinstance(st, ast.AnnAssign) and isinstance(st.target, ast.Name) and st.value:
            tgt, val = st.target.id, st.value
        elif isinstance(st, ast.AugAssign) and isinstance(st.target, ast.Name) and \
                isinstance(st.op, ast.Add):
            tgt, val, aug = st.target.id, st.value, True
        if tgt is None:
            continue
        if aug:
            v = _fold(val, env)
            if tgt in env and v is not _NO:
                try:
                    env[tgt] = env[tgt] + v
                    out[tgt] = {'kind': 'value', 'value': _jsonable(env[tgt])}
                    continue
                except TypeError:
                    pass
            env.pop(tgt, None)
            out[tgt] = {'kind': 'text', 'text': '+= ' + unparse(val)}
            continue
        d = _describe(val, env)
        v = _fold(val, env)
        if v is not _NO:
            env[tgt] = v
        else:
            env.pop(tgt, None)
        out[tgt] = d
    return out


# ---------------------------------------------------------------------------
# extraction

def _decorators(fn):
    out = []
    for d in fn.decorator_list:
        f = d.func if isinstance(d, ast.Call) else d
        out.append(f.attr if isinstance(f, ast.Attribute) else getattr(f, 'id', unparse(f)))
    return out


def _defaults(fn):
    a = fn.args
    out = {}
    pos = a.posonlyargs + a.args
    for p, d in zip(reversed(pos), reversed(a.defaults)):
        out[p.arg] = d
    for p, d in zip(a.kwonlyargs, a.kw_defaults):
        if d is not None:
            out[p.arg] = d
    return out


def _default_text(d):
    v = _fold(d, {})
    if v is not _NO:
        try:
            return json.dumps(_jsonable(v), sort_keys=True)
        except TypeError:
            pass
    return 'expr:' + unparse(d)


NOISE_KW = {'help', 'metavar', 'description', 'epilog'}


def _module_calls(body):
    """Call statements at module level (command-line definitions and the like):
    {callee + positional constants: {keyword: value text}}"""
    out = {}
    for st in body:
        if not (isinstance(st, ast.Expr) and isinstance(st.value, ast.Call)):
            continue
        c = st.value
        pos = [repr(a.value) for a in c.args if isinstance(a, ast.Constant)]
        key = '%s(%s)' % (unparse(c.func), ', '.join(pos))
        out[key] = {k.arg: unparse(k.value) for k in c.keywords
                    if k.arg and k.arg not in NOISE_KW}
    return out


def template_attrs(pm):
    """{template file: attribute names read, in document order} for the Jinja templates of
    the Swift backends (parsed with jinja2's parser, never rendered)."""
    out = {}
    d = os.path.join(pm.repo, 'stone', 'backends', 'swift_rsrc')
    if not os.path.isdir(d):
        return out
    try:
        import jinja2
        from jinja2 import nodes
    except ImportError:
        return out
    env = jinja2.Environment(trim_blocks=True, lstrip_blocks=True)
    for fn in sorted(os.listdir(d)):
        if not fn.endswith('.jinja'):
            continue
        try:
            with open(os.path.join(d, fn), encoding='utf-8') as fh:
                tree = env.parse(fh.read())
        except Exception:
            continue
        names = []

        def walk(n):
            if isinstance(n, nodes.Getattr):
                walk(n.node)
                names.append(n.attr)
                return
            for c in n.iter_child_nodes():
                walk(c)
        walk(tree)
        out[fn] = names
    return out


def extract(pm):
    """{'modules': {name: {'constants'}}, 'classes': {q: {...}}, 'functions': {q: {...}}}"""
    out = {'modules': {}, 'classes': {}, 'functions': {}, 'templates': template_attrs(pm)}
    for name, m in pm.modules.items():
        out['modules'][name] = {'constants': _constants_of(m.tree.body),
                                'calls': _module_calls(m.tree.body)}
    for q, c in pm.classes.items():
        specials = sorted(s.name for s in c.node.body
                          if isinstance(s, (ast.FunctionDef, ast.AsyncFunctionDef)) and
                          s.name in SPECIALS)
        # `__hash__ = None` and friends
        for s in c.node.body:
            if isinstance(s, ast.Assign) and len(s.targets) == 1 and \
                    isinstance(s.targets[0], ast.Name) and s.targets[0].id in SPECIALS:
                specials.append(s.targets[0].id + '=' + unparse(s.value))
        out['classes'][q] = {'bases': [unparse(b) for b in c.node.bases],
                             'specials': sorted(specials),
                             'constants': _constants_of(c.node.body)}
    for q, f in pm.functions.items():
        if not isinstance(f.node, (ast.FunctionDef, ast.AsyncFunctionDef)):
            continue
        out['functions'][q] = {'decorators': _decorators(f.node),
                               'defaults': {p: _default_text(d)
                                            for p, d in _defaults(f.node).items()}}
    return out


def build_reference(pm):
    d = extract(pm)
    d['note'] = 'decorators, parameter defaults, base classes, special methods, class- and ' \
                'module-level constants and compiled regular expressions at /repo HEAD; the ' \
                'reference of rule RI (stonelint/interface.py)'
    return d


_REFCACHE = {}


def load_reference():
    if REF not in _REFCACHE:
        if not os.path.exists(REF):
            return None
        with open(REF, encoding='utf-8') as fh:
            _REFCACHE[REF] = json.load(fh)
    return _REFCACHE[REF]


# ---------------------------------------------------------------------------
# witnesses

def regex_witness(old, new, flags_old=(), flags_new=()):
    """A text that exactly one of the two patterns matches somewhere / fully,
    or on which their first match differs."""
    def comp(p, flags):
        fl = 0
        for f in flags:
            for part in re.split(r'[|\s]+', f.split('=')[-1]):
                part = part.strip().split('.')[-1]
                if part and hasattr(re, part) and isinstance(getattr(re, part), int):
                    fl |= getattr(re, part)
        return re.compile(p, fl)
    try:
        ro = comp(old, flags_old)
    except re.error:
        return None
    try:
        rn = comp(new, flags_new)
    except re.error as e:
        return ('', 'compiles', 're.error: %s' % e)
    chars = set('aZ_-09 \t\n"\\/.xé')
    for p in (old, new):
        for c in p:
            if not c.isalnum() and c != '\\':
                chars.add(c)
        for m in re.finditer(r'[A-Za-z0-9]', p):
            chars.add(m.group())
    chars = sorted(chars)[:24]
    words = ['a1b', 'ab12', 'ab12\n', 'Ab', 'aB', 'AB', 'a1B2c', 'foo_bar', 'fooBar', 'FooBar',
             'FOOBar', 'foo2bar', 'sha256sum', 'p2p', 'x\n', '\n', ' a', 'a ', 'a.b', 'a-b', '1.5',
             '-1', '1e5', '', 'abc', 'abcX', 'Xabc', 'i18n_key', 'HTTPServer', 'a_', '_a', 'a__b']
    probes = list(words)
    for L in (1, 2, 3):
        for tup in itertools.product(chars, repeat=L):
            probes.append(''.join(tup))
            if len(probes) > 20000:
                break

    def sig(r, t):
        m = r.search(t)
        fm = r.fullmatch(t)
        return (m.span() if m else None, bool(fm), tuple(x.span() for x in r.finditer(t))[:6])
    for t in probes:
        a, b = sig(ro, t), sig(rn, t)
        if a != b:
            return (t, a, b)
    return None


def _value_diff(old, new):
    """A concrete element on which two folded values differ."""
    if type(old) is dict and type(new) is dict and set(old) == set(new) and len(old) == 1:
        k = next(iter(old))
        o, n = old[k], new[k]
        if k == 'set':
            so, sn = {json.dumps(x, sort_keys=True) for x in o}, {json.dumps(x, sort_keys=True)
                                                                  for x in n}
            if so == sn:
                return None
            d = sorted(so ^ sn)[0]
            return '%s is %s' % (d, 'no longer a member' if d in so else 'a new member')
        if k == 'dict':
            do, dn = {a: b for a, b in o}, {a: b for a, b in n}
            for kk in sorted(set(do) | set(dn)):
                if do.get(kk, _NO) != dn.get(kk, _NO):
                    return 'key %s: %s -> %s' % (kk, do.get(kk, '<absent>'), dn.get(kk, '<absent>'))
            return None
        if k in ('tuple', 'list'):
            if o == n:
                return None
            return '%s -> %s' % (json.dumps(o)[:80], json.dumps(n)[:80])
    if old == new:
        return None
    # a tuple/list turned into a set of the same members (membership tables)
    def members(v):
        if isinstance(v, dict) and len(v) == 1 and next(iter(v)) in ('set', 'tuple', 'list'):
            return {json.dumps(x, sort_keys=True) for x in v[next(iter(v))]}
        return None
    mo, mn = members(old), members(new)
    if mo is not None and mn is not None:
        if mo == mn:
            return None          # same members, another container: decided at the use sites
        d = sorted(mo ^ mn)[0]
        return '%s is %s' % (d, 'no longer a member' if d in mo else 'a new member')
    return '%s -> %s' % (json.dumps(old)[:80], json.dumps(new)[:80])


def _const_problem(name, r, c):
    if r['kind'] == 'regex' and c['kind'] == 'regex':
        if r['pattern'] == c['pattern'] and r.get('flags') == c.get('flags'):
            return None
        w = regex_witness(r['pattern'], c['pattern'], r.get('flags', ()), c.get('flags', ()))
        if w is None:
            return None
        return 'the regular expression %s changed: on the text %r it gave %s, now %s' % (
            name, w[0], w[1], w[2])
    if r['kind'] == 'value' and c['kind'] == 'value':
        d = _value_diff(r['value'], c['value'])
        if d is None:
            return None
        return 'the constant %s changed: %s' % (name, d)
    return None       # text on one side: not claimed


# ---------------------------------------------------------------------------
# the rule

def _cache_problem(f):
    """Why a caching decorator on ``f`` is unsound, or None."""
    params = [p for p in f.params]
    if not params:
        return None
    reads = set()
    for n in own_nodes(f.node):
        if isinstance(n, ast.Attribute) and isinstance(n.value, ast.Name) and \
                n.value.id in params and isinstance(n.ctx, ast.Load):
            par = getattr(n, '_parent', None)
            if isinstance(par, ast.Call) and par.func is n:
                reads.add('%s.%s()' % (n.value.id, n.attr))
            else:
                reads.add('%s.%s' % (n.value.id, n.attr))
    if reads:
        return 'the cached result depends on %s, which is not part of the cache key (the ' \
               'argument is looked up by identity/equality, its state may change)' % sorted(reads)[:3]
    scalar = {'bool', 'int', 'float', 'str', 'bytes'}
    for n in own_nodes(f.node):
        if isinstance(n, ast.Call) and isinstance(n.func, ast.Name) and \
                n.func.id in ('repr', 'str', 'type', 'format') and n.args and \
                isinstance(n.args[0], ast.Name) and n.args[0].id in params:
            return 'the result is the %s() of the argument, which differs for 1, 1.0 and True ' \
                   'although they are one cache key' % n.func.id
        if isinstance(n, ast.Call) and isinstance(n.func, ast.Name) and n.func.id == 'isinstance' \
                and len(n.args) == 2 and isinstance(n.args[0], ast.Name) and n.args[0].id in params:
            names = {x.id for x in ast.walk(n.args[1]) if isinstance(x, ast.Name)}
            if names & scalar:
                return 'the function tells %s apart by type, but 1, 1.0 and True are one cache ' \
                       'key' % sorted(names & scalar)
    return None


def _omitting_call(pm, f, param):
    """Does some call in the repository leave ``param`` to its default?  None
    when no call of the function's name is found at all."""
    idx = None
    a = f.node.args
    names = [x.arg for x in a.posonlyargs + a.args]
    if names and names[0] in ('self', 'cls') and f.cls is not None:
        names = names[1:]
    if param in names:
        idx = names.index(param)
    found = False
    for g in pm.functions.values():
        for n in own_nodes(g.node):
            if not isinstance(n, ast.Call):
                continue
            fn = n.func
            nm = fn.attr if isinstance(fn, ast.Attribute) else getattr(fn, 'id', None)
            if nm != f.name:
                continue
            found = True
            if any(k.arg == param or k.arg is None for k in n.keywords):
                continue
            if any(isinstance(x, ast.Starred) for x in n.args):
                continue
            if idx is not None and len(n.args) > idx:
                continue
            return True
    return None if not found else False


def run(pm, ctx, rule, patterns):
    from .model import AnalysisError
    from .ownership import select
    ctx.rule(rule, 'interface drift of the modules the property rests on: constants and tables '
                   '(folded values), compiled regular expressions (witness text), parameter '
                   'defaults, special methods, base classes and caching decorators as on the '
                   'confirmed tree (reference/interface.json)')
    ref = load_reference()
    if ref is None:
        raise AnalysisError('anchor=reference/interface.json')
    funcs = select(pm, patterns)
    mods = sorted({f.module.name for f in funcs})
    cur = extract(pm)
    n = 0
    for m in mods:
        rm, cm = ref['modules'].get(m), cur['modules'].get(m)
        if rm is None or cm is None:
            continue
        where = pm.modules[m].relpath
        for name, r in sorted(rm['constants'].items()):
            c = cm['constants'].get(name)
            if c is None:
                continue
            n += 1
            pr = _const_problem('%s.%s' % (m.replace('stone.', ''), name), r, c)
            ctx.check(rule, pr is None, '%s.%s as confirmed' % (m.replace('stone.', ''), name),
                      where, msg=pr or '', key='%s|%s|const|%s' % (rule, m, name))
        for key, rk in sorted(rm.get('calls', {}).items()):
            ck = cm.get('calls', {}).get(key)
            if ck is None:
                continue
            n += 1
            diff = sorted(k for k in set(rk) | set(ck) if rk.get(k) != ck.get(k))
            ctx.check(rule, not diff, '%s: module-level %s as confirmed' % (
                m.replace('stone.', ''), key[:50]), where,
                msg='%s: the module-level definition %s changed its %s: %s -> %s' % (
                    m.replace('stone.', ''), key[:60], ', '.join(diff),
                    {k: rk.get(k) for k in diff}, {k: ck.get(k) for k in diff}),
                key='%s|%s|call|%s' % (rule, m, key[:60]))
    if any(mm.startswith('stone.backends.swift') or mm.startswith('stone.backends.obj_c')
           for mm in mods):
        vocab = set()
        for c_ in pm.classes.values():
            vocab.update(c_.methods)
            vocab.update(c_.attrs)
        rt, ct = ref.get('templates', {}), cur.get('templates', {})
        for fn, rnames in sorted(rt.items()):
            cnames = ct.get(fn)
            if cnames is None:
                continue
            n += 1
            pr = None
            if len(rnames) == len(cnames) and rnames != cnames:
                pos = [i for i, (a, b) in enumerate(zip(rnames, cnames)) if a != b]
                if 1 <= len(pos) <= 2 and sorted(rnames) != sorted(cnames):
                    pr = ', '.join('.%s -> .%s' % (rnames[i], cnames[i]) for i in pos)
            ctx.check(rule, pr is None, 'template %s reads the attributes it read on the confirmed '
                                        'tree' % fn, 'stone/backends/swift_rsrc/' + fn,
                      msg='template %s: attribute substituted (%s): the generated code is built '
                          'from another part of the description' % (fn, pr),
                      key='%s|template|%s' % (rule, fn))
    for q, c in sorted(cur['classes'].items()):
        cls = pm.classes[q]
        if cls.module.name not in mods:
            continue
        r = ref['classes'].get(q)
        if r is None:
            continue
        where = '%s:%d' % (cls.module.relpath, cls.node.lineno)
        n += 1
        ctx.check(rule, r['bases'] == c['bases'], '%s: base classes as confirmed' % q, where,
                  msg='%s: base classes changed %s -> %s: isinstance / except matching and '
                      'method resolution change for every user' % (q, r['bases'], c['bases']),
                  key='%s|%s|bases' % (rule, q))
        rs = {s.split('=')[0] for s in r['specials']}
        cs = {s.split('=')[0] for s in c['specials']}
        diff = sorted(rs ^ cs)
        ctx.check(rule, not diff, '%s: operator methods as confirmed' % q, where,
                  msg='%s: special method(s) %s %s: the corresponding operator changes meaning '
                      'at every use of the class (sets, dict keys, `in`, comparisons, copies)' % (
                          q, diff, 'added' if set(diff) <= cs else 'removed'
                          if set(diff) <= rs else 'changed'),
                  key='%s|%s|specials' % (rule, q))
        for name, rc in sorted(r['constants'].items()):
            cc = c['constants'].get(name)
            if cc is None:
                continue
            n += 1
            pr = _const_problem('%s.%s' % (q.replace('stone.', ''), name), rc, cc)
            ctx.check(rule, pr is None, '%s.%s as confirmed' % (q.replace('stone.', ''), name),
                      where, msg=pr or '', key='%s|%s|const|%s' % (rule, q, name))
    for q, c in sorted(cur['functions'].items()):
        f = pm.functions[q]
        if f.module.name not in mods:
            continue
        r = ref['functions'].get(q)
        if r is None:
            continue
        n += 1
        added = [d for d in c['decorators'] if d not in r['decorators']]
        removed = [d for d in r['decorators'] if d not in c['decorators']]
        pr = None
        for d in added:
            if d in CACHING:
                why = _cache_problem(f)
                if why:
                    pr = 'caching decorator @%s added: %s' % (d, why)
        for d in added + removed:
            if d in KIND_DECOS - {'abstractmethod'}:
                pr = '@%s %s: the name is no longer used the same way by its callers' % (
                    d, 'added' if d in added else 'removed')
        ctx.check(rule, pr is None, '%s: decorators as confirmed' % f.short, f.loc,
                  msg='%s: %s' % (f.short, pr), key='%s|%s|decorator' % (rule, q))
        for p, rd in sorted(r['defaults'].items()):
            cd = c['defaults'].get(p)
            if cd is None or cd == rd:
                continue
            om = _omitting_call(pm, f, p)
            if om is False:
                continue        # every call passes it explicitly
            ctx.check(rule, False, '%s: default of %s' % (f.short, p), f.loc,
                      msg='%s: the default of parameter %s changed %s -> %s and %s' % (
                          f.short, p, rd, cd, 'a call in the repository relies on it'
                          if om else 'the function is called from outside the repository'),
                      key='%s|%s|default|%s' % (rule, q, p))
    ctx.extra['%s_items' % rule] = n
    ctx.floor(rule, n, 1, 'interface items compared with the reference')
