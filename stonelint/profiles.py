"""Constraint profiles of checker functions (analysis A5).

For a function that rejects values by raising, extract from the controlling
tests of each raise a normalised list of reject constraints:
    ('cmp', quantity, op, bound)   quantity in {'val','len'}, op in < > <= >=,
                                   bound = attribute / name the value is compared with
    ('type', (class names...))     rejected when not an instance
    ('nonfinite', fn)              rejected when math.isnan/isinf(val)
    ('pattern', method)            rejected when not pattern_re.<method>(val)
    ('other', text)
"""
import ast

from .model import dotted, own_nodes, unparse
from .pathcond import decompose

NEG = {'<': '>=', '>': '<=', '<=': '>', '>=': '<'}
FLIP = {'<': '>', '>': '<', '<=': '>=', '>=': '<='}
OPS = {ast.Lt: '<', ast.Gt: '>', ast.LtE: '<=', ast.GtE: '>='}


def _quantity(e, value_names):
    if isinstance(e, ast.Name) and e.id in value_names:
        return 'val'
    if isinstance(e, ast.Call) and isinstance(e.func, ast.Name) and e.func.id == 'len' and \
            len(e.args) == 1 and isinstance(e.args[0], ast.Name) and e.args[0].id in value_names:
        return 'len'
    if isinstance(e, ast.Attribute) and isinstance(e.value, ast.Name) and \
            e.value.id in value_names:
        return 'val.' + e.attr
    return None


def _bound(e):
    if isinstance(e, ast.Attribute):
        return e.attr
    if isinstance(e, ast.Name):
        return e.id
    if isinstance(e, ast.Constant):
        return repr(e.value)
    return unparse(e)


def normalise_atom(e, pol, value_names):
    """List of constraints that, each alone, reject (atom true => reject)."""
    if isinstance(e, ast.Compare):
        ops = [OPS.get(type(o)) for o in e.ops]
        terms = [e.left] + list(e.comparators)
        if all(ops):
            if len(ops) == 1:
                a, b = terms
                qa, qb = _quantity(a, value_names), _quantity(b, value_names)
                op = ops[0]
                if qa and not qb:
                    q, bound = qa, _bound(b)
                elif qb and not qa:
                    q, bound, op = qb, _bound(a), FLIP[op]
                else:
                    return [('other', unparse(e))]
                if not pol:
                    op = NEG[op]
                return [('cmp', q, op, bound)]
            if len(ops) == 2 and not pol:
                # not (a op1 v op2 b): reject when v NEG-FLIP(op1) a, or v NEG(op2) b
                a, v, b = terms
                q = _quantity(v, value_names)
                if q:
                    return [('cmp', q, NEG[FLIP[ops[0]]], _bound(a)),
                            ('cmp', q, NEG[ops[1]], _bound(b))]
            if len(ops) == 2 and pol:
                return [('accept-range', unparse(e))]
        if len(e.ops) == 1 and isinstance(e.ops[0], (ast.Is, ast.IsNot)):
            other = e.comparators[0]
            if isinstance(other, ast.Constant) and other.value is None:
                isnot = isinstance(e.ops[0], ast.IsNot)
                present = (isnot == pol)
                q = _quantity(e.left, value_names)
                if q:
                    return [('null', q, 'not-none' if present else 'none')]
                return [('presence', _bound(e.left), present)]
    if isinstance(e, ast.Call):
        d = dotted(e.func)
        if d == 'isinstance' and len(e.args) == 2 and _quantity(e.args[0], value_names):
            c = e.args[1]
            names = tuple(sorted(dotted(x) or unparse(x)
                                 for x in (c.elts if isinstance(c, ast.Tuple) else [c])))
            return [('type' if not pol else 'is-type', _quantity(e.args[0], value_names), names)]
        if d in ('math.isnan', 'math.isinf') and pol:
            return [('nonfinite', d)]
        if isinstance(e.func, ast.Attribute) and e.func.attr in ('match', 'fullmatch', 'search') \
                and e.args and _quantity(e.args[0], value_names):
            return [('pattern' if not pol else 'pattern-ok', e.func.attr,
                     _bound(e.func.value))]
    if isinstance(e, (ast.Attribute, ast.Name)):
        return [('presence', _bound(e), pol)]
    return [('other', ('' if pol else 'not ') + unparse(e))]


def controlling_test(node):
    """(test_expr, polarity, if_node) of the innermost ``if`` that decides
    whether ``node`` runs, or None."""
    child, parent = node, getattr(node, '_parent', None)
    while parent is not None and not isinstance(parent, (ast.FunctionDef, ast.AsyncFunctionDef)):
        if isinstance(parent, ast.If):
            if child in parent.body:
                return parent.test, True, parent
            if child in parent.orelse:
                return parent.test, False, parent
        child, parent = parent, getattr(parent, '_parent', None)
    return None


def reject_profile(funcnode, value_names, is_reject=None):
    """[(constraints_of_trigger, raise_node)] for every raise in funcnode.
    constraints_of_trigger is the list of normalised atoms of the controlling
    test (presence guards included)."""
    out = []
    for n in own_nodes(funcnode):
        if not isinstance(n, ast.Raise):
            continue
        if is_reject is not None and not is_reject(n):
            continue
        ct = controlling_test(n)
        if ct is None:
            out.append(([('unconditional',)], n))
            continue
        test, pol, _ = ct
        cons = []
        for e, p in _alternatives(test, pol):
            cons.extend(normalise_atom(e, p, value_names))
        out.append((cons, n))
    return out


def _alternatives(test, pol):
    """Atoms of a trigger: conjunctions are split (all hold), and so are
    disjunctions (each alone triggers); the result is a bag of atoms."""
    out = []
    for e, p in decompose(test, pol):
        inner = e
        if isinstance(inner, ast.BoolOp) and (
                (isinstance(inner.op, ast.Or) and p) or (isinstance(inner.op, ast.And) and not p)):
            for v in inner.values:
                out.extend(_alternatives(v, p))
        else:
            out.append((e, p))
    return out


def cmp_constraints(profile):
    """Flatten to the set of ('cmp', q, op, bound) found in any trigger."""
    s = []
    for cons, n in profile:
        for c in cons:
            if c[0] == 'cmp':
                s.append((c, n))
    return s
