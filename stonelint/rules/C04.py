"""C04 -- encoding then decoding any valid value returns the same value.

Round-trip equality of values is not statically decidable; decided here is
that the decoder is the inverse of the encoder *by construction* (DESIGN
4/C04): same dispatch universe, inverse primitive pairs, identical member
partition (tag-only / flattened / nested), shared reflection tables, entry
points differing only by json.dumps/loads, equality comparing every field.
"""
import ast

from ..lattice import bv_family, class_test, reaching_classes
from ..model import call_name, dotted, own_nodes, unparse
from ..model import returns_text
from ..pathcond import conds_truth, path_info
from ..paths import enumerate_paths
from ._serial import BASE, DEC, ENC, ENCBASE, PYTYPES, SER, VAL, is_validation_error

PROP = 'C04'
EXPLANATION = (
    'Inverse-by-construction analysis of the JSON encoder (StoneSerializerBase.encode_sub, '
    'StoneToPythonPrimitiveSerializer.encode_*) and decoder (PythonPrimitiveToStoneDecoder.'
    'json_compat_obj_decode_helper, decode_*). R1: both dispatches cover the whole validator '
    'class family with no class reaching a raising default. R2: the primitives the encoder '
    'transforms (Void, Timestamp via strftime(format), Bytes via b64encode) are exactly those '
    'the decoder transforms back (None, strptime(same format attribute), b64decode), under the '
    'same msgpack guard. R3: encode_union and decode_union_dict partition member validators '
    '(after unwrapping Nullable, on every enumerated path) identically into tag-only / flattened '
    '/ nested-under-tag; nullable null members are tag-only on both sides; decode_nullable maps '
    'only null to None; Nullable.get_default is None. R4: encoder and decoder build the field '
    'list from _all_fields_ plus _all_<perm>_fields_ of the caller\'s permissions; the subtype '
    'tables _pytype_to_tag_and_subtype_/_tag_to_subtype_ are emitted from the one source '
    'get_all_subtypes_with_tags(). R5: json_encode/json_decode wrap the json_compat_obj pair with '
    'json.dumps/json.loads only. R6: Struct.__eq__ compares every name of _all_field_names_, '
    'Union.__eq__ tag and value; Attribute.__set__ treats only None on a nullable field as unset. '
    'Decides this structural part, not value equality.'
    ' R7/R8 (imported from C08-R2/R3 and C10-R5): a value can only round-trip if the generated validators accept every valid value (bounds inclusive, Nullable delegating, constructors carrying every parameter and the Nullable wrap) and every declared default is emitted (an unset defaulted field otherwise fails to encode).'
    ' RD (effect-condition drift, stonelint.effects): for the functions this property is anchored in (stonelint.ownership) the path formula of every raise / return / continue / break / assignment / call statement is compared with reference/effects.json by truth table over the leaf tests (so nested vs merged tests, guard clauses vs if/else ladders, De Morgan forms read alike); an effect lost on a path, or a control effect gained on one, is a violation; changed texts and re-spelled tests are not claimed.'
    " RE (expression drift, stonelint.exprdrift): the same functions' attribute names, variable reads, simple statements, calls and arithmetic/slice literals are compared with reference/expressions.json; a substituted attribute or variable, a dropped call or assignment, swapped arguments or a changed literal is a violation; any other edit is not claimed. RC (call-condition drift, stonelint.effects.run_calls): for every call of a repository or imported-library function in those functions, the path conditions of its occurrences are compared with reference/effects.json by truth table; an assignment under which the function used to make the call and now completes without it is a violation (tests on memo tables, emptiness of the iterated collection and earlier refusals excepted; re-spelled conditions are not claimed). MK (memo-key rule, stonelint.memo): a memo table or done-set the reference tree does not have must be keyed by every access path the skipped code reads, injectively and type-aware."
    ' RI (interface drift, stonelint.interface): constants and tables (folded values), compiled regular expressions (witness text), parameter defaults, special methods, base classes and caching decorators of the modules the property rests on are compared with reference/interface.json; only a concrete difference in what is computed is reported.'
    ' MU (mutation drift, stonelint.mutation): the functions the property rests on update in place only the caller-owned, class-level and module-level objects they updated on the confirmed tree, and have no new handler that swallows an exception (reference/mutations.json).')
ASSUMPTIONS = [
    'new-style JSON only (old_style and msgpack excluded, as in the property)',
    'class-test atoms on a local refer to its value after the last assignment on the path',
]


def _segment_classes(pm, fam, func, path, var, upto, universe):
    """Classes of local ``var`` at statement ``upto`` on ``path`` using only
    class-test atoms established after its last assignment."""
    val, atoms = path.atoms_after_last_assign(var, upto)
    cur = set(universe)
    for e, pol in atoms:
        s = class_test(pm, fam, func.module, e, var)
        if s is not None:
            cur &= (s if pol else fam.universe() - s)
    return val, frozenset(cur)


def classify_paths(pm, fam, func, var, sinks):
    """sinks: list of (label, predicate(stmt)).  For every enumerated path and
    every sink statement on it: classes of ``var`` at that point, using only
    class tests made after its last assignment."""
    out = {}
    U = fam.universe()
    for p in enumerate_paths(func.node):
        for s in p.stmts:
            for label, pred in sinks:
                if isinstance(s, ast.stmt) and pred(s):
                    val, cls = _segment_classes(pm, fam, func, p, var, s, U)
                    out.setdefault(label, set()).update(cls)
    return out


def union_partitions(pm):
    fam = bv_family(pm)
    eu = pm.func(ENC + '.encode_union')
    dud = pm.func(DEC + '.decode_union_dict')
    enc_part = classify_paths(pm, fam, eu, 'field_validator', [
        ('tag-only', lambda s: isinstance(s, ast.Return) and unparse(s.value) ==
         "{'.tag': value._tag}"),
        ('flattened', lambda s: isinstance(s, ast.Expr) and unparse(s.value) ==
         'd.update(encoded_val)'),
        ('nested', lambda s: isinstance(s, ast.Return) and 'OrderedDict' in unparse(s.value) and
         'encoded_val' in unparse(s.value)),
    ])
    dec_part = classify_paths(pm, fam, dud, 'val_data_type', [
        ('flattened', lambda s: isinstance(s, ast.Assign) and unparse(s.targets[0]) == 'raw_val'
         and unparse(s.value) == 'obj'),
        ('nested', lambda s: isinstance(s, ast.Assign) and unparse(s.targets[0]) == 'raw_val'
         and unparse(s.value) == 'obj[tag]'),
    ])
    return enc_part, dec_part


def run(pm, ctx):
    for r, t in (
            ('C04-R1', 'encoder and decoder dispatch cover the same validator universe, no '
                       'reachable raising default'),
            ('C04-R2', 'inverse primitive pairs on the same class sets and format attribute'),
            ('C04-R3', 'identical member partition in encode_union and decode_union_dict; null '
                       'handling symmetric'),
            ('C04-R4', 'shared reflection tables: field lists and subtype maps'),
            ('C04-R5', 'string entry points differ from object entry points only by json.dumps/'
                       'loads'),
            ('C04-R6', 'equality compares all fields / tag and value; only None unsets a nullable '
                       'field')):
        ctx.rule(r, t)
    fam = bv_family(pm)
    U = fam.universe()

    # ---------------- R1
    es = pm.func(ENCBASE + '.encode_sub')
    dh = pm.func(DEC + '.json_compat_obj_decode_helper')
    for f, subj in ((es, 'validator'), (dh, 'data_type')):
        raises = [n for n in own_nodes(f.node) if isinstance(n, ast.Raise)]
        for r in raises:
            cls = reaching_classes(pm, fam, f, r, subj)
            ctx.check('C04-R1', not cls, '%s: raising default unreachable for all %d validator '
                      'classes' % (f.short, len(U)), '%s:%d' % (f.module.relpath, r.lineno),
                      msg='validator classes %s reach the raising default of %s' % (
                          sorted(cls), f.short), key='C04-R1|%s|default' % f.qualname)
    # which encode_*/decode_* each class is sent to
    enc_map, dec_map = {}, {}
    for n in own_nodes(es.node):
        if isinstance(n, ast.Assign) and unparse(n.targets[0]) == 'encode_f' and \
                isinstance(n.value, ast.Attribute):
            for c in reaching_classes(pm, fam, es, n, 'validator'):
                enc_map.setdefault(c, set()).add(n.value.attr)
    for n in own_nodes(dh.node):
        if isinstance(n, ast.Return) and isinstance(n.value, ast.Call):
            for c in reaching_classes(pm, fam, dh, n, 'data_type'):
                dec_map.setdefault(c, set()).add(call_name(n.value))
    dec_map = {c: {m for m in ms if m != 'decode_union_old'} for c, ms in dec_map.items()}
    pair = {'encode_list': 'decode_list', 'encode_map': 'decode_map',
            'encode_nullable': 'decode_nullable', 'encode_primitive': 'make_stone_friendly',
            'encode_struct': 'decode_struct', 'encode_struct_tree': 'decode_struct_tree',
            'encode_union': 'decode_union'}
    for c in sorted(U):
        e, d = enc_map.get(c, set()), dec_map.get(c, set())
        ctx.check('C04-R1', len(e) == 1 and len(d) == 1 and pair.get(next(iter(e))) == next(iter(d)),
                  'bv.%s: %s <-> %s' % (c, sorted(e), sorted(d)), es.loc,
                  msg='bv.%s is encoded by %s but decoded by %s' % (c, sorted(e), sorted(d)),
                  key='C04-R1|%s|pair' % c)
    # validation precedes encoding in encode_sub
    body = es.node.body
    calls = [(i, unparse(s)) for i, s in enumerate(body)]
    vi = [i for i, t in calls if t.startswith('validate_f(value)')]
    ri = [i for i, t in calls if t.startswith('return encode_f(validator, value)')]
    ctx.check('C04-R1', len(vi) == 1 and len(ri) == 1 and vi[0] < ri[0],
              'encode_sub validates then encodes with the selected pair', es.loc,
              msg='encode_sub no longer validates before encoding',
              key='C04-R1|%s|validate-first' % es.qualname)

    # ---------------- R2
    ep = pm.func(ENC + '.encode_primitive')
    msf = pm.func(DEC + '.make_stone_friendly')
    enc_t, dec_t = {}, {}
    pi = path_info(ep.node)
    for n in own_nodes(ep.node):
        if isinstance(n, ast.Return) and n.value is not None:
            cls = reaching_classes(pm, fam, ep, n, 'validator', universe=fam.below('Primitive'))
            t = unparse(n.value)
            msg = any(unparse(e) == 'self.for_msgpack' and pol for e, pol in pi.at(n))
            if msg:
                continue
            kind = 'identity' if t == 'value' else t
            for c in cls:
                enc_t.setdefault(c, set()).add(kind)
    pi = path_info(msf.node)
    for n in own_nodes(msf.node):
        tgt = None
        if isinstance(n, ast.Assign) and unparse(n.targets[0]) == 'ret':
            tgt = unparse(n.value)
        elif isinstance(n, ast.Return) and n.value is not None and unparse(n.value) != 'ret':
            tgt = unparse(n.value)
        if tgt is None:
            continue
        if any(unparse(e) == 'self.for_msgpack' and pol for e, pol in pi.at(n)):
            continue
        cls = reaching_classes(pm, fam, msf, n, 'data_type', universe=fam.below('Primitive'))
        kind = 'identity' if tgt == 'val' else tgt
        for c in cls:
            dec_t.setdefault(c, set()).add(kind)
    expect = {
        'Void': ({'None'}, {'None'}),
        'Timestamp': ({'_strftime(value, validator.format)'},
                      {'datetime.datetime.strptime(val, data_type.format)'}),
        'Bytes': ({"base64.b64encode(value).decode('ascii')"}, {'base64.b64decode(val)'}),
    }
    for c in sorted(fam.below('Primitive')):
        e, d = enc_t.get(c, set()), dec_t.get(c, set())
        if c in expect:
            good = (e, d) == expect[c]
        elif c in fam.below('Integer'):
            good = e == {'identity', 'int(value)'} and d == {'identity'}
        else:
            good = e == {'identity'} and d == {'identity'}
        ctx.check('C04-R2', good, 'bv.%s: encode %s / decode %s' % (c, sorted(e), sorted(d)),
                  ep.loc, msg='primitive bv.%s is encoded as %s but decoded as %s: not an inverse '
                              'pair' % (c, sorted(e), sorted(d)), key='C04-R2|%s' % c)
    # the bool-as-int normalisation applies only to bools
    pi = path_info(ep.node)
    for n in own_nodes(ep.node):
        if isinstance(n, ast.Return) and n.value is not None and unparse(n.value) == 'int(value)':
            ctx.check('C04-R2', any(pol and unparse(e) == 'isinstance(value, bool)'
                                    for e, pol in pi.at(n)),
                      'int() normalisation only for bool values of Integer validators', ep.loc,
                      msg='int(value) is applied to non-bool values',
                      key='C04-R2|%s|bool' % ep.qualname)
    sf = pm.func(SER + '._strftime')
    ctx.check('C04-R2', returns_text(sf.node) == 'dt.strftime(fmt)', '_strftime is dt.strftime(fmt)', sf.loc,
              msg='_strftime no longer formats with the given format', key='C04-R2|_strftime')

    # ---------------- R3
    eu = pm.func(ENC + '.encode_union')
    dud = pm.func(DEC + '.decode_union_dict')
    inner = fam.universe() - {'Nullable'}

    enc_part, dec_part = union_partitions(pm)
    # on the encoder side the flatten/nested decision must be taken on the
    # unwrapped validator: at those sinks Nullable must be excluded because the
    # last assignment was the unwrap, not because of a test
    want_flat = {'Struct'}
    want_nested = set(inner) - {'Struct', 'Void'}
    ctx.check('C04-R3', enc_part.get('flattened') == want_flat,
              'encode_union flattens exactly %s' % sorted(want_flat), eu.loc,
              msg='encode_union flattens member validator classes %s (decoder expects %s)' % (
                  sorted(enc_part.get('flattened', [])), sorted(want_flat)),
              key='C04-R3|%s|flattened' % eu.qualname)
    got = set(enc_part.get('nested', []))
    ctx.check('C04-R3', got - {'Nullable'} == want_nested | {'Void'} - {'Void'} or
              got - {'Nullable', 'Void'} == want_nested,
              'encode_union nests exactly the other non-void members', eu.loc,
              msg='encode_union nests member validator classes %s (expected %s)' % (
                  sorted(got), sorted(want_nested)), key='C04-R3|%s|nested' % eu.qualname)
    ctx.check('C04-R3', dec_part.get('flattened') == want_flat,
              'decode_union_dict reads flattened members exactly for %s' % sorted(want_flat),
              dud.loc, msg='decode_union_dict reads the whole object for %s' % sorted(
                  dec_part.get('flattened', [])), key='C04-R3|%s|flattened' % dud.qualname)
    ctx.check('C04-R3', dec_part.get('nested') == want_nested,
              'decode_union_dict reads obj[tag] exactly for the other non-void members', dud.loc,
              msg='decode_union_dict reads obj[tag] for %s (expected %s)' % (
                  sorted(dec_part.get('nested', [])), sorted(want_nested)),
              key='C04-R3|%s|nested' % dud.qualname)
    # encoder: unwrap happens before the flatten decision on every path
    bad = 0
    n_sinks = 0
    for p in enumerate_paths(eu.node):
        for s in p.stmts:
            if isinstance(s, ast.Expr) and unparse(s.value) == 'd.update(encoded_val)' or \
                    (isinstance(s, ast.Return) and 'OrderedDict' in unparse(s.value)):
                n_sinks += 1
                # atoms mentioning field_validator class tests before the last
                # assignment on this path other than the Nullable test => the
                # decision used the wrapped validator
                val, after = p.atoms_after_last_assign('field_validator', s)
                all_tests = [(e, pol) for e, pol in p.atoms
                             if class_test(pm, fam, eu.module, e, 'field_validator') is not None]
                after_tests = [(e, pol) for e, pol in after
                               if class_test(pm, fam, eu.module, e, 'field_validator') is not None]
                struct_tests = [e for e, pol in all_tests
                                if 'Struct' in unparse(e)]
                struct_after = [e for e, pol in after_tests if 'Struct' in unparse(e)]
                nullable_path = any(pol and 'bv.Nullable' in unparse(e) and
                                    'field_validator' in unparse(e) for e, pol in p.atoms
                                    if 'is_none' not in unparse(e))
                if nullable_path and val is not None and \
                        unparse(val) == 'field_validator.validator' and \
                        len(struct_after) != len(struct_tests):
                    bad += 1
                if nullable_path and (val is None or
                                      unparse(val) != 'field_validator.validator'):
                    bad += 1
    ctx.check('C04-R3', bad == 0 and n_sinks >= 2,
              'encode_union decides flatten/nest on the validator unwrapped from Nullable '
              '(%d sink visits)' % n_sinks, eu.loc,
              msg='encode_union tests the member kind before unwrapping Nullable on some path',
              key='C04-R3|%s|unwrap-first' % eu.qualname)
    # is_none definition: Void, or Nullable with a None value
    isn = [n for n in own_nodes(eu.node) if isinstance(n, ast.Assign) and
           unparse(n.targets[0]) == 'is_none']
    good = False
    if len(isn) == 1:
        v = isn[0].value

        def k(e):
            t = unparse(e)
            if t == 'isinstance(field_validator, bv.Void)':
                return 'void'
            if t == 'isinstance(field_validator, bv.Nullable)':
                return 'nullable'
            if t == 'value._value is None':
                return 'null'
            return ('other', t)
        from ..pathcond import truth_table
        keys, table = truth_table(v, k)
        good = keys == ['null', 'nullable', 'void'] and all(
            val == (env[2] or (env[1] and env[0])) for env, val in table.items())
    ctx.check('C04-R3', good, 'tag-only encoding iff Void member or null value of a Nullable member',
              eu.loc, msg='is_none no longer means Void or (Nullable and value None)',
              key='C04-R3|%s|is_none' % eu.qualname)
    # decoder: tag-only accepted: Void -> None; nullable and key missing -> None; struct nullable
    pi = path_info(dud.node)
    vn = [n for n in own_nodes(dud.node) if isinstance(n, ast.Assign) and
          unparse(n.targets[0]) == 'val' and unparse(n.value) == 'None']
    conds = []
    for n in vn:
        conds.append({(unparse(e), pol) for e, pol in pi.at(n)})
    want1 = any(('isinstance(val_data_type, bv.Void)', True) in c for c in conds)
    want2 = any(('nullable', True) in c and ('tag in obj', False) in c for c in conds)
    want3 = any(('nullable', True) in c and ('len(obj) == 1', True) in c for c in conds)
    ctx.check('C04-R3', want1 and want2 and want3 and len(vn) == 3,
              'decode_union_dict yields None exactly for Void, nullable without payload key, '
              'nullable struct with only .tag', dud.loc,
              msg='tag-only forms accepted by decode_union_dict changed',
              key='C04-R3|%s|tag-only' % dud.qualname)
    # decode_nullable / encode_nullable symmetric
    dn = pm.func(DEC + '.decode_nullable')
    en = pm.func(ENC + '.encode_nullable')
    for f, var, callee in ((dn, 'obj', 'json_compat_obj_decode_helper'), (en, 'value', 'encode_sub')):
        pi = path_info(f.node)
        rets = [n for n in own_nodes(f.node) if isinstance(n, ast.Return)]
        none_ret = [r for r in rets if unparse(r.value) == 'None']
        del_ret = [r for r in rets if isinstance(r.value, ast.Call) and
                   call_name(r.value) == callee]

        def norm_g(r):
            out = set()
            for e, pol in pi.at(r):
                t = unparse(e)
                if t == '%s is not None' % var:
                    out.add(('null', not pol))
                elif t == '%s is None' % var:
                    out.add(('null', pol))
                else:
                    out.add((t, pol))
            return out
        ctx.check('C04-R3', len(none_ret) == 1 and len(del_ret) == 1 and
                  norm_g(none_ret[0]) == {('null', True)} and
                  norm_g(del_ret[0]) == {('null', False)} and
                  '.validator' in unparse(del_ret[0].value),
                  '%s: None iff the value is None, else delegate to the wrapped validator'
                  % f.short, f.loc,
                  msg='%s no longer maps exactly null to None' % f.short,
                  key='C04-R3|%s|null' % f.qualname)
    ng = pm.func(VAL + '.Nullable.get_default')
    ng_rets = [r for r in own_nodes(ng.node) if isinstance(r, ast.Return) and r.value is not None
               and not (isinstance(r.value, ast.Constant) and r.value.value is None)]
    ctx.check('C04-R3', not ng_rets,
              'Nullable.get_default is None (an absent nullable field decodes as unset)', ng.loc,
              msg='Nullable.get_default no longer returns None: absent nullable fields decode to '
                  'a value the encoder never omitted', key='C04-R3|%s|default' % ng.qualname)

    # ---------------- R4
    es_ = pm.func(ENC + '.encode_struct')
    ds_ = pm.func(DEC + '.decode_struct')
    for f in (es_, ds_):
        src = [unparse(n) for n in own_nodes(f.node)]
        base = any(isinstance(n, ast.Assign) and unparse(n.targets[0]) == 'all_fields' and
                   unparse(n.value).endswith('.definition._all_fields_')
                   for n in own_nodes(f.node))
        loop = [n for n in own_nodes(f.node) if isinstance(n, ast.For) and
                unparse(n.iter) == 'self.caller_permissions.permissions']
        ext = False
        for lp in loop:
            name_var = None
            for st in lp.body:
                if isinstance(st, ast.Assign) and isinstance(st.value, ast.Call) and \
                        isinstance(st.value.func, ast.Attribute) and \
                        st.value.func.attr == 'format' and \
                        unparse(st.value.func.value) == "'_all_{}_fields_'" and \
                        [unparse(a) for a in st.value.args] == [unparse(lp.target)]:
                    name_var = unparse(st.targets[0])
                if isinstance(st, ast.Assign) and unparse(st.targets[0]) == 'all_fields' and \
                        isinstance(st.value, ast.BinOp) and isinstance(st.value.op, ast.Add) and \
                        unparse(st.value.left) == 'all_fields' and \
                        isinstance(st.value.right, ast.Call) and \
                        call_name(st.value.right) == 'getattr' and \
                        len(st.value.right.args) == 3 and name_var is not None and \
                        unparse(st.value.right.args[1]) == name_var and \
                        unparse(st.value.right.args[0]).endswith('.definition') and \
                        unparse(st.value.right.args[2]) == '[]':
                    ext = True
        ctx.check('C04-R4', base and ext,
                  '%s builds its field list from _all_fields_ + _all_<perm>_fields_' % f.short,
                  f.loc, msg='%s no longer builds its field list from the shared reflection '
                             'tables' % f.short, key='C04-R4|%s|fields' % f.qualname)
    est = pm.func(ENC + '.encode_struct_tree')
    dst = pm.func(DEC + '.determine_struct_tree_subtype')
    ctx.check('C04-R4', any(isinstance(n, ast.Attribute) and n.attr == '_pytype_to_tag_and_subtype_'
                            for n in own_nodes(est.node)) and
              any(isinstance(n, ast.Attribute) and n.attr == '_tag_to_subtype_'
                  for n in own_nodes(dst.node)),
              'subtype tables read by encoder/decoder are the generated pair', est.loc,
              msg='encoder/decoder no longer read the generated subtype tables',
              key='C04-R4|subtype-tables|read')
    gm = pm.func(PYTYPES + '.PythonTypesBackend._generate_enumerated_subtypes_tag_mapping')
    from ..model import element_sites
    loops = element_sites(gm.node)
    srcs = [unparse(l['iter']) for l in loops]
    emitted = [unparse(k.value) for c in own_nodes(gm.node) if isinstance(c, ast.Call)
               for k in c.keywords if k.arg == 'before']
    ctx.check('C04-R4', len(loops) == 2 and set(srcs) == {'data_type.get_all_subtypes_with_tags()'}
              and any('_tag_to_subtype_' in e for e in emitted)
              and any('_pytype_to_tag_and_subtype_' in e for e in emitted),
              'both subtype tables are emitted from get_all_subtypes_with_tags()', gm.loc,
              msg='the two subtype tables are no longer emitted from the same source',
              key='C04-R4|%s|source' % gm.qualname)
    # encode_struct_tree: tag first, leaf struct fields merged; decode picks the same key
    src = ' ; '.join(unparse(s) for s in est.node.body)
    ctx.check('C04-R4', "d['.tag'] = tags[0]" in src and
              'd.update(self.encode_struct(subtype, value))' in src,
              'encode_struct_tree writes .tag then the leaf struct fields', est.loc,
              msg='encode_struct_tree no longer writes .tag + leaf fields',
              key='C04-R4|%s|shape' % est.qualname)
    ctx.check('C04-R4', "full_tags_tuple = (obj['.tag'],)" in
              ' ; '.join(unparse(s) for s in dst.node.body),
              'determine_struct_tree_subtype looks the .tag up as a 1-tuple', dst.loc,
              msg='subtype lookup key changed', key='C04-R4|%s|key' % dst.qualname)

    # ---------------- R5
    je, jd = pm.func(SER + '.json_encode'), pm.func(SER + '.json_decode')
    jce, jcd = pm.func(SER + '.json_compat_obj_encode'), pm.func(SER + '.json_compat_obj_decode')
    sj = pm.func(SER + '.StoneToJsonSerializer.encode')
    ctx.check('C04-R5', returns_text(sj.node) ==
              'json.dumps(super().encode(validator, value))',
              'StoneToJsonSerializer.encode = json.dumps(primitive encoding)', sj.loc,
              msg='json encoding is no longer json.dumps of the primitive encoding',
              key='C04-R5|%s' % sj.qualname)
    def ctor_args(f, cls):
        for n in own_nodes(f.node):
            if isinstance(n, ast.Call) and call_name(n) == cls:
                return [unparse(a) for a in n.args]
        return None
    a1, a2 = ctor_args(je, 'StoneToJsonSerializer'), ctor_args(jce, 'StoneToPythonPrimitiveSerializer')
    ctx.check('C04-R5', a1 is not None and a1 == a2 and
              a1 == ['caller_permissions', 'alias_validators', 'for_msgpack', 'old_style',
                     'should_redact'],
              'both encode entry points configure the serializer identically', je.loc,
              msg='json_encode and json_compat_obj_encode configure the serializer differently: '
                  '%s vs %s' % (a1, a2), key='C04-R5|encode-args')
    call = [n for n in own_nodes(jd.node) if isinstance(n, ast.Call) and
            call_name(n) == 'json_compat_obj_decode']
    good = len(call) == 1 and [unparse(a) for a in call[0].args] == ['data_type', 'deserialized_obj'] \
        and {k.arg: unparse(k.value) for k in call[0].keywords} == {
            'caller_permissions': 'caller_permissions', 'alias_validators': 'alias_validators',
            'strict': 'strict', 'old_style': 'old_style'}
    ctx.check('C04-R5', good and any(isinstance(n, ast.Assign) and unparse(n.value) ==
                                     'json.loads(serialized_obj)' for n in own_nodes(jd.node)),
              'json_decode = json_compat_obj_decode(json.loads(text)) with all options forwarded',
              jd.loc, msg='json_decode no longer forwards its options unchanged',
              key='C04-R5|%s' % jd.qualname)
    a3 = ctor_args(jcd, 'PythonPrimitiveToStoneDecoder')
    ctx.check('C04-R5', a3 == ['caller_permissions', 'alias_validators', 'for_msgpack', 'old_style',
                               'strict'],
              'json_compat_obj_decode configures the decoder from its arguments', jcd.loc,
              msg='decoder constructed with %s' % a3, key='C04-R5|decode-args')
    di = pm.func(DEC + '.__init__')
    st = {unparse(n.targets[0]): unparse(n.value) for n in own_nodes(di.node)
          if isinstance(n, ast.Assign)}
    ctx.check('C04-R5', st.get('self.strict') == 'strict' and st.get('self._old_style') ==
              'old_style' and st.get('self._for_msgpack') == 'for_msgpack' and
              st.get('self.alias_validators') == 'alias_validators',
              'decoder stores its options under the names it reads', di.loc,
              msg='decoder option storage changed: %s' % st, key='C04-R5|%s' % di.qualname)

    # ---------------- R6
    seq = pm.func(BASE + '.Struct.__eq__')
    loops = [n for n in own_nodes(seq.node) if isinstance(n, ast.For)]
    good = len(loops) == 1 and unparse(loops[0].iter) == 'self._all_field_names_' and \
        any(isinstance(n, ast.Compare) and isinstance(n.ops[0], ast.NotEq) and
            'getattr(self, field_name)' in unparse(n) and 'getattr(other, field_name)' in unparse(n)
            for n in own_nodes(loops[0])) and \
        any(isinstance(n, ast.Return) and unparse(n.value) == 'False' for n in own_nodes(loops[0]))
    ctx.check('C04-R6', good, 'Struct.__eq__ compares every field of _all_field_names_', seq.loc,
              msg='Struct.__eq__ no longer compares every field', key='C04-R6|%s' % seq.qualname)
    ueq = pm.func(BASE + '.Union.__eq__')
    t = unparse(ueq.node.body[-1]) if ueq.node.body else ''
    ctx.check('C04-R6', 'self._tag == other._tag' in t and 'self._value == other._value' in t,
              'Union.__eq__ compares tag and value', ueq.loc,
              msg='Union.__eq__ no longer compares tag and value', key='C04-R6|%s' % ueq.qualname)
    aset = pm.func(BASE + '.Attribute.__set__')
    pi = path_info(aset.node)
    clears = [n for n in own_nodes(aset.node) if isinstance(n, ast.Call) and
              call_name(n) == 'setattr' and len(n.args) == 3 and unparse(n.args[2]) == 'NOT_SET']
    good = len(clears) == 1 and {(unparse(e), pol) for e, pol in pi.at(clears[0])} == \
        {('self.nullable', True), ('value is None', True)}
    ctx.check('C04-R6', good, 'Attribute.__set__ unsets a field only for None on a nullable field',
              aset.loc, msg='Attribute.__set__ treats other values than None as "unset" (a falsy '
                            'value would be dropped from the encoding)',
              key='C04-R6|%s|unset' % aset.qualname)
    # encode_struct omits exactly unset fields
    pi = path_info(es_.node)
    st = [n for n in own_nodes(es_.node) if isinstance(n, ast.Assign) and
          unparse(n.targets[0]) == 'd[field_name]']
    good = len(st) == 1 and {(unparse(e), pol) for e, pol in pi.at(st[0])} == {
        ('field_value is not None', True), ('getattr(value, value_key) is not bb.NOT_SET', True)}
    ctx.check('C04-R6', good, 'encode_struct writes a key exactly for set, non-None fields',
              es_.loc, msg='encode_struct writes keys under a different condition',
              key='C04-R6|%s|omit' % es_.qualname)
    ctx.import_rules(pm, 'C08', {'C08-R2', 'C08-R3'}, 'C04-R7',
                     'validators accept every declared-valid value and are generated with every '
                     'bound and the Nullable wrap (shared with C08-R2/R3)')
    ctx.import_rules(pm, 'C10', {'C10-R5'}, 'C04-R8',
                     'every declared default is emitted on the generated attribute (shared with '
                     'C10-R5)')

    validators_return_their_argument(pm, ctx)

    ctx.import_rules(pm, 'C02', {'C02-R5'}, 'C04-R10',
                     'required / optional field listings of the IR are complete, parent first, with '
                     'complementary predicates (shared with C02-R5)')
    ctx.import_rules(pm, 'C02', {'C02-R12'}, 'C04-R11',
                     'the unwrap helpers of the IR peel exactly the wrappers their names say '
                     '(shared with C02-R12)')
    ctx.import_rules(pm, 'C02', {'C02-R4'}, 'C04-R13',
                     'aliases and classes are linearised target / parent first: the generated module '
                     'a value round-trips through imports without a NameError (shared with C02-R4)')
    ctx.import_rules(pm, 'C05', {'C05-R4'}, 'C04-R12',
                     'the reflection tables the coder reads hold every inherited field name (shared with C05-R4)')
    from ..effects import run_decisions
    from ..ownership import OWN
    run_decisions(pm, ctx, 'C04-RD', OWN['C04'])
    from .. import exprdrift
    exprdrift.run(pm, ctx, 'C04-RE', OWN['C04'])
    from ..effects import run_calls
    run_calls(pm, ctx, 'C04-RC', OWN['C04'])
    from .. import memo
    memo.run(pm, ctx, 'C04-MK', OWN['C04'])
    from .. import interface
    interface.run(pm, ctx, 'C04-RI', OWN['C04'])
    from .. import mutation
    mutation.run(pm, ctx, 'C04-MU', OWN['C04'])

    # the decoder's tag table and the encoder's class table spell the subtype tags alike:
    # both take the tag of get_all_subtypes_with_tags() as it is
    gm = pm.func('stone.backends.python_types.PythonTypesBackend.'
                 '_generate_enumerated_subtypes_tag_mapping')
    loops = [l for l in element_sites(gm.node)
             if isinstance(l['iter'], ast.Call) and
             call_name(l['iter']) == 'get_all_subtypes_with_tags' and
             isinstance(l['target'], ast.Tuple) and isinstance(l['target'].elts[0], ast.Name)]
    bare = []
    for l in loops:
        t = l['target'].elts[0].id
        fmts = [c for c in ast.walk(l['elt']) if isinstance(c, ast.Call) and
                isinstance(c.func, ast.Attribute) and c.func.attr == 'format']
        uses = [x for c in fmts for a in c.args for x in ast.walk(a)
                if isinstance(x, ast.Name) and x.id == t]
        bare.append(bool(uses) and all(any(a is u for c in fmts for a in c.args) for u in uses))
    ctx.check('C04-R4', len(loops) == 2 and all(bare),
              'both subtype tables (_tag_to_subtype_, _pytype_to_tag_and_subtype_) are emitted from '
              'get_all_subtypes_with_tags() with the tag unchanged', gm.loc,
              msg='the two subtype tables no longer spell the tags alike (%s): the encoder emits a '
                  '.tag the decoder does not know' % bare,
              key='C04-R4|%s|tag-spelling' % gm.qualname)


# coercions the wire format documents: a Float accepts an integer and stores the float
RETURN_COERCIONS = {('Real', 'float(val)'): 'json_serializer.rst: integers are accepted for floats'}


def validators_return_their_argument(pm, ctx):
    """C04-R9: what a primitive validator returns is the value it was given
    (the decoded value equals the value that was encoded only if validate is
    the identity on accepted values; the Float coercion is the documented
    exception)."""
    from ..pathcond import terminates
    ctx.rule('C04-R9', 'a primitive validator returns the value it was given: no rebinding of the '
                       'argument reaches a return (documented coercions excepted)')
    VALM = 'stone.backends.python_rsrc.stone_validators'
    n = 0
    for cname in ('Boolean', 'Integer', 'Real', 'String', 'Bytes', 'Timestamp', 'Void'):
        c = pm.classes.get('%s.%s' % (VALM, cname))
        f = c.methods.get('validate') if c is not None else None
        if f is None:
            continue
        n += 1
        arg = f.params[1]
        bad = []
        binds = [x for x in own_nodes(f.node)
                 if isinstance(x, (ast.Assign, ast.AugAssign, ast.AnnAssign)) and any(
                     isinstance(t, ast.Name) and t.id == arg
                     for tt in (x.targets if isinstance(x, ast.Assign) else [x.target])
                     for t in ast.walk(tt))]
        for b in binds:
            # does the binding reach a return?  not if a block around it ends in raise
            reaches = True
            child, par = b, getattr(b, '_parent', None)
            while par is not None and par is not f.node:
                for field in ('body', 'orelse', 'finalbody'):
                    blk = getattr(par, field, None)
                    if isinstance(blk, list) and child in blk:
                        rest = blk[blk.index(child) + 1:]
                        if terminates(rest) and not any(isinstance(r, ast.Return)
                                                        for s_ in rest for r in ast.walk(s_)):
                            reaches = False
                child, par = par, getattr(par, '_parent', None)
            if not reaches:
                continue
            val = unparse(b.value) if getattr(b, 'value', None) is not None else '?'
            if (cname, val) in RETURN_COERCIONS:
                continue
            bad.append((b.lineno, val))
        rets = [r for r in own_nodes(f.node) if isinstance(r, ast.Return)]
        other = [unparse(r.value) for r in rets if r.value is not None and
                 unparse(r.value) != arg]
        ctx.check('C04-R9', not bad and not other,
                  'bv.%s.validate returns its argument' % cname, f.loc,
                  msg='bv.%s.validate no longer returns the value it was given (%s): what is '
                      'stored or encoded differs from what the caller passed, so '
                      'decode(encode(v)) != v' % (
                          cname, ', '.join(['%s rebound to %s at line %d' % (arg, v, ln)
                                            for ln, v in bad] + ['returns %s' % o for o in other])),
                  key='C04-R9|%s' % f.qualname)
    ctx.floor('C04-R9', n, 6, 'primitive validators')
