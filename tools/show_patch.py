#!/venv/bin/python
"""Apply a patch to a scratch copy and print the violation messages of the given properties.
usage: show_patch.py <patch.diff> PROP [PROP ...]"""
import os, shutil, subprocess, sys
HERE = os.path.dirname(os.path.dirname(os.path.abspath(__file__)))
sys.path.insert(0, HERE)
from stonelint.selftest import make_copy
patch = sys.argv[1]
tmp = make_copy()
try:
    r = subprocess.run(['patch', '-p1', '-s', '-d', tmp, '-i', patch], capture_output=True, text=True)
    if r.returncode != 0:
        print('PATCH FAILED', r.stdout, r.stderr); sys.exit(3)
    for p in sys.argv[2:]:
        r = subprocess.run(['/venv/bin/python', os.path.join(HERE, 'check'), p, '--repo', tmp, '--no-write'], capture_output=True, text=True)
        show = False
        for l in r.stdout.splitlines():
            if l.startswith('VIOLATION') or 'ANALYSIS-ERROR' in l or l.strip().startswith(('key:', 'msg:', 'where:', 'rule:')) or 'violat' in l.lower() and 'tier=' not in l and 'violations=0' not in l:
                print(l[:600])
finally:
    shutil.rmtree(tmp, ignore_errors=True)
