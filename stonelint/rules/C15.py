"""C15 -- Python type stubs describe exactly what the generated modules define.

Structural part (DESIGN 4/C15): the stub emitters and the runtime emitters
agree per declaration kind (iteration source up to the containment all_fields
>= fields, filter, name formatter with flags, base class); the Stone -> PEP 484
type mapping is exhaustive and forwards its override table through every
recursion; every typing name emitted is registered for import.
"""
import ast
import re

from .. import totality
from ..dataflow import defs
from ..lattice import ir_family, reaching_classes
from ..model import call_name, own_nodes, unparse
from ..pathcond import path_info
from ._pynames import norm

PROP = 'C15'
ST = 'stone.backends.python_type_stubs.PythonTypeStubsBackend'
PT = 'stone.backends.python_types.PythonTypesBackend'
TM = 'stone.backends.python_type_mapping'
EXPLANATION = (
    'Sibling agreement between PythonTypeStubsBackend and PythonTypesBackend. R1: for each '
    'declaration kind (class statement and base class, constructor parameters, field '
    'attributes, void-tag attributes, is_*/get_*/creator helpers, <T>_validator, alias validator '
    'and class alias, route objects, annotation-type classes) both emitters are profiled as '
    '(iteration source, filter atoms, name formatter with flags) and the profiles must be equal '
    'up to the stated containment all_fields >= fields; both module generators run the same '
    'sequence of passes over the same linearisations. R2: map_stone_type_to_python_type has no '
    'IR class reaching its raising default, every override key is a class it consults the '
    'override table for, every recursive call (in the mapper and in the stub callbacks) forwards '
    'override_dict, and foreign user types are qualified with fmt_namespace. R3: every typing '
    'name appearing in a string the stub backend emits is registered with '
    '_register_typing_import in the same function or callback (datetime through '
    '_register_adhoc_import); the import placeholder is emitted once and filled once, after all '
    'declarations. Decides structure, not the correctness of individual annotations.'
    ' R4 (generator totality, stonelint.totality): python_type_stubs completes -- IR attribute reads defined for every reaching class; raises/asserts unreachable dispatch defaults or configuration conditions.'
    ' RD (effect-condition drift, stonelint.effects): for the functions this property is anchored in (stonelint.ownership) the path formula of every raise / return / continue / break / assignment / call statement is compared with reference/effects.json by truth table over the leaf tests (so nested vs merged tests, guard clauses vs if/else ladders, De Morgan forms read alike); an effect lost on a path, or a control effect gained on one, is a violation; changed texts and re-spelled tests are not claimed.'
    " RE (expression drift, stonelint.exprdrift): the same functions' attribute names, variable reads, simple statements, calls and arithmetic/slice literals are compared with reference/expressions.json; a substituted attribute or variable, a dropped call or assignment, swapped arguments or a changed literal is a violation; any other edit is not claimed. RC (call-condition drift, stonelint.effects.run_calls): for every call of a repository or imported-library function in those functions, the path conditions of its occurrences are compared with reference/effects.json by truth table; an assignment under which the function used to make the call and now completes without it is a violation (tests on memo tables, emptiness of the iterated collection and earlier refusals excepted; re-spelled conditions are not claimed). MK (memo-key rule, stonelint.memo): a memo table or done-set the reference tree does not have must be keyed by every access path the skipped code reads, injectively and type-aware."
    ' RI (interface drift, stonelint.interface): constants and tables (folded values), compiled regular expressions (witness text), parameter defaults, special methods, base classes and caching decorators of the modules the property rests on are compared with reference/interface.json; only a concrete difference in what is computed is reported.'
    ' MU (mutation drift, stonelint.mutation): the functions the property rests on update in place only the caller-owned, class-level and module-level objects they updated on the confirmed tree, and have no new handler that swallows an exception (reference/mutations.json).')
ASSUMPTIONS = ['typing names are recognised among: List Dict Optional Text Type Callable TypeVar '
               'Union Any Tuple Set']
TYPING = ('List', 'Dict', 'Optional', 'Text', 'Type', 'Callable', 'TypeVar', 'Any', 'Tuple', 'Set')


def profile(pm, f, emit_pred=None):
    """(iteration sources, filter atoms on the first emit in a loop, name
    formatter canonical forms) of an emitter function."""
    pi = path_info(f.node)
    loops = [unparse(l.iter) for l in own_nodes(f.node) if isinstance(l, ast.For)]
    filt = None
    for c in own_nodes(f.node):
        if isinstance(c, ast.Call) and call_name(c) in ('emit', 'append') and pi.loops_at(c):
            ats = sorted((unparse(e), pol) for e, pol in pi.at(c)
                         if 'void' in unparse(e) or 'nullable' in unparse(e))
            filt = ats
            break
    names = set()
    for c in own_nodes(f.node):
        if isinstance(c, ast.Call):
            n = norm(pm, f.module, c)
            if n is not None:
                names.add((n[0], n[1], n[2], n[3]))
    return loops, filt, names


TOTALITY_PRECONDITIONS = {
    ('backends.python_helpers.class_name_for_annotation_type',
     'assert isinstance(annotation_type, AnnotationType)'):
        'callers pass elements of namespace.annotation_types or the annotation_type of an '
        'annotation, which the IR constructs as AnnotationType instances only',
}

def run(pm, ctx):
    for r, t in (('C15-R1', 'stub and runtime emitters agree per declaration kind'),
                 ('C15-R2', 'type mapping exhaustive, overrides forwarded, foreign names '
                            'qualified'),
                 ('C15-R3', 'typing imports registered where the names are emitted')):
        ctx.rule(r, t)
    irf = ir_family(pm)

    # ---------------- R1
    pairs = [
        # (stub fn, runtime fn, loop source (stub, runtime), compare filter)
        ('_generate_union_class_is_set', '_generate_union_class_is_set', None, True),
        ('_generate_union_class_get_helpers', '_generate_union_class_get_helpers', None, True),
        ('_generate_union_class_variant_creators', '_generate_union_class_variant_creators',
         None, True),
        ('_generate_union_class_vars', '_generate_union_class_vars', None, True),
        ('_generate_struct_class_init', '_generate_struct_class_init', None, False),
    ]
    for sn, rn, _, cmpf in pairs:
        sf, rf = pm.func(ST + '.' + sn), pm.func(PT + '.' + rn)
        sl, sfil, snames = profile(pm, sf)
        rl, rfil, rnames = profile(pm, rf)

        def src(ls):
            return sorted({x.split('.', 1)[1] if '.' in x else x for x in ls
                           if 'fields' in x})[:1]
        same_src = src(sl) == src(rl) or (src(sl) == ['all_fields'] and src(rl) == ['fields'])
        ctx.check('C15-R1', same_src, '%s: stub iterates %s, runtime %s' % (sn, src(sl), src(rl)),
                  sf.loc, msg='%s: the stub iterates %s but the runtime emitter %s' % (
                      sn, src(sl), src(rl)), key='C15-R1|%s|source' % sn)
        if cmpf:
            ctx.check('C15-R1', sfil == rfil, '%s: same member filter %s' % (sn, sfil), sf.loc,
                      msg='%s: stub filters members by %s, runtime by %s' % (sn, sfil, rfil),
                      key='C15-R1|%s|filter' % sn)
        # name formatters applied to the member name
        sfm = {(b, r, v) for b, subj, r, v in snames if subj in ('field.name', 'f.name')
               and b != 'raw'}
        rfm = {(b, r, v) for b, subj, r, v in rnames if subj in ('field.name', 'f.name')
               and b != 'raw'}
        ctx.check('C15-R1', bool(sfm) and sfm <= rfm,
                  '%s: stub names members with formatters the runtime uses %s' % (sn, sorted(sfm)),
                  sf.loc, msg='%s: stub formats member names as %s, runtime as %s' % (
                      sn, sorted(sfm), sorted(rfm)), key='C15-R1|%s|names' % sn)
    # struct properties: stated containment
    sp, rp = pm.func(ST + '._generate_struct_class_properties'), \
        pm.func(PT + '._generate_struct_class_properties')
    sl = [unparse(l.iter) for l in own_nodes(sp.node) if isinstance(l, ast.For)]
    rl = [unparse(l.iter) for l in own_nodes(rp.node) if isinstance(l, ast.For)]
    ctx.check('C15-R1', 'struct.all_fields' in sl and rl == ['data_type.fields'],
              'field attributes: stub declares all_fields (inherited re-declared), runtime '
              'defines own fields on each class of the chain', sp.loc,
              msg='field attribute sources changed: stub %s, runtime %s' % (sl, rl),
              key='C15-R1|properties|source')
    sn_ = [norm(pm, sp.module, c) for c in own_nodes(sp.node) if isinstance(c, ast.Call)
           and call_name(c) in ('fmt_func', 'fmt_var')]
    rn_ = [norm(pm, rp.module, c) for c in own_nodes(rp.node) if isinstance(c, ast.Call)
           and call_name(c) in ('fmt_func', 'fmt_var')]
    ctx.check('C15-R1', sn_ and rn_ and sn_[0][:1] + sn_[0][2:] == rn_[0][:1] + rn_[0][2:],
              'field attributes are named by the same formatter with the same flags', sp.loc,
              msg='field attribute naming differs: stub %s, runtime %s' % (sn_, rn_),
              key='C15-R1|properties|names')
    # class statement
    sc, rc = pm.func(ST + '._class_declaration_for_type'), \
        pm.func(PT + '._class_declaration_for_type')

    def body_sig(f):
        # assignments of constants to locals that are never read carry no meaning
        loads = {x.id for x in own_nodes(f.node) if isinstance(x, ast.Name) and
                 isinstance(x.ctx, ast.Load)}
        return sorted(unparse(n) for n in own_nodes(f.node)
                      if isinstance(n, (ast.Assign, ast.Return)) and not (
                          isinstance(n, ast.Assign) and isinstance(n.value, ast.Constant) and
                          all(isinstance(t, ast.Name) and t.id not in loads for t in n.targets)))
    ctx.check('C15-R1', body_sig(sc) == body_sig(rc),
              'class statement and base class are computed identically', sc.loc,
              msg='the stub and the runtime compute class statements differently',
              key='C15-R1|class-declaration')
    # validators
    vf = pm.func(ST + '._generate_validator_for')
    ok = any(isinstance(n, ast.Assign) and unparse(n) ==
             'cls_name = class_name_for_data_type(data_type)' for n in own_nodes(vf.node)) and \
        any(isinstance(c, ast.Call) and call_name(c) == 'emit' and
            "'{}_validator: bv.Validator = ...'.format(cls_name)" in unparse(c)
            for c in own_nodes(vf.node))
    ctx.check('C15-R1', ok, 'stub declares <class_name_for_data_type(dt)>_validator (the name the '
              'runtime defines for types and aliases)', vf.loc,
              msg='the stub names validators differently from the runtime',
              key='C15-R1|validator-name')
    for q in ('_generate_struct_class', '_generate_union_class', '_generate_alias_definition'):
        f = pm.func(ST + '.' + q)
        ctx.check('C15-R1', any(isinstance(c, ast.Call) and call_name(c) == '_generate_validator_for'
                                for c in own_nodes(f.node)),
                  'stub %s declares the validator' % q, f.loc,
                  msg='stub %s no longer declares the validator' % q,
                  key='C15-R1|%s|validator' % q)
    # alias class alias
    sa, ra = pm.func(ST + '._generate_alias_definition'), pm.func(PT + '._generate_alias_definition')

    def alias_sig(f):
        pi = path_info(f.node)
        out = []
        for c in own_nodes(f.node):
            if isinstance(c, ast.Call) and call_name(c) == 'emit' and c.args and \
                    unparse(c.args[0]).startswith("'{} = {}'.format(alias.name"):
                out.append((unparse(c.args[0]),
                            sorted((unparse(e), p) for e, p in pi.at(c))))
        uw = [unparse(v) for v in defs(f.node).all_values('unwrapped_dt')]
        return out, uw
    ctx.check('C15-R1', alias_sig(sa) == alias_sig(ra) and alias_sig(sa)[0],
              'class alias emitted under the same condition (target unwrapped through the whole '
              'alias chain) and with the same names', sa.loc,
              msg='stub class-alias emission %s differs from runtime %s' % (
                  alias_sig(sa), alias_sig(ra)), key='C15-R1|alias-class')
    # routes
    sr, rr = pm.func(ST + '._generate_routes'), pm.func(PT + '._generate_routes')
    sn_ = {norm(pm, sr.module, c) for c in own_nodes(sr.node) if isinstance(c, ast.Call) and
           call_name(c) == 'fmt_func'}
    rn_ = {norm(pm, rr.module, c) for c in own_nodes(rr.node) if isinstance(c, ast.Call) and
           call_name(c) == 'fmt_func'}
    ctx.check('C15-R1', sn_ == rn_ and len(sn_) == 1, 'route objects named identically', sr.loc,
              msg='route naming differs: stub %s, runtime %s' % (sn_, rn_),
              key='C15-R1|routes')
    sl = [unparse(l.iter) for l in own_nodes(sr.node) if isinstance(l, ast.For)]
    ctx.check('C15-R1', sl == ['namespace.routes'], 'stub declares every route', sr.loc,
              msg='stub route loop changed: %s' % sl, key='C15-R1|routes|source')
    # annotation types
    sat, rat = pm.func(ST + '._generate_annotation_type_class'), \
        pm.func(PT + '._generate_annotation_type_class')
    for f in (sat, rat):
        ctx.check('C15-R1', 'class_name_for_annotation_type(annotation_type, ns)' in
                  ' '.join(unparse(c) for c in own_nodes(f.node) if isinstance(c, ast.Call)),
                  '%s names the class class_name_for_annotation_type(t, ns)' % f.short, f.loc,
                  msg='annotation type class naming changed in %s' % f.short,
                  key='C15-R1|annotation-class|%s' % f.qualname)
    # module structure: same passes over the same linearisations
    sm, rm = pm.func(ST + '._generate_base_namespace_module'), \
        pm.func(PT + '._generate_base_namespace_module')

    def passes(f):
        out = []
        for s in f.node.body:
            if isinstance(s, ast.For):
                cs = sorted({call_name(c) for c in ast.walk(s) if isinstance(c, ast.Call)
                             and (call_name(c) or '').startswith('_generate')})
                out.append((unparse(s.iter), tuple(cs)))
        return out
    sps, rps = passes(sm), passes(rm)
    ctx.check('C15-R1', all(p in rps for p in sps) and len(sps) == 3,
              'stub module: annotation types, linearised types, linearised aliases -- the '
              'runtime\'s class passes', sm.loc,
              msg='stub module passes %s are not the runtime\'s %s' % (sps, rps),
              key='C15-R1|module-passes')
    ctx.check('C15-R1', any(isinstance(c, ast.Call) and call_name(c) ==
                            'generate_imports_for_referenced_namespaces'
                            for c in own_nodes(pm.func(
                                ST + '._generate_imports_for_referenced_namespaces').node)),
              'stub imports come from the shared helper', sm.loc,
              msg='stub namespace imports no longer use the shared helper',
              key='C15-R1|imports')
    for cls_q in (ST, PT):
        c = pm.cls(cls_q)
        pa = pm.lookup_class_attr(c, 'preserve_aliases')
        ctx.check('C15-R1', pa is not None and unparse(pa) == 'True',
                  '%s preserves aliases' % c.name, c.module.relpath,
                  msg='%s no longer preserves aliases: alias declarations would differ' % c.name,
                  key='C15-R1|preserve|%s' % c.name)

    # ---------------- R2
    mp = pm.func(TM + '.map_stone_type_to_python_type')
    for n in own_nodes(mp.node):
        if isinstance(n, ast.Raise):
            cls = reaching_classes(pm, irf, mp, n, 'data_type')
            ctx.check('C15-R2', not cls, 'type mapping covers every IR class', mp.loc,
                      msg='IR classes %s reach the TypeError default of the type mapping'
                          % sorted(cls), key='C15-R2|%s|default' % mp.qualname)
    consulted = set()
    for n in own_nodes(mp.node):
        if isinstance(n, ast.Call) and unparse(n.func) == 'override_dict.get' and n.args:
            consulted.add(unparse(n.args[0]))
        if isinstance(n, ast.Compare) and isinstance(n.ops[0], ast.In) and \
                unparse(n.comparators[0]) == 'override_dict':
            consulted.add(unparse(n.left))
    cb = pm.func(ST + '._get_pep_484_type_mapping_callbacks')
    dct = [n.value for n in own_nodes(cb.node) if isinstance(n, ast.Assign) and
           unparse(n.targets[0]) == 'callback_dict' and isinstance(n.value, ast.Dict)]
    keys = {unparse(k) for k in dct[0].keys} if dct else set()
    ctx.check('C15-R2', keys and keys <= consulted,
              'every override key %s is a class the mapper consults overrides for' % sorted(keys),
              cb.loc, msg='override keys %s are not all consulted by the mapper (%s)' % (
                  sorted(keys), sorted(consulted)), key='C15-R2|override-keys')
    # every recursion forwards override_dict
    n_rec = 0
    for f in [mp] + list(cb.nested.values()):
        for c in own_nodes(f.node):
            if isinstance(c, ast.Call) and call_name(c) == 'map_stone_type_to_python_type':
                n_rec += 1
                fwd = (len(c.args) >= 3 and unparse(c.args[2]) == 'override_dict') or \
                    any(k.arg == 'override_dict' and unparse(k.value) == 'override_dict'
                        for k in c.keywords)
                leaf = f.name in ('upon_encountering_timestamp',)
                ctx.check('C15-R2', fwd or leaf,
                          '%s forwards override_dict into the recursion' % f.short,
                          '%s:%d' % (f.module.relpath, c.lineno),
                          msg='%s recurses into the type mapping without override_dict: nested '
                              'List/Map/Nullable/String/Timestamp fall back to the doc-comment '
                              'spelling (and their typing imports are not registered)' % f.short,
                          key='C15-R2|%s|forward@%s' % (f.qualname, unparse(c.args[1])[:30]))
    ctx.floor('C15-R2', n_rec, 9, 'recursive type-mapping calls')
    pi = path_info(mp.node)
    fq = [c for c in own_nodes(mp.node) if isinstance(c, ast.Call) and
          unparse(c) == 'fmt_namespace(user_defined_type.namespace.name)']
    foreign = {'user_defined_type.namespace.name != ns.name', 'ns.name != user_defined_type.namespace.name'}
    ctx.check('C15-R2', len(fq) >= 1 and all(any(unparse(e) in foreign and pol
                                                 for e, pol in pi.at(c)) for c in fq),
              'foreign user types are qualified with fmt_namespace(their namespace)', mp.loc,
              msg='foreign user types are no longer qualified with fmt_namespace(...): a '
                  'keyword-named namespace is imported as <name>_ but referenced as <name>',
              key='C15-R2|%s|qualify' % mp.qualname)
    mf = pm.func(ST + '.map_stone_type_to_pep484_type')
    ctx.check('C15-R2', any(isinstance(c, ast.Call) and unparse(c) ==
                            'map_stone_type_to_python_type(ns, data_type, override_dict='
                            'self._pep_484_type_mapping_callbacks)' for c in own_nodes(mf.node)),
              'the stub entry point maps with the PEP 484 override table', mf.loc,
              msg='map_stone_type_to_pep484_type no longer passes the override table',
              key='C15-R2|%s' % mf.qualname)

    # ---------------- R3
    stub_funcs = [f for f in pm.funcs_in('stone.backends.python_type_stubs')]
    n_names = 0
    for f in stub_funcs:
        emitted = set()
        for n in own_nodes(f.node):
            strs = []
            if isinstance(n, ast.Call) and call_name(n) in ('emit', 'format', 'append'):
                strs = [c.value for c in ast.walk(n) if isinstance(c, ast.Constant) and
                        isinstance(c.value, str)]
            elif isinstance(n, ast.Return) and n.value is not None:
                strs = [c.value for c in ast.walk(n.value) if isinstance(c, ast.Constant) and
                        isinstance(c.value, str)]
            for s in strs:
                for t in TYPING:
                    if re.search(r'\b%s\b(\[|\(|$|,)' % t, s) or s == t:
                        emitted.add(t)
        registered = {c.args[0].value for c in own_nodes(f.node)
                      if isinstance(c, ast.Call) and call_name(c) == '_register_typing_import'
                      and c.args and isinstance(c.args[0], ast.Constant)}
        for t in sorted(emitted):
            n_names += 1
            ctx.check('C15-R3', t in registered,
                      '%s emits typing name %s and registers its import' % (f.short, t), f.loc,
                      msg='%s emits the typing name %s without _register_typing_import(%r): the '
                          'stub uses a name it does not import' % (f.short, t, t),
                      key='C15-R3|%s|%s' % (f.qualname, t))
    ctx.floor('C15-R3', n_names, 8, 'typing names emitted by the stub backend')
    ts = cb.nested.get('upon_encountering_timestamp')
    ctx.check('C15-R3', ts is not None and any(
        isinstance(c, ast.Call) and call_name(c) == '_register_adhoc_import' and
        unparse(c.args[0]) == "'import datetime'" for c in own_nodes(ts.node)),
        'Timestamp annotations register `import datetime`', cb.loc,
        msg='datetime is no longer imported for Timestamp annotations',
        key='C15-R3|datetime')
    ph = [c for c in own_nodes(sm.node) if isinstance(c, ast.Call) and
          call_name(c) == 'emit_placeholder']
    fill = pm.func(ST + '._generate_imports_needed_for_typing')
    fills = [c for c in own_nodes(fill.node) if isinstance(c, ast.Call) and
             call_name(c) == 'add_named_placeholder']
    last = sm.node.body[-1]
    ctx.check('C15-R3', len(ph) == 1 and len(fills) == 1 and
              unparse(ph[0].args[0]) == unparse(fills[0].args[0]) and
              isinstance(last, ast.Expr) and call_name(last.value) ==
              '_generate_imports_needed_for_typing',
              'the import placeholder is emitted once and filled once, after every declaration',
              sm.loc, msg='typing-import placeholder handling changed',
              key='C15-R3|placeholder')
    ctx.check('C15-R3', any(isinstance(l, ast.For) and 'sorted(' in unparse(l.iter) and
                            'cur_namespace_typing_imports' in unparse(l.iter)
                            for l in own_nodes(fill.node)),
              'typing imports are emitted sorted', fill.loc,
              msg='typing imports are no longer emitted sorted', key='C15-R3|sorted')
    totality.run_pack(pm, ctx, 'C15-R4', ('stone.backends.python_type_stubs', 'stone.backends.python_type_mapping',
                       'stone.backends.python_helpers'),
                      True, 'python_type_stubs', TOTALITY_PRECONDITIONS, (10, 3, 0))

    ctx.import_rules(pm, 'C02', {'C02-R12'}, 'C15-R5',
                     'the unwrap helpers of the IR peel exactly the wrappers their names say '
                     '(shared with C02-R12)')
    from ..effects import run_decisions
    from ..ownership import OWN
    run_decisions(pm, ctx, 'C15-RD', OWN['C15'])
    from .. import exprdrift
    exprdrift.run(pm, ctx, 'C15-RE', OWN['C15'])
    from ..effects import run_calls
    run_calls(pm, ctx, 'C15-RC', OWN['C15'])
    from .. import memo
    memo.run(pm, ctx, 'C15-MK', OWN['C15'])
    from .. import interface
    interface.run(pm, ctx, 'C15-RI', OWN['C15'])
    from .. import mutation
    mutation.run(pm, ctx, 'C15-MU', OWN['C15'])
