"""C03 -- compilation of arbitrary text ends in an API description or a spec
error.  Structural part (DESIGN 4/C03): exception-escape analysis from
frontend.specs_to_ir with the implicit-raise idioms that are decidable from
shape; interface completeness of family-dispatched checker methods;
query/compute agreement; sibling p_error; well-formed InvalidSpec objects and
the CLI handler.  Termination and other implicit exceptions are not decided.
"""
import ast

from ..callgraph import CallGraph
from ..escape import EscapeAnalysis
from ..lattice import Family, ir_family, reaching_classes, class_test
from ..model import AnalysisError
from ..model import ClassInfo, FuncInfo, call_name, dotted, own_nodes, unparse
from ..pathcond import path_info

PROP = 'C03'
FE = 'stone.frontend'
IRM = 'stone.ir.data_types'
GEN = 'stone.frontend.ir_generator.IRGenerator'
PARSER = 'stone.frontend.parser.ParserFactory'
LEXER = 'stone.frontend.lexer.Lexer'
EXPLANATION = (
    'Exception-escape analysis (explicit raises, library-may-raise facts, five implicit-raise '
    'idioms, resolved callees incl. ply callbacks and @property getters; filtered by enclosing '
    'try/except; least fixpoint over the call graph of stone/frontend and stone/ir) from '
    'frontend.specs_to_ir with route_whitelist_filter=None. R1/R2: nothing but InvalidSpec may '
    'escape; dispatch defaults must be proved dead over the class lattice. R3: idioms -- (i) '
    'subscripting a value narrowed by isinstance to a class without __getitem__, (ii) unpacking '
    's.split(sep, k) into more targets than the dominating guard guarantees, (iii) C(*args, '
    '**kwargs) from spec-supplied arguments without complete arity validation or a TypeError '
    'handler, (iv) ordering comparison of a constructor parameter that sibling constructors '
    'type-check first, (v) float()/int() of a value that may be a TagRef. R3b: a method invoked '
    'through family dispatch exists on every concrete IR class. R3c: a boolean query that guards '
    'a computation admits no class the computation asserts/raises on. R4: sibling p_error '
    'functions agree on handling None (end of input). R5: every InvalidSpec(...) has a message '
    'and location arguments; cli.main converts InvalidSpec to `path:line: error: msg` and '
    'exit 1. Frontend asserts about internal invariants are listed, not judged.'
    ' RD (effect-condition drift, stonelint.effects): for the functions this property is anchored in (stonelint.ownership) the path formula of every raise / return / continue / break / assignment / call statement is compared with reference/effects.json by truth table over the leaf tests (so nested vs merged tests, guard clauses vs if/else ladders, De Morgan forms read alike); an effect lost on a path, or a control effect gained on one, is a violation; changed texts and re-spelled tests are not claimed.'
    " RE (expression drift, stonelint.exprdrift): the same functions' attribute names, variable reads, simple statements, calls and arithmetic/slice literals are compared with reference/expressions.json; a substituted attribute or variable, a dropped call or assignment, swapped arguments or a changed literal is a violation; any other edit is not claimed. RC (call-condition drift, stonelint.effects.run_calls): for every call of a repository or imported-library function in those functions, the path conditions of its occurrences are compared with reference/effects.json by truth table; an assignment under which the function used to make the call and now completes without it is a violation (tests on memo tables, emptiness of the iterated collection and earlier refusals excepted; re-spelled conditions are not claimed). MK (memo-key rule, stonelint.memo): a memo table or done-set the reference tree does not have must be keyed by every access path the skipped code reads, injectively and type-aware."
    ' GR (stonelint.grammar, shared with C01): a production action that reads p[k] beyond the symbols of an alternative its path admits raises IndexError while parsing - a non-spec error; grammar symbols are all defined (ply would otherwise refuse to build the parser at the first compile).'
    ' RI (interface drift, stonelint.interface): constants and tables (folded values), compiled regular expressions (witness text), parameter defaults, special methods, base classes and caching decorators of the modules the property rests on are compared with reference/interface.json; only a concrete difference in what is computed is reported.'
    ' MU (mutation drift, stonelint.mutation): the functions the property rests on update in place only the caller-owned, class-level and module-level objects they updated on the confirmed tree, and have no new handler that swallows an exception (reference/mutations.json).')
ASSUMPTIONS = [
    'the kinds of values stored in an Environment are the six store sites of ir_generator plus '
    'the built-in type classes of default_env (re-checked every run; a new store kind is an '
    'analysis error)',
    'name-based method resolution over stone/frontend and stone/ir over-approximates receivers; '
    'abstract IR classes (never instantiated) are removed from receiver sets',
    'library-may-raise table: strptime -> ValueError (argument is a str by a dominating guard), '
    'float/int of a literal -> ValueError, OverflowError; re.compile -> re.error',
    'ply invokes p_* / t_* callbacks during yacc.parse and passes None to p_error at end of input '
    '(documented ply behaviour)',
    'implicit TypeError/KeyError/AttributeError/IndexError outside the five idioms, recursion '
    'depth and termination are not decided',
    'the whitelist branch (_filter_namespaces_by_route_whitelist) is excluded: it is guarded by '
    'route_whitelist_filter and belongs to C20',
]

LIB = {
    'datetime.datetime.strptime': ('ValueError',),
    're.compile': ('re.error', 'OverflowError'),     # an oversized repetition count
}
EXEMPT_PARAM_ASSERTS = {
    # default_env is built from IRGenerator.data_types, a list of DataType subclasses, and
    # _resolve_type passes only env values for which isclass() holds
    ('_instantiate_data_type', 'issubclass(data_type_class, DataType)'),
}
FAMILY_METHODS = ('check', 'check_example', 'check_attr_repr', '_has_example', '_compute_example')


def build_scope(pm):
    cg = CallGraph(pm, scope_modules=[FE, 'stone.ir'], name_based=True, properties=True)
    irf = ir_family(pm)
    parser_cbs = [f for n, f in pm.cls(PARSER).methods.items() if n.startswith('p_')]
    lexer_cbs = [f for n, f in pm.cls(LEXER).methods.items()
                 if n.startswith('t_') and isinstance(f, FuncInfo)]
    lexer_api = [pm.func(LEXER + '.token'), pm.func(LEXER + '.input')]

    ir_inits = []
    for c in irf.concrete:
        m = pm.lookup_method(irf.classes[c], '__init__')
        if m is not None and m not in ir_inits:
            ir_inits.append(m)

    def through_variable(f, n):
        """Constructor calls through a local holding a class: the class set
        comes from ``assert issubclass(v, C)`` or from a module-level constant
        table of classes the local was read from."""
        if not (isinstance(n, ast.Call) and isinstance(n.func, ast.Name)):
            return []
        v = n.func.id
        for a in own_nodes(f.node):
            if isinstance(a, ast.Assert) and isinstance(a.test, ast.Call) and \
                    call_name(a.test) == 'issubclass' and unparse(a.test.args[0]) == v:
                r = pm.resolve_expr(f.module, a.test.args[1])
                if isinstance(r, ClassInfo) and r is irf.root:
                    return ir_inits
        from ..dataflow import defs
        for val in defs(f.node).all_values(v):
            if isinstance(val, ast.Subscript) and isinstance(val.value, ast.Name):
                tab = f.module.assigns.get(val.value.id)
                if isinstance(tab, ast.Dict):
                    out = []
                    for x in tab.values:
                        r = pm.resolve_expr(f.module, x)
                        if isinstance(r, ClassInfo):
                            m = pm.lookup_method(r, '__init__')
                            if m is not None:
                                out.append(m)
                    return out
        return []

    def extra_edges(f, n):
        tv = through_variable(f, n)
        if tv:
            return tv
        if isinstance(n, ast.Call) and isinstance(n.func, ast.Attribute) and \
                n.func.attr == 'parse' and 'yacc' in unparse(n.func.value):
            return parser_cbs + lexer_cbs + lexer_api
        if isinstance(n, ast.Call) and isinstance(n.func, ast.Attribute) and \
                n.func.attr == 'token' and unparse(n.func.value) == 'self.lex':
            return lexer_cbs
        return []

    excluded = {GEN + '._filter_namespaces_by_route_whitelist'}
    entry = pm.func(FE + '.frontend.specs_to_ir')
    reach = {}
    work = [entry]
    while work:
        f = work.pop()
        if f.qualname in reach or f.qualname in excluded:
            continue
        if not (f.module.name.startswith(FE) or f.module.name.startswith('stone.ir')):
            continue
        reach[f.qualname] = f
        for _, c in cg.callees(f):
            work.append(c)
        for n in own_nodes(f.node):
            work.extend(extra_edges(f, n))
    return cg, reach, extra_edges, entry, irf


def abstract_narrow(pm, irf):
    """Drop candidate methods owned by abstract IR classes when every concrete
    subclass resolves the method to another definition."""
    def narrow(f, call, cands):
        out = []
        for c in cands:
            k = c.cls
            if k is not None and k.module.name == IRM and k.name in irf.abstract:
                concrete = [irf.classes[n] for n in irf.concrete
                            if pm.is_subclass(irf.classes[n], k)]
                if concrete and all(pm.lookup_method(s, c.name) is not c for s in concrete):
                    continue
            out.append(c)
        return out
    return narrow


def run(pm, ctx):
    for r, t in (
            ('C03-R1', 'no explicit non-InvalidSpec raise / library exception reachable from '
                       'specs_to_ir escapes unconverted; dispatch defaults are dead'),
            ('C03-R3', 'implicit-raise idioms (subscript of non-subscriptable, split-unpack, '
                       'star-call arity, unchecked ordering comparison, float() of a tag ref)'),
            ('C03-R3b', 'family-dispatched checker methods exist on every concrete receiver class'),
            ('C03-R3c', 'query/compute agreement'),
            ('C03-R4', 'sibling p_error functions handle None'),
            ('C03-R6', 'environment typestate: a value looked up in a symbol environment (type '
                       'class, Struct/Union/Alias, annotation, annotation type, routes table, '
                       'imported environment) is used by attribute / `in` / subscript only after '
                       'tests that exclude every kind lacking that operation'),
            ('C03-R5', 'InvalidSpec objects are well formed; the CLI converts them')):
        ctx.rule(r, t)
    cg, reach, extra_edges, entry, irf = build_scope(pm)
    ctx.extra['functions_in_scope'] = len(reach)
    registry_typestate(pm, ctx)
    empty_ast_guard(pm, ctx)
    ast_field_totality(pm, ctx)
    lexer_state_stack(pm, ctx)
    import_self_precondition(pm, ctx)
    belief_contradictions(pm, ctx)

    implicit = implicit_sites(pm, ctx, reach, irf)
    dead_defaults = {}

    def lib_raises(f, call):
        if id(call) in dead_defaults:
            return []
        d = dotted(call.func)
        out = list(LIB.get(d, ()))
        out.extend(implicit.get(id(call), ()))
        return out

    dead_defaults.update(prove_defaults_dead(pm, ctx, reach, irf))
    for i in preconditions(pm, ctx, reach):
        dead_defaults[i] = True

    def assert_policy(f, a):
        # frontend asserts are internal invariants (not judged) except dispatch
        # defaults written as assert False, which A4 must prove dead
        if isinstance(a.test, ast.Constant) and not a.test.value:
            return id(a) not in dead_defaults
        # a checker method of the IR receives a literal written in the spec:
        # an assert about that value is an escape, not an internal invariant
        if f.module.name == IRM and f.name in ('check', 'check_example', 'check_attr_repr') \
                and len(f.params) >= 2:
            names = {x.id for x in ast.walk(a.test) if isinstance(x, ast.Name)}
            if f.params[1] in names:
                return True
        # the generator's helpers receive names and doc-reference text taken
        # from the spec: an assert about a parameter is an escape unless exempt
        if f.module.name == FE + '.ir_generator':
            names = {x.id for x in ast.walk(a.test) if isinstance(x, ast.Name)}
            if names & (set(f.params) - {'self', 'cls'}):
                if (f.name, unparse(a.test)) in EXEMPT_PARAM_ASSERTS:
                    return False
                return True
        return False

    def skip_call(f, call):
        # property `default` read under has_default
        return False

    ea = EscapeAnalysis(pm, cg, reach, lib_raises=lib_raises, assert_policy=assert_policy,
                        extra_edges=extra_edges, narrow=abstract_narrow(pm, irf),
                        skip_call=skip_call, narrow_all_nodes=True)
    # implicit sites that are not calls (subscripts, compares, unpacking) are
    # injected as own sites
    from ..escape import Site
    for q, f in reach.items():
        sites = ea.own_sites(f)
        for n in own_nodes(f.node):
            if not isinstance(n, ast.Call) and id(n) in implicit:
                for exc in implicit[id(n)]:
                    sites.append(Site(f, n, exc, 'lib'))
        # dead dispatch defaults do not raise
        ea._own[q] = [s for s in sites if id(s.node) not in dead_defaults]
        # property getter `default` guarded by has_default
    _discharge_guarded_property_reads(pm, ea, cg, reach)
    ea.run()
    ctx.extra['escape_fixpoint_iterations'] = ea.iterations
    n_asserts = sum(1 for f in reach.values() for n in own_nodes(f.node)
                    if isinstance(n, ast.Assert))
    ctx.note('%d assert statements in scope are internal invariants and are not judged '
             '(DESIGN 3/A1 assert policy)' % n_asserts)

    reported = set()
    for exc, site in sorted(ea.escapes[entry.qualname].items()):
        if ea.is_sub(exc, 'InvalidSpec'):
            ctx.ok('C03-R1', 'specs_to_ir: InvalidSpec may escape (allowed)', site.origin().where,
                   nontrivial=False)
            continue
    # report per origin site (not only one witness per exception class)
    all_origins = collect_all_escaping_origins(ea, reach, entry)
    for (q, key_construct, exc), (o, chain) in sorted(all_origins.items()):
        rule = 'C03-R3' if id(o.node) in implicit else 'C03-R1'
        key = '%s|%s|%s|%s' % (rule, q, exc, key_construct)
        ctx.violation(rule, key, o.where,
                      '%s can escape specs_to_ir: %s in %s (call chain: %s)' % (
                          exc, key_construct, o.func.short, ' -> '.join(chain)))
    # count discharged sites
    n_sites = 0
    for q, f in sorted(reach.items()):
        for s in ea.own_sites(f):
            if s.kind == 'reraise':
                continue
            n_sites += 1
            key = (q, construct(s), s.exc)
            if key in all_origins:
                continue
            if ea.is_sub(s.exc, 'InvalidSpec'):
                ctx.ok('C03-R1', '%s: raise InvalidSpec' % f.short, s.where, nontrivial=False)
            else:
                ctx.ok('C03-R1' if id(s.node) not in implicit else 'C03-R3',
                       '%s: %s (%s) is converted on every call chain' % (
                           f.short, s.exc, construct(s)), s.where)
    for d in dead_defaults.values():
        pass
    ctx.floor('C03-R1', n_sites, 150, 'raise/library/implicit sites reachable from specs_to_ir')

    interface_completeness(pm, ctx, irf)
    query_compute(pm, ctx, irf)
    p_error_siblings(pm, ctx)
    env_typestate(pm, ctx)
    parse_result_guard(pm, ctx)
    parser_invariants(pm, ctx)
    invalid_spec_objects(pm, ctx, reach)

    from ..effects import run_decisions
    from ..ownership import OWN
    run_decisions(pm, ctx, 'C03-RD', OWN['C03'])
    from .. import exprdrift
    exprdrift.run(pm, ctx, 'C03-RE', OWN['C03'])
    from ..effects import run_calls
    run_calls(pm, ctx, 'C03-RC', OWN['C03'])
    from .. import memo
    memo.run(pm, ctx, 'C03-MK', OWN['C03'])
    from .. import interface
    interface.run(pm, ctx, 'C03-RI', OWN['C03'])
    from .. import mutation
    mutation.run(pm, ctx, 'C03-MU', OWN['C03'])
    from .. import grammar
    grammar.run(pm, ctx, 'C03-GR', which=('GR1','GR2'))


def construct(site):
    n = site.node
    if isinstance(n, ast.Raise):
        return 'raise ' + (unparse(n.exc.func if isinstance(n.exc, ast.Call) else n.exc)
                           if n.exc is not None else '')
    if isinstance(n, ast.Assert):
        return 'assert ' + unparse(n.test)[:50]
    if isinstance(n, ast.Call):
        return unparse(n.func) + '(...)'
    if isinstance(n, ast.Assign):
        return unparse(n)[:70]
    return unparse(n)[:70]


def collect_all_escaping_origins(ea, reach, entry):
    """The fixpoint keeps one witness per (function, exception class).  To
    report every origin, re-run the question per origin site: does this site's
    exception survive every try on some chain up to the entry?  Implemented as
    a backward propagation over caller edges."""
    # callers map with call nodes
    callers = {}
    for q, f in reach.items():
        for node, callee in ea._call_edges(f):
            if callee.qualname in reach:
                callers.setdefault(callee.qualname, []).append((f, node))
    out = {}
    for q, f in reach.items():
        for s in ea.own_sites(f):
            if s.kind == 'reraise' or ea.is_sub(s.exc, 'InvalidSpec'):
                continue
            h = ea.caught_by(f, s.node, s.exc)
            if h is not None and not _handler_reraises(h):
                continue
            # BFS upwards
            seen = {q}
            work = [(f, [f.short])]
            found = None
            while work:
                g, chain = work.pop(0)
                if g.qualname == entry.qualname:
                    found = chain
                    break
                for caller, node in callers.get(g.qualname, []):
                    if caller.qualname in seen:
                        continue
                    hh = ea.caught_by(caller, node, s.exc)
                    if hh is not None and not _handler_reraises(hh):
                        continue
                    if any(ea.is_sub(s.exc, a) for a in ea.absorb(caller, node)):
                        continue
                    seen.add(caller.qualname)
                    work.append((caller, [caller.short] + chain))
            if found is not None:
                out[(q, construct(s), s.exc)] = (s, found)
    return out


def _handler_reraises(h):
    return any(isinstance(n, ast.Raise) and n.exc is None for n in ast.walk(h))


def _discharge_guarded_property_reads(pm, ea, cg, reach):
    """Property-getter edges that cannot raise at a given read:
    * ``x.default`` under ``x.has_default`` never reaches the getter's raise;
    * ``<...>._ast_node.default`` / ``param.default`` read parser AST nodes
      (plain attribute of AstField), not StructField: ``_ast_node`` is only
      ever assigned from ``ast_node`` constructor parameters (checked)."""
    getter = pm.functions.get(IRM + '.StructField.default')
    if getter is None:
        return
    # the fact the second bullet relies on
    ast_only = True
    for f in pm.funcs_in('stone.ir'):
        for n in own_nodes(f.node):
            if isinstance(n, ast.Assign) and isinstance(n.targets[0], ast.Attribute) and \
                    n.targets[0].attr == '_ast_node' and unparse(n.value) != 'ast_node':
                ast_only = False
    orig = ea._call_edges

    def edges(f):
        out = []
        pi = path_info(f.node)
        for node, callee in orig(f):
            if callee is getter and isinstance(node, ast.Attribute):
                recv = unparse(node.value)
                if any(pol and unparse(e) == recv + '.has_default' for e, pol in pi.at(node)):
                    continue
                if ast_only and ('_ast_node' in recv or
                                 (f.module.name.startswith(FE) and recv in ('param', 'p', 'item'))):
                    continue
            out.append((node, callee))
        return out
    ea._call_edges = edges


def preconditions(pm, ctx, reach):
    """Callee preconditions established at every call site; returns the set of
    node ids of raise/call sites that are thereby dead."""
    dead = set()
    # (a) Union._compute_example: the `raise AssertionError('No example for
    # label')` of its for-else is reached only for a label that is neither a
    # raw example nor a tag; every caller establishes _has_example(label) first,
    # iterates _raw_examples, or passes a TagRef tag validated by Union.check.
    comp = pm.func(IRM + '.Union._compute_example')
    sites = []
    for q, f in reach.items():
        pi = path_info(f.node)
        for c in own_nodes(f.node, include_nested=False):
            if isinstance(c, ast.Call) and call_name(c) == '_compute_example' and c.args:
                recv = unparse(c.func.value)
                arg = unparse(c.args[0])
                ok = False
                if recv == 'self':
                    ok = any(isinstance(l, ast.For) and '_raw_examples' in unparse(l.iter)
                             for l in pi.loops_at(c))
                    # Alias._compute_example / Struct._compute_example forward their own
                    # parameter: the obligation moves to their callers (same name)
                    ok = ok or arg in f.params
                elif arg in f.params and recv.startswith('self.'):
                    ok = True
                elif any(pol and isinstance(e, ast.Call) and call_name(e) == '_has_example' and
                         unparse(e.func.value) == recv and unparse(e.args[0]) == arg
                         for e, pol in pi.at(c)):
                    ok = True
                elif recv.endswith('.union_data_type') and arg.endswith('.tag_name'):
                    ok = any(pol and isinstance(e, ast.Call) and call_name(e) == 'isinstance' and
                             'TagRef' in unparse(e.args[1]) for e, pol in pi.at(c))
                sites.append((f, c, ok))
    good = bool(sites) and all(ok for _, _, ok in sites)
    for f, c, ok in sites:
        ctx.check('C03-R1', ok, '%s: %s is preceded by _has_example / iterates _raw_examples / '
                  'is a checked TagRef' % (f.short, unparse(c)[:50]),
                  '%s:%d' % (f.module.relpath, c.lineno),
                  msg='%s calls %s without establishing that the example exists: the '
                      'AssertionError of Union._compute_example can escape' % (
                          f.short, unparse(c)[:60]),
                  key='C03-R1|%s|compute-example-precondition' % f.qualname)
    if good:
        for n in own_nodes(comp.node):
            if isinstance(n, ast.Raise) and n.exc is not None and 'AssertionError' in unparse(n.exc):
                dead.add(id(n))
    # (b) Timestamp.check_attr_repr parses the value a second time after
    # self.check(value) succeeded inside a ValueError-converting try.
    f = pm.func(IRM + '.Timestamp.check_attr_repr')
    pi = path_info(f.node)
    calls = [c for c in own_nodes(f.node) if isinstance(c, ast.Call) and
             dotted(c.func) == 'datetime.datetime.strptime']
    chk = [c for c in own_nodes(f.node) if isinstance(c, ast.Call) and
           unparse(c.func) == 'self.check']
    tchk = pm.func(IRM + '.Timestamp.check')
    inner = [c for c in own_nodes(tchk.node) if isinstance(c, ast.Call) and
             dotted(c.func) == 'datetime.datetime.strptime']
    for c in calls:
        same = len(chk) == 1 and chk[0].lineno < c.lineno and \
            unparse(chk[0].args[0]) == unparse(c.args[0]) and \
            any(part == 'body' and any(h.type is not None and 'ValueError' in unparse(h.type)
                                       for h in t.handlers)
                for t, part, _ in pi.trys_at(chk[0])) and \
            len(inner) == 1 and unparse(inner[0].args[1]) == unparse(c.args[1])
        if ctx.check('C03-R1', same, 'Timestamp.check_attr_repr re-parses a value self.check() '
                     'already parsed with the same format', '%s:%d' % (f.module.relpath, c.lineno),
                     msg='strptime in Timestamp.check_attr_repr is no longer preceded by the '
                         'converting self.check() on the same value and format',
                     key='C03-R1|%s|reparse' % f.qualname):
            dead.add(id(c))
    return dead


# ----------------------------------------------------------------------
def implicit_sites(pm, ctx, reach, irf):
    """{id(node): [exception names]} for the implicit-raise idioms."""
    out = {}
    for q, f in sorted(reach.items()):
        pi = path_info(f.node)
        for n in own_nodes(f.node):
            # (i) subscript of a value narrowed to a class without __getitem__
            if isinstance(n, ast.Subscript) and isinstance(n.value, ast.Name) and \
                    isinstance(n.ctx, ast.Load):
                for e, pol in pi.at(n):
                    if pol and isinstance(e, ast.Call) and call_name(e) == 'isinstance' and \
                            unparse(e.args[0]) == n.value.id:
                        r = pm.resolve_expr(f.module, e.args[1])
                        if isinstance(r, ClassInfo) and \
                                pm.lookup_method(r, '__getitem__') is None and \
                                not any(b in ('dict', 'list', 'tuple', 'OrderedDict', 'str')
                                        for k in pm.mro(r) for b in k.ext_bases):
                            out.setdefault(id(n), []).append('TypeError')
            # (ii) tuple unpacking of split
            if isinstance(n, ast.Assign) and isinstance(n.targets[0], ast.Tuple) and \
                    isinstance(n.value, ast.Call) and isinstance(n.value.func, ast.Attribute) and \
                    n.value.func.attr in ('split', 'rsplit') and n.value.args:
                k = len(n.targets[0].elts)
                sep = n.value.args[0]
                subj = unparse(n.value.func.value)
                maxsplit = None
                if len(n.value.args) > 1 and isinstance(n.value.args[1], ast.Constant):
                    maxsplit = n.value.args[1].value
                guarded = any(pol and isinstance(e, ast.Compare) and
                              isinstance(e.ops[0], ast.In) and unparse(e.left) == unparse(sep)
                              and unparse(e.comparators[0]) == subj for e, pol in pi.at(n))
                safe = (k == 2 and maxsplit == 1 and guarded)
                if not safe:
                    out.setdefault(id(n), []).append('ValueError')
            # (iii) star call from spec-supplied arguments
            if isinstance(n, ast.Call) and (any(isinstance(a, ast.Starred) for a in n.args) or
                                            any(k.arg is None for k in n.keywords)):
                if _spec_supplied_star(f, n) and not _arity_validated(f):
                    out.setdefault(id(n), []).append('TypeError')
            # (v) float()/int() of a default that may be a TagRef / arbitrary literal
            if isinstance(n, ast.Call) and isinstance(n.func, ast.Name) and \
                    n.func.id in ('float', 'int') and len(n.args) == 1 and \
                    isinstance(n.args[0], ast.Name):
                from ..dataflow import defs
                vals = defs(f.node).all_values(n.args[0].id)
                may_be_tagref = any(isinstance(v, ast.Call) and call_name(v) == 'TagRef'
                                    for v in vals)
                typed = any(pol and isinstance(e, ast.Call) and call_name(e) == 'isinstance' and
                            unparse(e.args[0]) == n.args[0].id for e, pol in pi.at(n))
                guarded_tagref = any((not pol) and isinstance(e, ast.Call) and
                                     call_name(e) == 'isinstance' and
                                     unparse(e.args[0]) == n.args[0].id and
                                     'TagRef' in unparse(e.args[1]) for e, pol in pi.at(n))
                excs = ['ValueError']
                if n.func.id == 'float':
                    excs.append('OverflowError')   # float(int beyond the double range)
                if may_be_tagref and not guarded_tagref:
                    excs.append('TypeError')
                if typed:
                    # argument already narrowed to a number: only overflow remains
                    excs = ['OverflowError'] if n.func.id == 'float' else []
                out.setdefault(id(n), []).extend(excs)
    # (iv) ordering comparison of an unchecked constructor parameter
    ctors = [pm.lookup_method(irf.classes[c], '__init__') for c in
             ('Int32', 'Float32', 'String', 'List', 'Timestamp', 'Map')]
    for f in ctors:
        if f is None or f.qualname not in reach:
            continue
        pi = path_info(f.node)
        params = set(f.params[1:])
        checked_somewhere = set()
        for g in ctors:
            if g is None:
                continue
            for n in own_nodes(g.node):
                if isinstance(n, ast.Call) and call_name(n) == 'isinstance' and \
                        isinstance(n.args[0], ast.Name):
                    checked_somewhere.add(n.args[0].id.split('_')[0])
        # parameters type-checked under nothing but their own None-guard
        typed_params = set()
        for n in own_nodes(f.node):
            if isinstance(n, ast.Raise):
                ats = pi.at(n)
                for e, pol in ats:
                    if (not pol) and isinstance(e, ast.Call) and call_name(e) == 'isinstance' \
                            and isinstance(e.args[0], ast.Name) and e.args[0].id in params:
                        pname = e.args[0].id
                        # (what earlier, independent guard blocks left behind says nothing
                        # about this parameter)
                        others = [(unparse(x), q) for x, q in ats if x is not e and
                                  not getattr(x, '_synthetic', False)]
                        if all(t in ('%s is not None' % pname, pname) and q for t, q in others):
                            typed_params.add(pname)
        for n in own_nodes(f.node):
            if isinstance(n, ast.Compare) and any(isinstance(o, (ast.Lt, ast.Gt, ast.LtE, ast.GtE))
                                                  for o in n.ops):
                names = [x.id for x in ast.walk(n) if isinstance(x, ast.Name) and x.id in params]
                ats = pi.at(n)
                for p in names:
                    typed = any(pol and isinstance(e, ast.Call) and call_name(e) == 'isinstance'
                                and unparse(e.args[0]) == p for e, pol in ats)
                    if not typed and p in typed_params:
                        typed = any(pol and unparse(e) in (p, '%s is not None' % p)
                                    for e, pol in ats)
                    if not typed:
                        out.setdefault(id(n), [])
                        if 'TypeError' not in out[id(n)]:
                            out[id(n)].append('TypeError')
    return out


def _spec_supplied_star(f, call):
    """The starred operands come from the argument lists written in the spec:
    an attribute .args/.kwargs of an AST item, or a local/parameter derived
    from one (``pos_args, kw_args = data_type_args``)."""
    from ..dataflow import defs
    d = defs(f.node)
    ops = [a.value for a in call.args if isinstance(a, ast.Starred)] + \
        [k.value for k in call.keywords if k.arg is None]
    for o in ops:
        if isinstance(o, ast.Attribute) and o.attr in ('args', 'kwargs'):
            return True
        if isinstance(o, ast.Name):
            origins = d.origin_attrs(o.id)
            if {'args', 'kwargs'} & origins:
                return True
            for kind, v, _ in d.values.get(o.id, []):
                if v is not None and any(isinstance(x, ast.Name) and 'args' in x.id and
                                         x.id in f.params for x in ast.walk(v)):
                    return True
    return False


def _arity_validated(f):
    """Complete arity validation before C(*pos, **kw): the function inspects
    the callee's signature and rejects both too few and too many positionals
    against the same required count."""
    has_spec = any(isinstance(n, ast.Call) and call_name(n) in ('get_args', 'getfullargspec')
                   for n in own_nodes(f.node))
    if not has_spec:
        return False
    cmps = set()
    for n in own_nodes(f.node):
        if isinstance(n, ast.If) and isinstance(n.test, ast.Compare) and len(n.test.ops) == 1 and \
                any(isinstance(b, ast.Raise) for b in n.body):
            l, r = unparse(n.test.left), unparse(n.test.comparators[0])
            op = type(n.test.ops[0]).__name__
            cmps.add((l, op, r))
    for l, op, r in cmps:
        if op == 'Gt' and (l, 'Lt', r) in cmps and 'len(' in r and '-' in l:
            return True
    return False


# ----------------------------------------------------------------------
def registry_typestate(pm, ctx):
    """R7: `_item_by_canonical_name` maps a name to *any* top-level AST item
    (namespace, struct/union definition, route, alias, annotation, annotation
    type).  A value read back from it may be used through an attribute only
    some item classes have (`.fields`, `.examples`, `.closed`) only after a
    test -- in the function or in an earlier call that raises otherwise --
    that leaves only such classes; else a spec that puts another kind of item
    under that name raises AttributeError instead of InvalidSpec."""
    from ..irattrs import IRAttrs
    from ..irflow import IRFlow
    ctx.rule('C03-R7', 'canonical-name registry typestate: class-specific attributes of a value '
                       'read from _item_by_canonical_name are used only under tests (own or of an '
                       'earlier raising callee) that exclude the item classes lacking them')
    af = ast_family(pm)
    GENM = 'stone.frontend.ir_generator'
    reg = 'self._item_by_canonical_name'
    # what is stored
    universe = {}
    for f in pm.funcs_in(GENM):
        for n in own_nodes(f.node):
            if isinstance(n, ast.Assign) and isinstance(n.targets[0], ast.Subscript) and \
                    unparse(n.targets[0].value) == reg:
                v = n.value
                if isinstance(v, ast.Name) and v.id == 'namespace_ast_node':
                    universe['AstNamespace'] = '%s:%d' % (f.module.relpath, n.lineno)
                elif isinstance(v, ast.Name) and v.id in f.params:
                    # every call site of f: classes of that argument there
                    idx = f.params.index(v.id) - 1
                    for g in pm.funcs_in(GENM):
                        for c in own_nodes(g.node):
                            if isinstance(c, ast.Call) and call_name(c) == f.name and \
                                    idx < len(c.args):
                                cs = reaching_classes(pm, af, g, c, unparse(c.args[idx]))
                                for k in cs:
                                    universe.setdefault(k, '%s:%d' % (g.module.relpath, c.lineno))
                else:
                    raise AnalysisError('anchor=%s (unclassified store into the registry: %s)'
                                        % (f.qualname, unparse(v)))
    ctx.floor('C03-R7', len(universe), 5, 'item classes stored in _item_by_canonical_name')
    if len(universe) == len(af.universe()):
        raise AnalysisError('anchor=%s (registry universe not narrowed by the call sites)' % reg)

    def hook(flow, f, e, at):
        if isinstance(e, ast.Subscript) and unparse(e.value) == reg:
            return dict(universe)
        return NotImplemented
    ia = IRAttrs(pm)
    flow = IRFlow(pm, ia, (GENM,), (), family=af, seed_hook=hook)
    n = 0
    for f in flow._all_funcs():
        for a in own_nodes(f.node):
            if not (isinstance(a, ast.Attribute) and isinstance(a.ctx, ast.Load)) or \
                    a.attr.startswith('__'):
                continue
            cs = flow.classes_at(f, a, a.value)
            if not cs or not all(c in af.classes for c in cs):
                continue
            n += 1
            lack = sorted(c for c in cs if a.attr not in ia.attrs_of_class(af.classes[c]))
            ctx.check('C03-R7', not lack, '%s reads %s.%s' % (f.short, unparse(a.value), a.attr),
                      '%s:%d' % (f.module.relpath, a.lineno),
                      msg='%s reads %s.%s where the value, taken from the canonical-name '
                          'registry, can be %s, which %s no such attribute: AttributeError escapes '
                          'instead of InvalidSpec' % (f.short, unparse(a.value), a.attr,
                                                      ', '.join(lack),
                                                      'has' if len(lack) == 1 else 'have'),
                      key='C03-R7|%s|%s.%s' % (f.qualname, unparse(a.value), a.attr))
    ctx.floor('C03-R7', n, 8, 'attribute reads on registry values')


def empty_ast_guard(pm, ctx):
    """R8: IRGenerator indexes `desc[0]` of every partial AST it is given;
    specs_to_ir must hand over only non-empty ones."""
    ctx.rule('C03-R8', 'only non-empty partial ASTs reach IRGenerator (it reads desc[0])')
    fe = pm.func('stone.frontend.frontend.specs_to_ir')
    pi = path_info(fe.node)
    apps = [c for c in own_nodes(fe.node) if isinstance(c, ast.Call) and
            isinstance(c.func, ast.Attribute) and c.func.attr == 'append' and
            unparse(c.func.value) == 'partial_asts']
    ok = len(apps) == 1
    if ok:
        arg = unparse(apps[0].args[0])
        conds = [(unparse(e), p) for e, p in pi.at(apps[0])]
        nonempty = ('len(%s) == 0' % arg, False) in conds or ('len(%s) != 0' % arg, True) in conds \
            or (arg, True) in conds or ('len(%s) > 0' % arg, True) in conds or \
            ('not %s' % arg, False) in conds
        ok = nonempty
    uses0 = [n for f in pm.funcs_in('stone.frontend.ir_generator') for n in own_nodes(f.node)
             if isinstance(n, ast.Subscript) and isinstance(n.slice, ast.Constant) and
             n.slice.value == 0 and isinstance(n.value, ast.Name) and n.value.id == 'desc']
    ctx.check('C03-R8', ok or not uses0, 'specs_to_ir appends a partial AST only when it is '
              'non-empty', fe.loc,
              msg='specs_to_ir can hand an empty partial AST (a file of comments only) to '
                  'IRGenerator, which reads desc[0]: IndexError escapes',
              key='C03-R8|%s' % fe.qualname)


def ast_family(pm):
    return Family(pm, 'stone.frontend.ast', 'ASTNode', ('ASTNode', 'AstTypeDef'))


def prove_defaults_dead(pm, ctx, reach, irf):
    """Dispatch defaults (raise AssertionError / assert False at the end of an
    isinstance chain): returns {id(node): ...} for those proved unreachable."""
    dead = {}
    af = ast_family(pm)
    # (function, subject, family, universe-provider)
    add = pm.func(GEN + '._add_data_types_and_routes_to_api')
    # universe of AST items the parser can put at top level: the classes the
    # `definition`/`import`/`namespace` productions construct
    parser = pm.cls(PARSER)
    top = set()
    for nm in ('make_struct', 'make_union', 'p_struct_patch', 'p_union_patch', 'p_route',
               'p_import', 'p_alias', 'p_annotation', 'p_annotation_type'):
        m = parser.methods.get(nm)
        if m is None:
            continue
        for c in own_nodes(m.node):
            if isinstance(c, ast.Call) and isinstance(c.func, ast.Name) and \
                    c.func.id in af.classes:
                top.add(c.func.id)
    cases = [
        (add, 'item', af, frozenset(top)),
        (pm.func(GEN + '._create_type'), 'item', af, frozenset(
            af.below('AstTypeDef') or ())),
        (pm.func(GEN + '._merge_patches'), 'patched_item', af,
         frozenset({'AstStructPatch', 'AstUnionPatch'})),
        (pm.func(GEN + '._check_patch_type_mismatch'), 'patched_item', af,
         frozenset({'AstStructPatch', 'AstUnionPatch'})),
        (pm.func(GEN + '._populate_type_attributes'), 'data_type', irf,
         frozenset({'Struct', 'Union'})),
    ]
    for f, subj, fam, uni in cases:
        for n in own_nodes(f.node):
            is_default = (isinstance(n, ast.Raise) and n.exc is not None and
                          'AssertionError' in unparse(n.exc)) or \
                (isinstance(n, ast.Assert) and isinstance(n.test, ast.Constant)
                 and not n.test.value)
            if not is_default:
                continue
            classes = reaching_classes(pm, fam, f, n, subj, universe=uni)
            if ctx.check('C03-R1', not classes,
                         '%s: dispatch default dead over %s' % (f.short, sorted(uni)),
                         '%s:%d' % (f.module.relpath, n.lineno),
                         msg='%s reach the raising default of %s' % (sorted(classes), f.short),
                         key='C03-R1|%s|dispatch-default' % f.qualname):
                dead[id(n)] = True
    # _get_user_friendly_item_type_as_string: universe = what the callers pass
    g = pm.func(GEN + '._get_user_friendly_item_type_as_string')
    uni = set()
    pi = path_info(add.node)
    for c in own_nodes(add.node):
        if isinstance(c, ast.Call) and call_name(c) == '_check_canonical_name_available':
            uni |= set(reaching_classes(pm, af, add, c, 'item', universe=frozenset(top)))
    uni.add('AstNamespace')   # generate_IR registers the namespace node itself
    for n in own_nodes(g.node):
        if isinstance(n, ast.Raise):
            classes = reaching_classes(pm, af, g, n, 'item', universe=frozenset(uni))
            if ctx.check('C03-R3c', not classes,
                         '_get_user_friendly_item_type_as_string names every item kind that can '
                         'clash (%s)' % sorted(uni), '%s:%d' % (g.module.relpath, n.lineno),
                         msg='item kinds %s registered by _check_canonical_name_available reach '
                             'the raising default of _get_user_friendly_item_type_as_string '
                             '(AssertionError instead of the name-clash InvalidSpec)'
                             % sorted(classes),
                         key='C03-R3c|%s|unhandled-kinds' % g.qualname):
                dead[id(n)] = True
            else:
                dead[id(n)] = True   # reported here, not again by R1
    return dead


def interface_completeness(pm, ctx, irf):
    # receivers: field data types (everything but Void at top level, but Void
    # can sit under Nullable/Alias -> use the whole universe) for check /
    # check_example; route-attribute field types for check_attr_repr
    for meth, universe, why in (
            ('check', irf.universe(), 'field.data_type.check(default) in _populate_field_defaults '
                                      'accepts any field type'),
            ('check_example', irf.universe(), 'examples may be given for any field type'),
            ('check_attr_repr', irf.universe() - {'Struct'},
             'stone_cfg.Route fields may have any type; Struct.check_attr_repr is the schema '
             'entry point itself')):
        for c in sorted(universe):
            m = pm.lookup_method(irf.classes[c], meth)
            bare = m is not None and len(m.node.body) <= 2 and any(
                isinstance(s, ast.Raise) and 'NotImplementedError' in unparse(s)
                for s in m.node.body)
            abstract = m is not None and m.is_abstract
            ctx.check('C03-R3b', m is not None and not bare and not abstract,
                      'ir.%s.%s is implemented' % (c, meth),
                      m.loc if m is not None else irf.classes[c].module.relpath,
                      msg='ir.%s has no usable %s (%s): %s -> %s escapes instead of InvalidSpec'
                          % (c, meth, 'missing' if m is None else 'raise NotImplementedError',
                             why, 'AttributeError' if m is None else 'NotImplementedError'),
                      key='C03-R3b|%s|%s' % (c, meth))


def query_compute(pm, ctx, irf):
    has = pm.func(IRM + '.Union._has_example')
    comp = pm.func(IRM + '.Union._compute_example')
    # classes of the member type for which _has_example(label == tag) answers True
    admitted = None
    pi = path_info(has.node)
    for n in own_nodes(has.node):
        if isinstance(n, ast.Return) and unparse(n.value) == 'True' and \
                any(unparse(e) == 'label == field.name' and pol for e, pol in pi.at(n)):
            admitted = reaching_classes(pm, irf, has, n, 'dt')
    handled = None
    for n in own_nodes(comp.node):
        if isinstance(n, ast.Assert) and 'is_void_type(field.data_type)' in unparse(n.test):
            handled = frozenset({'Void'})
    if admitted is not None and handled is not None:
        extra = sorted(set(admitted) - set(handled))
        ctx.check('C03-R3c', not extra,
                  'Union._has_example admits a tag label only for member types '
                  '_compute_example handles', has.loc,
                  msg='Union._has_example answers True for a tag whose member type is one of %s, '
                      'but the fallback of Union._compute_example asserts the member is Void: '
                      'AssertionError escapes for an example reference to such a tag' % extra,
                  key='C03-R3c|%s|has-vs-compute' % has.qualname)
    else:
        ctx.check('C03-R3c', admitted is not None or handled is None,
                  'Union._has_example / _compute_example shapes recognised', has.loc,
                  msg='could not extract the query/compute class sets',
                  key='C03-R3c|%s|shape' % has.qualname)


def env_typestate(pm, ctx):
    from ..envkinds import EnvKinds
    ek = EnvKinds(pm)
    n = 0
    for f in pm.funcs_in('stone.frontend.ir_generator'):
        bad = {(id(node)): (node, text, op, kinds) for node, text, op, kinds in ek.unsafe_uses(f)}
        for node, expr, op in ek.uses(f):
            if isinstance(expr, ast.Name) and expr.id in ('env', 'env_to_check',
                                                           'annotation_type_env', 'imported_env'):
                continue
            if ek.kinds_at(f, node, expr) is None:
                continue
            n += 1
            where = '%s:%d' % (f.module.relpath, node.lineno)
            if id(node) in bad:
                _, text, op_, kinds = bad[id(node)]
                what = op_[5:] if op_.startswith('attr:') else op_
                ctx.violation('C03-R6', 'C03-R6|%s|%s on %s' % (f.qualname, what, text), where,
                              '%s applies %s to the environment value %s, which may be of kind %s '
                              '(no dominating test excludes them): AttributeError/TypeError '
                              'instead of InvalidSpec' % (f.short, op_, text, kinds[:8]))
            else:
                ctx.ok('C03-R6', '%s: %s on %s' % (f.short, op, unparse(expr)[:40]), where)
        for node, name, kinds in ek.env_name_uses(f):
            n += 1
            ctx.violation('C03-R6', 'C03-R6|%s|container use of %s' % (f.qualname, name),
                          '%s:%d' % (f.module.relpath, node.lineno),
                          '%s uses %s as a namespace environment after rebinding it to an '
                          'environment lookup that may be of kind %s: TypeError instead of '
                          'InvalidSpec' % (f.short, name, kinds[:8]))
    ctx.floor('C03-R6', n, 5, 'kind-sensitive uses of environment values')


def p_error_siblings(pm, ctx):
    sibs = [pm.func(PARSER + '.p_error'), pm.func('stone.cli_helpers.FilterExprParser.p_error')]
    for f in sibs:
        tok = f.params[1]
        handles = False
        for n in own_nodes(f.node):
            if isinstance(n, ast.If) and unparse(n.test) in (tok, '%s is not None' % tok,
                                                             'not %s' % tok, '%s is None' % tok):
                handles = True
        asserts = [n for n in own_nodes(f.node) if isinstance(n, ast.Assert) and
                   tok in unparse(n.test)]
        ctx.check('C03-R4', handles and not asserts,
                  '%s handles a None token (end of input)' % f.short, f.loc,
                  msg='%s asserts its token is not None, but ply calls p_error(None) at '
                      'unexpected end of input (sibling %s handles it): AssertionError escapes'
                      % (f.short, sibs[1].short if f is sibs[0] else sibs[0].short),
                  key='C03-R4|%s|none-token' % f.qualname)

    # the value of the offending token is whatever the lexer produced for it (text, int, float,
    # bool, the null sentinel object): the error reporters may only apply operations every value
    # supports, unless a positive isinstance(<value>, str) test dominates the use
    TOTAL_CALLS = ('repr', 'str', 'format', 'type', 'isinstance', 'id', 'hash', 'bool')
    for f in sibs:
        tok = f.params[1]
        pi = path_info(f.node)
        n_uses = 0
        for n in own_nodes(f.node):
            if not (isinstance(n, ast.Attribute) and n.attr == 'value' and
                    isinstance(n.value, ast.Name) and n.value.id == tok):
                continue
            n_uses += 1
            par = getattr(n, '_parent', None)
            partial = (isinstance(par, ast.Attribute) and par.value is n) or \
                (isinstance(par, ast.Subscript) and par.value is n) or \
                (isinstance(par, ast.BinOp) and not (isinstance(par.op, ast.Mod) and
                                                    par.right is n)) or \
                isinstance(par, ast.UnaryOp) and not isinstance(par.op, ast.Not) or \
                (isinstance(par, ast.Call) and n in par.args and isinstance(par.func, ast.Name) and
                 par.func.id in ('len', 'int', 'float', 'ord', 'iter', 'sorted', 'list'))
            if not partial:
                continue
            is_str = any(pol and isinstance(e, ast.Call) and call_name(e) == 'isinstance' and
                         unparse(e.args[0]) == unparse(n) and
                         unparse(e.args[1]).replace('six.', '') in ('str', 'text_type',
                                                                    'string_types')
                         for e, pol in pi.at(n))
            ctx.check('C03-R4', is_str, '%s applies only total operations to the token value'
                      % f.short, '%s:%d' % (f.module.relpath, n.lineno),
                      msg='%s applies %s to the value of the unexpected token, which is a str only '
                          'for some token kinds (numbers, booleans and the null sentinel are '
                          'objects of other types): AttributeError/TypeError escapes while the '
                          'syntax error is being reported' % (f.short, unparse(par)[:60]),
                      key='C03-R4|%s|token-value' % f.qualname)
        ctx.ok('C03-R4', '%s: %d uses of the token value inspected' % (f.short, n_uses), f.loc)


def parse_result_guard(pm, ctx):
    f = pm.func(PARSER + '.parse')
    pi = path_info(f.node)
    from ..dataflow import defs
    d = defs(f.node)
    res = [nm for nm, vals in d.values.items()
           if any(v is not None and isinstance(v, ast.Call) and call_name(v) == 'parse' and
                  'yacc' in unparse(v.func) for _, v, _ in vals)]
    ok = bool(res)
    for nm in res:
        for n in own_nodes(f.node):
            if isinstance(n, ast.Attribute) and isinstance(n.value, ast.Name) and \
                    n.value.id == nm and isinstance(n.ctx, ast.Load):
                guarded = any((unparse(e) == '%s is None' % nm and not pol) or
                              (unparse(e) == '%s is not None' % nm and pol)
                              for e, pol in pi.at(n)) or \
                    any(isinstance(a, ast.If) and unparse(a.test) == '%s is None' % nm and
                        any(isinstance(b, ast.Assign) and unparse(b.targets[0]) == nm
                            for b in a.body) and a.lineno < n.lineno
                        for a in own_nodes(f.node))
                ok &= guarded
    ctx.check('C03-R4', ok, 'ParserFactory.parse guards the None that yacc.parse returns for an '
              'abandoned parse', f.loc,
              msg='the result of yacc.parse is dereferenced without a None guard (ply returns '
                  'None when it gives up at end of input): AttributeError escapes',
              key='C03-R4|%s|none-result' % f.qualname)


def parser_invariants(pm, ctx):
    """Invariants the generator asserts about AST nodes and the parser must
    establish (the assert itself is an internal invariant, the establishing
    check is the obligation)."""
    f = pm.func(PARSER + '.p_route_version')
    pi = path_info(f.node)
    ok = False
    for n in own_nodes(f.node):
        if isinstance(n, ast.Call) and unparse(n.func) == 'self.errors.append':
            ok = ok or any(pol and isinstance(e, ast.Compare) and unparse(e) in
                           ('p[2] <= 0', 'p[2] < 1') for e, pol in pi.at(n))
    ctx.check('C03-R4', ok, 'p_route_version records an error for a non-positive version (every '
              'use of the production: route definitions and `deprecated by`)', f.loc,
              msg='the route_version production no longer rejects version <= 0: '
                  '`deprecated by r:0` reaches `assert new_route_version` in '
                  '_populate_route_attributes_helper (AssertionError)',
              key='C03-R4|%s|positive-version' % f.qualname)
    g = pm.func(PARSER + '.p_route_deprecation')
    ok = any(isinstance(n, ast.Assign) and unparse(n.value) == '(True, p[3], p[4])'
             for n in own_nodes(g.node)) and \
        any(isinstance(n, ast.Assign) and unparse(n.value) == '(True, None, None)'
            for n in own_nodes(g.node))
    ctx.check('C03-R4', ok, 'p_route_deprecation yields (True, name, version) or (True, None, None)',
              g.loc, msg='the deprecation tuple shape the generator asserts on changed',
              key='C03-R4|%s|shape' % g.qualname)


def invalid_spec_objects(pm, ctx, reach):
    n = 0
    for q, f in sorted(reach.items()):
        for c in own_nodes(f.node):
            if isinstance(c, ast.Call) and call_name(c) == 'InvalidSpec' and \
                    isinstance(c.func, ast.Name):
                n += 1
                star = any(isinstance(a, ast.Starred) for a in c.args)
                nargs = len(c.args) + len(c.keywords)
                msg = c.args[0] if c.args else None
                msg_ok = msg is not None and not (isinstance(msg, ast.Constant) and not msg.value)
                loc_ok = star or nargs >= 2
                ctx.check('C03-R5', msg_ok and loc_ok,
                          '%s: InvalidSpec(%s...) has message and location' % (
                              f.short, unparse(msg)[:30] if msg is not None else ''),
                          '%s:%d' % (f.module.relpath, c.lineno),
                          msg='InvalidSpec constructed without %s' % (
                              'a message' if not msg_ok else 'a line/path location'),
                          key='C03-R5|%s|%s' % (q, unparse(msg)[:40] if msg is not None else ''))
    ctx.floor('C03-R5', n, 100, 'InvalidSpec constructions')
    # specs_to_ir reports the first collected parser error as InvalidSpec
    s2i = pm.func(FE + '.frontend.specs_to_ir')
    pi = path_info(s2i.node)
    rs = [r for r in own_nodes(s2i.node) if isinstance(r, ast.Raise)]
    ok = any(call_name(r.exc) == 'InvalidSpec' and
             [(unparse(e), pol) for e, pol in pi.at(r)] == [('parser.got_errors_parsing()', True)]
             for r in rs if isinstance(r.exc, ast.Call))
    ctx.check('C03-R5', ok, 'specs_to_ir raises InvalidSpec when the parser collected errors',
              s2i.loc, msg='collected lexer/parser errors are no longer raised as InvalidSpec',
              key='C03-R5|%s|parser-errors' % s2i.qualname)
    # lexer errors are merged into the parser's error list
    pp = pm.func(PARSER + '.parse')
    ok = any(isinstance(l, ast.For) and 'self.lexer.errors' in unparse(l.iter) and
             any(isinstance(c, ast.Call) and unparse(c.func) == 'self.errors.insert'
                 for c in ast.walk(l)) for l in own_nodes(pp.node))
    ctx.check('C03-R5', ok, 'lexer errors are merged into the parser errors', pp.loc,
              msg='ParserFactory.parse no longer merges lexer errors',
              key='C03-R5|%s|lexer-errors' % pp.qualname)
    # CLI
    main = pm.func('stone.cli.main')
    calls = [c for c in own_nodes(main.node) if isinstance(c, ast.Call) and
             call_name(c) == 'specs_to_ir']
    ok = False
    if len(calls) == 1:
        for t, part, _ in path_info(main.node).trys_at(calls[0]):
            if part != 'body':
                continue
            for h in t.handlers:
                if h.type is not None and unparse(h.type) == 'InvalidSpec':
                    body = ' ; '.join(unparse(s) for s in h.body)
                    ok = "'{}:{}: error: {}'.format(e.path, e.lineno, e.msg)" in body and \
                        'sys.exit(1)' in body and 'file=sys.stderr' in body
    ctx.check('C03-R5', ok, 'cli.main prints path:line: error: msg and exits 1 on InvalidSpec',
              main.loc, msg='cli.main no longer converts InvalidSpec into the documented '
                            'diagnostic and exit status', key='C03-R5|stone.cli.main|handler')


# ---------------------------------------------------------------------------
# R10-R12: three implicit-raise idioms found after the fifth seeding round (each had a
# failing spec against the real code: F50-F52)

from ..dataflow import defs  # noqa: E402


def ast_field_totality(pm, ctx):
    """R10: the elements of a grammar list whose productions build *different* AST classes
    (`field : ... -> AstField | AstVoidField`) do not all offer the same attributes; every
    read, in the frontend, of an attribute only some of them have must be dominated by a
    class test on the element (or happen in a function all of whose callers did the test)."""
    from .. import grammar
    rule = 'C03-R10'
    ctx.rule(rule, 'elements of a heterogeneous grammar list (field -> AstField | AstVoidField) '
                   'are class-tested before an attribute only some of them have is read')
    g = grammar.spec_grammar(pm)
    astmod = 'stone.frontend.ast'
    yields = {}
    for name, (f, alts) in g['funcs'].items():
        made = set()
        for st in own_nodes(f.node):
            # the class of the production's value: `p[0] = AstX(...)`
            if isinstance(st, ast.Assign) and len(st.targets) == 1 and \
                    isinstance(st.targets[0], ast.Subscript) and \
                    isinstance(st.targets[0].slice, ast.Constant) and \
                    st.targets[0].slice.value == 0 and isinstance(st.value, ast.Call) and \
                    isinstance(st.value.func, ast.Name) and \
                    (astmod + '.' + st.value.func.id) in pm.classes:
                made.add(st.value.func.id)
        for lhs, _ in alts:
            yields.setdefault(lhs, set()).update(made)

    def attrs_of(cname):
        c = pm.cls(astmod + '.' + cname)
        out = set()
        for k in pm.mro(c):
            out.update(k.methods)
            out.update(k.attrs)
            for m in k.methods.values():
                for n in own_nodes(m.node):
                    if isinstance(n, ast.Attribute) and isinstance(n.ctx, ast.Store) and \
                            isinstance(n.value, ast.Name) and n.value.id == 'self':
                        out.add(n.attr)
        return out
    n_inst = 0
    for nt, classes in sorted(yields.items()):
        if len(classes) < 2:
            continue
        table = {c: attrs_of(c) for c in classes}
        partial = set().union(*table.values()) - set.intersection(*table.values())
        partial = {a for a in partial if not a.startswith('__')}
        if not partial:
            continue
        lacking = {a: sorted(c for c in classes if a not in table[c]) for a in partial}
        # every read of a partial attribute in the IR generator
        for f in pm.funcs_in('stone.frontend.ir_generator'):
            pi = None
            for n in own_nodes(f.node):
                if not (isinstance(n, ast.Attribute) and isinstance(n.ctx, ast.Load) and
                        n.attr in partial and isinstance(n.value, ast.Name)):
                    continue
                var = n.value.id
                origin = _element_origin(pm, f, var, n)
                if origin is None:
                    continue
                n_inst += 1
                if pi is None:
                    pi = path_info(f.node)
                tested = _class_tested(pi.at(n), var, lacking[n.attr])
                if not tested and origin == 'param':
                    tested = _callers_test(pm, f, var, lacking[n.attr])
                ctx.check(rule, tested,
                          '%s: %s.%s read only after the element was class-tested' % (
                              f.short, var, n.attr),
                          '%s:%d' % (f.module.relpath, n.lineno),
                          msg='%s reads %s.%s of an element of a %s list, but %s has no such '
                              'attribute and no class test dominates the read: AttributeError, '
                              'not a spec error' % (f.short, var, n.attr, nt,
                                                    '/'.join(lacking[n.attr])),
                          key='%s|%s|%s.%s' % (rule, f.qualname, var, n.attr))
    ctx.floor(rule, n_inst, 2, 'reads of attributes only some list elements have')


LIST_ATTRS = ('fields', 'params')


def _element_origin(pm, f, var, at):
    """'loop' when ``var`` iterates over `<x>.fields` / `<x>.params` of an AST node,
    'param' when it is a parameter that some caller binds to such a loop variable."""
    d = defs(f.node)
    for kind, v, stmt in d.values.get(var, []):
        if kind.startswith('iter') and isinstance(v, ast.Attribute) and v.attr in LIST_ATTRS:
            base = unparse(v.value)
            if base in ('item', 'patched_item', 'existing_item') or base.endswith('_ast_node') \
                    or base.endswith('item'):
                return 'loop'
    if var in d.params and not d.values.get(var):
        for g in pm.funcs_in('stone.frontend.ir_generator'):
            for c in own_nodes(g.node):
                if isinstance(c, ast.Call) and call_name(c) == f.name:
                    idx = [p for p in f.params if p != 'self'].index(var) \
                        if var in f.params else None
                    args = list(c.args)
                    if idx is not None and idx < len(args) and isinstance(args[idx], ast.Name) and \
                            _element_origin(pm, g, args[idx].id, c) == 'loop':
                        return 'param'
    return None


def _class_tested(conds, var, lacking):
    """Some atom on the path excludes every class that lacks the attribute."""
    for e, pol in conds:
        if isinstance(e, ast.Call) and call_name(e) == 'isinstance' and len(e.args) == 2 and \
                unparse(e.args[0]) == var:
            t = e.args[1]
            names = [unparse(x) for x in (t.elts if isinstance(t, ast.Tuple) else [t])]
            if not pol and all(l in names for l in lacking):
                return True
            if pol and not any(l in names for l in lacking):
                return True
    return False


def _callers_test(pm, f, var, lacking):
    sites = []
    for g in pm.funcs_in('stone.frontend.ir_generator'):
        for c in own_nodes(g.node):
            if isinstance(c, ast.Call) and call_name(c) == f.name:
                sites.append((g, c))
    if not sites:
        return False
    idx = [p for p in f.params if p != 'self'].index(var)
    for g, c in sites:
        if idx >= len(c.args) or not isinstance(c.args[idx], ast.Name):
            return False
        if not _class_tested(path_info(g.node).at(c), c.args[idx].id, lacking):
            return False
    return True


def lexer_state_stack(pm, ctx):
    """R11: ply's ``pop_state`` raises IndexError on an empty state stack; a closing token
    the input need not balance must not pop unconditionally."""
    rule = 'C03-R11'
    ctx.rule(rule, 'the lexer pops its state stack only when the stack is known to be non-empty')
    n = 0
    for f in pm.funcs_in('stone.frontend.lexer'):
        pi = None
        for c in own_nodes(f.node):
            if isinstance(c, ast.Call) and isinstance(c.func, ast.Attribute) and \
                    c.func.attr == 'pop_state':
                n += 1
                pi = pi or path_info(f.node)
                guarded = any(pol and 'lexstatestack' in unparse(e) for e, pol in pi.at(c))
                for t, part, k in pi.trys_at(c):
                    if part == 'body' and any(
                            h.type is None or any(x in unparse(h.type) for x in
                                                  ('IndexError', 'LookupError', 'Exception'))
                            for h in t.handlers):
                        guarded = True
                ctx.check(rule, guarded, '%s pops the lexer state only when one was pushed' % f.short,
                          '%s:%d' % (f.module.relpath, c.lineno),
                          msg='%s calls pop_state() unconditionally: a closing token without its '
                              'opening one (a stray `)`) pops an empty stack -> IndexError, not a '
                              'spec error' % f.short, key='%s|%s|pop_state' % (rule, f.qualname))
    ctx.floor(rule, n, 1, 'pop_state calls in the lexer')


def import_self_precondition(pm, ctx):
    """R12: ApiNamespace.add_imported_namespace asserts that a namespace does not import
    itself; every caller must establish that (a comparison of the two names on its path, or a
    lookup of the namespace name in an environment, which never holds the own namespace)."""
    rule = 'C03-R12'
    ctx.rule(rule, 'callers of add_imported_namespace establish its precondition (not the own '
                   'namespace)')
    api = pm.func('stone.ir.api.ApiNamespace.add_imported_namespace')
    has_assert = any(isinstance(n, ast.Assert) and 'self.name' in unparse(n.test)
                     for n in own_nodes(api.node))
    if not has_assert:
        ctx.ok(rule, 'add_imported_namespace no longer asserts on its argument', api.loc)
        return
    n = 0
    for f in list(pm.funcs_in('stone.frontend')) + list(pm.funcs_in('stone.ir')):
        pi = None
        for c in own_nodes(f.node):
            if not (isinstance(c, ast.Call) and call_name(c) == 'add_imported_namespace'):
                continue
            n += 1
            pi = pi or path_info(f.node)
            ok = False
            ns_names = set()
            for a in c.args[:1]:
                for x in ast.walk(a):
                    if isinstance(x, ast.Attribute):
                        ns_names.add(unparse(x))
            for e, pol in pi.at(c):
                t = unparse(e)
                if isinstance(e, ast.Compare) and len(e.ops) == 1 and '.name' in t and (
                        (isinstance(e.ops[0], ast.NotEq) and pol) or
                        (isinstance(e.ops[0], ast.Eq) and not pol)):
                    ok = True       # X.name != namespace.name
                if isinstance(e, ast.Compare) and len(e.ops) == 1 and \
                        isinstance(e.ops[0], (ast.In, ast.NotIn)) and \
                        unparse(e.comparators[0]) == 'env' and \
                        (isinstance(e.ops[0], ast.In) == pol):
                    ok = True       # the namespace name was found in the environment:
                    #                 _add_imports_to_env never binds the own namespace there
            ctx.check(rule, ok, '%s: add_imported_namespace called for a namespace known to differ '
                                'from the importing one' % f.short,
                      '%s:%d' % (f.module.relpath, c.lineno),
                      msg='%s calls add_imported_namespace without establishing that the imported '
                          'namespace is not the importing one: `ns.T` written inside namespace ns '
                          'trips the assertion (AssertionError, not a spec error)' % f.short,
                      key='%s|%s|import-self' % (rule, f.qualname))
    ctx.floor(rule, n, 4, 'calls of add_imported_namespace')


def belief_contradictions(pm, ctx):
    """R13-R15: three contradiction rules (Engler): what one path of a function believes
    about a value, another path of the same function must not ignore (F57-F61)."""
    # R13: a value the function compares with None is not handed, unguarded, to an operation
    # that raises on None (float()/int()/len(), a numeric %-format / {:f} operand)
    ctx.rule('C03-R13', 'a value the function tests against None is not passed unguarded to '
                        'float()/int()/len() or a numeric format')
    n13 = 0
    funcs = list(pm.funcs_in('stone.frontend')) + list(pm.funcs_in('stone.ir'))
    for f in funcs:
        tested = set()
        assigned = set()
        for n in own_nodes(f.node):
            if isinstance(n, ast.Compare) and len(n.ops) == 1 and \
                    isinstance(n.ops[0], (ast.Is, ast.IsNot)) and \
                    isinstance(n.comparators[0], ast.Constant) and n.comparators[0].value is None:
                tested.add(unparse(n.left))
            if isinstance(n, (ast.Attribute, ast.Name)) and isinstance(n.ctx, ast.Store):
                assigned.add(unparse(n))
        if not tested:
            continue
        pi = path_info(f.node)
        for c in own_nodes(f.node):
            uses = []
            if isinstance(c, ast.Call) and isinstance(c.func, ast.Name) and \
                    c.func.id in ('float', 'int', 'len') and c.args:
                uses.append(c.args[0])
            if isinstance(c, ast.Call) and isinstance(c.func, ast.Attribute) and \
                    c.func.attr == 'format' and isinstance(c.func.value, ast.Constant) and \
                    isinstance(c.func.value.value, str):
                import re as _re
                specs = _re.findall(r'\{[^}]*\}', c.func.value.value)
                for spec, a in zip(specs, c.args):
                    if spec.endswith((':f}', ':d}')) or ':.' in spec:
                        uses.append(a)
            if isinstance(c, ast.BinOp) and isinstance(c.op, ast.Mod) and \
                    isinstance(c.left, ast.Constant) and isinstance(c.left.value, str):
                import re as _re
                specs = _re.findall(r'%[-+ #0-9.]*([a-zA-Z%])', c.left.value)
                specs = [x for x in specs if x != '%']
                ops = list(c.right.elts) if isinstance(c.right, ast.Tuple) else [c.right]
                for spec, a in zip(specs, ops):
                    if spec in 'dfeEgGxXo':
                        uses.append(a)
            for a in uses:
                t = unparse(a)
                if t not in tested:
                    continue
                # a value the function itself rebinds after the test is another value
                if t in assigned and not isinstance(a, ast.Name):
                    continue
                n13 += 1
                ok = False
                for e, pol in pi.at(c):
                    if isinstance(e, ast.Compare) and len(e.ops) == 1 and unparse(e.left) == t and \
                            isinstance(e.comparators[0], ast.Constant) and \
                            e.comparators[0].value is None and \
                            (isinstance(e.ops[0], ast.IsNot) == pol):
                        ok = True
                    elif pol and unparse(e) == t:
                        ok = True
                    elif pol and isinstance(e, ast.Call) and call_name(e) == 'isinstance' and \
                            unparse(e.args[0]) == t:
                        ok = True
                    elif pol and isinstance(e, ast.Compare) and any(
                            isinstance(o, (ast.Lt, ast.Gt, ast.LtE, ast.GtE)) for o in e.ops) and \
                            t in [unparse(e.left)] + [unparse(x) for x in e.comparators]:
                        ok = True       # the ordering comparison succeeded: not None
                for tr, part, k in pi.trys_at(c):
                    if part == 'body' and any(h.type is None or 'TypeError' in unparse(h.type) or
                                              unparse(h.type) == 'Exception' for h in tr.handlers):
                        ok = True
                ctx.check('C03-R13', ok, '%s: %s is known not to be None where it is converted / '
                                         'formatted' % (f.short, t),
                          '%s:%d' % (f.module.relpath, c.lineno),
                          msg='%s tests %s against None elsewhere but hands it to %s without that '
                              'test on the path: TypeError for the None case, not a spec error' % (
                                  f.short, t, unparse(c)[:60]),
                          key='C03-R13|%s|%s' % (f.qualname, t))
    ctx.floor('C03-R13', n13, 1, 'None-tested values that reach a conversion or numeric format')
    # R14: `d[k]` chosen by a test that does not imply `k in d`
    ctx.rule('C03-R14', 'a subscript d[k] in the arm of a conditional expression is chosen by '
                        '`k in d` itself, not by a weaker test, when membership is only one '
                        'disjunct of the enclosing condition')
    n14 = 0
    for f in funcs:
        pi = None
        for s in own_nodes(f.node):
            if not (isinstance(s, ast.Subscript) and isinstance(s.ctx, ast.Load)):
                continue
            par = getattr(s, '_parent', None)
            if not (isinstance(par, ast.IfExp) and par.body is s):
                continue
            key = (unparse(s.slice), unparse(s.value))
            pi = pi or path_info(f.node)
            disj = False
            for e, pol in pi.conds.get(id(pi.stmt_containing(s)), ()):
                if pol and isinstance(e, ast.BoolOp) and isinstance(e.op, ast.Or) and any(
                        isinstance(v, ast.Compare) and len(v.ops) == 1 and
                        isinstance(v.ops[0], ast.In) and
                        (unparse(v.left), unparse(v.comparators[0])) == key for v in e.values):
                    disj = True
            if not disj:
                continue
            n14 += 1
            t = par.test
            ok = isinstance(t, ast.Compare) and len(t.ops) == 1 and isinstance(t.ops[0], ast.In) \
                and (unparse(t.left), unparse(t.comparators[0])) == key
            ctx.check('C03-R14', ok, '%s: %s selected by its own membership test' % (
                f.short, unparse(s)), '%s:%d' % (f.module.relpath, s.lineno),
                msg='%s reads %s when `%s` holds, but the path only guarantees `%s in %s` or '
                    'something else: KeyError, not a spec error' % (
                        f.short, unparse(s), unparse(t), key[0], key[1]),
                key='C03-R14|%s|%s' % (f.qualname, unparse(s)))
    ctx.floor('C03-R14', n14, 1, 'subscripts selected inside a membership disjunction')
    # R15: token text is converted to a number only under a ValueError handler
    ctx.rule('C03-R15', 'the lexer converts digit strings with int() only under a ValueError '
                        'handler (the interpreter refuses very long digit strings)')
    n15 = 0
    for f in pm.funcs_in('stone.frontend.lexer'):
        pi = None
        for c in own_nodes(f.node):
            if isinstance(c, ast.Call) and isinstance(c.func, ast.Name) and c.func.id == 'int' and \
                    c.args and 'value' in unparse(c.args[0]):
                n15 += 1
                pi = pi or path_info(f.node)
                ok = any(part == 'body' and any(
                    h.type is None or 'ValueError' in unparse(h.type) or
                    unparse(h.type) == 'Exception' for h in tr.handlers)
                    for tr, part, k in pi.trys_at(c))
                ctx.check('C03-R15', ok, '%s converts the token text under a ValueError handler'
                          % f.short, '%s:%d' % (f.module.relpath, c.lineno),
                          msg='%s calls int() on token text outside a ValueError handler: a digit '
                              'string beyond the interpreter\'s conversion limit raises ValueError, '
                              'not a spec error' % f.short,
                          key='C03-R15|%s|int' % f.qualname)
    ctx.floor('C03-R15', n15, 1, 'int() conversions of token text')
