"""Which object state may a call change?  A small modification-set analysis over the raw
syntax trees, used to decide whether the evaluation of an expression may be moved across
statements (alpha.propagate_new_locals): ``n = x.fields`` followed by a call that assigns
``.fields`` somewhere down the call graph is not ``x.fields`` read after that call.

Resolution is by simple name (every function or method of that name in the repository is a
possible callee, a class name stands for its ``__init__``), so the sets over-approximate.
'*' in a set means "anything": a call of a callable value (parameter, local), an update in place
of a parameter or of an object taken from an attribute, setattr with a computed name.

  mod(f)    attribute names f may assign, delete or update in place, transitively
  reads(a)  attribute names the value of ``x.a`` depends on: a itself and, when a names a
            property (or any function) of the repository, everything its body reads, transitively
"""
import ast
import builtins

MUTATORS = {'append', 'extend', 'add', 'update', 'insert', 'pop', 'remove', 'clear', 'sort',
            'reverse', 'setdefault', 'popitem', 'discard', 'appendleft', 'popleft',
            'difference_update', 'intersection_update', 'symmetric_difference_update',
            '__setitem__', '__delitem__'}
_BUILTINS = set(dir(builtins))


def _own(fn):
    """Nodes of fn without nested function / class bodies (lambdas included: they run when called,
    which the callee's own summary covers only by name -- keep them in)."""
    stack = list(ast.iter_child_nodes(fn))
    while stack:
        n = stack.pop()
        yield n
        if isinstance(n, (ast.FunctionDef, ast.AsyncFunctionDef, ast.ClassDef)):
            continue
        stack.extend(ast.iter_child_nodes(n))


class ModSets:
    def __init__(self, trees):
        self.by_name = {}
        self.classes = {}
        self.imported = set()

        def visit(body, cls):
            for st in body:
                if isinstance(st, (ast.FunctionDef, ast.AsyncFunctionDef)):
                    self.by_name.setdefault(st.name, []).append(st)
                    visit(st.body, None)
                elif isinstance(st, ast.ClassDef):
                    self.classes.setdefault(st.name, []).append(st)
                    visit(st.body, st.name)
                elif isinstance(st, (ast.If, ast.Try, ast.With, ast.For, ast.While)):
                    for fld in ('body', 'orelse', 'finalbody'):
                        visit(getattr(st, fld, []) or [], cls)
                    for h in getattr(st, 'handlers', []):
                        visit(h.body, cls)
                elif isinstance(st, (ast.Import, ast.ImportFrom)):
                    for a in st.names:
                        self.imported.add((a.asname or a.name).split('.')[0])
        for t in trees:
            visit(t.body, None)
        self._direct = {}
        self._mod = {}
        self._reads = {}

    # ------------------------------------------------------------------
    def _aliases(self, fn):
        """{local name: attribute it was taken from | '<param>'}"""
        out = {}
        a = fn.args
        for p in a.posonlyargs + a.args + a.kwonlyargs + [x for x in (a.vararg, a.kwarg) if x]:
            if p.arg not in ('self', 'cls'):
                out[p.arg] = '<param>'
        for n in _own(fn):
            if isinstance(n, ast.Assign) and len(n.targets) == 1 and \
                    isinstance(n.targets[0], ast.Name) and isinstance(n.value, ast.Attribute):
                out.setdefault(n.targets[0].id, n.value.attr)
            elif isinstance(n, (ast.For, ast.comprehension)) and isinstance(n.target, ast.Name):
                it = n.iter
                if isinstance(it, ast.Attribute):
                    out.setdefault(n.target.id, '<element>')
                elif isinstance(it, ast.Name) and out.get(it.id):
                    out.setdefault(n.target.id, '<element>')
        return out

    def direct(self, fn):
        """(attrs modified by fn's own statements, simple names of the calls it makes)"""
        hit = self._direct.get(id(fn))
        if hit is not None:
            return hit
        mods, calls = set(), set()
        alias = self._aliases(fn)
        local_callables = set(alias)
        for n in _own(fn):
            if isinstance(n, ast.Attribute) and isinstance(n.ctx, (ast.Store, ast.Del)):
                if not (fn.name in ('__init__', '__new__') and isinstance(n.value, ast.Name)
                        and n.value.id == 'self'):
                    mods.add(n.attr)
            elif isinstance(n, ast.Subscript) and isinstance(n.ctx, (ast.Store, ast.Del)):
                b = n.value
                if isinstance(b, ast.Attribute):
                    mods.add(b.attr)
                elif isinstance(b, ast.Name) and b.id in alias:
                    mods.add('*' if alias[b.id].startswith('<') else alias[b.id])
            elif isinstance(n, ast.Call):
                f = n.func
                if isinstance(f, ast.Attribute):
                    if f.attr in MUTATORS:
                        b = f.value
                        if isinstance(b, ast.Attribute):
                            mods.add(b.attr)
                        elif isinstance(b, ast.Name) and b.id in alias:
                            mods.add('*' if alias[b.id].startswith('<') else alias[b.id])
                    calls.add(f.attr)
                elif isinstance(f, ast.Name):
                    if f.id in ('setattr', 'delattr') and len(n.args) >= 2:
                        a = n.args[1]
                        mods.add(a.value if isinstance(a, ast.Constant) and
                                 isinstance(a.value, str) else '*')
                    elif f.id in local_callables and f.id not in self.by_name and \
                            f.id not in self.classes:
                        mods.add('*')       # a callable value
                    else:
                        calls.add(f.id)
                else:
                    mods.add('*')           # f()() , table[k]()
        self._direct[id(fn)] = (mods, calls)
        return mods, calls

    def callees(self, name):
        out = list(self.by_name.get(name, ()))
        for c in self.classes.get(name, ()):
            out += [m for m in c.body if isinstance(m, ast.FunctionDef) and
                    m.name in ('__init__', '__new__')]
        return out

    def mod_of_name(self, name):
        """Union of mod(f) over every repository function the simple name may stand for."""
        hit = self._mod.get(name)
        if hit is not None:
            return hit
        seen, out, work = set(), set(), [name]
        while work:
            nm = work.pop()
            if nm in seen:
                continue
            seen.add(nm)
            for fn in self.callees(nm):
                m, calls = self.direct(fn)
                out |= m
                work.extend(calls - seen)
        self._mod[name] = out
        return out

    def mod_of_call(self, call, local_names=()):
        f = call.func
        if isinstance(f, ast.Name):
            if f.id in self.by_name or f.id in self.classes:
                return self.mod_of_name(f.id)
            if f.id in _BUILTINS or f.id in self.imported:
                return set()
            return {'*'}                    # a callable value
        if isinstance(f, ast.Attribute):
            out = set(self.mod_of_name(f.attr))
            if f.attr in MUTATORS:
                b = f.value
                out.add(b.attr if isinstance(b, ast.Attribute) else '<name:%s>' % getattr(
                    b, 'id', '?'))
            return out
        return {'*'}

    # ------------------------------------------------------------------
    def reads(self, attr):
        hit = self._reads.get(attr)
        if hit is not None:
            return hit
        seen, out, work = set(), {attr}, [attr]
        while work:
            nm = work.pop()
            if nm in seen:
                continue
            seen.add(nm)
            for fn in self.by_name.get(nm, ()):
                for n in _own(fn):
                    if isinstance(n, ast.Attribute):
                        out.add(n.attr)
                        if n.attr not in seen:
                            work.append(n.attr)
                    elif isinstance(n, ast.Call) and isinstance(n.func, ast.Name) and \
                            n.func.id not in seen:
                        work.append(n.func.id)
        self._reads[attr] = out
        return out
