"""A1 -- exception-escape analysis (effect analysis over the call graph).

escapes(f) = exception classes that may leave f: explicit raises, asserts
(by policy), library-may-raise facts at call sites and the escapes of resolved
callees, each filtered by the enclosing try/except clauses on the structured
path.  Least fixpoint over the call graph.
"""
import ast

from .model import ClassInfo, dotted, own_nodes, unparse
from .pathcond import path_info

# builtin exception hierarchy (child -> parent), the part this repo touches
BUILTIN_PARENT = {
    'Exception': 'BaseException', 'SystemExit': 'BaseException',
    'KeyboardInterrupt': 'BaseException', 'GeneratorExit': 'BaseException',
    'ArithmeticError': 'Exception', 'OverflowError': 'ArithmeticError',
    'ZeroDivisionError': 'ArithmeticError', 'AssertionError': 'Exception',
    'AttributeError': 'Exception', 'LookupError': 'Exception', 'KeyError': 'LookupError',
    'IndexError': 'LookupError', 'NameError': 'Exception', 'OSError': 'Exception',
    'IOError': 'OSError', 'FileNotFoundError': 'OSError', 'RuntimeError': 'Exception',
    'NotImplementedError': 'RuntimeError', 'RecursionError': 'RuntimeError',
    'TypeError': 'Exception', 'ValueError': 'Exception', 'UnicodeError': 'ValueError',
    'UnicodeDecodeError': 'UnicodeError', 'UnicodeEncodeError': 'UnicodeError',
    'StopIteration': 'Exception', 'ImportError': 'Exception',
    're.error': 'Exception', 'binascii.Error': 'ValueError',
    'json.JSONDecodeError': 'ValueError', 'yacc.YaccError': 'Exception',
    'lex.LexError': 'Exception',
}


class Site:
    __slots__ = ('func', 'node', 'exc', 'kind', 'via')

    def __init__(self, func, node, exc, kind, via=None):
        self.func = func
        self.node = node
        self.exc = exc
        self.kind = kind  # raise | assert | lib | reraise
        self.via = via    # for propagated sites: (call node, callee Site)

    @property
    def where(self):
        return '%s:%d' % (self.func.module.relpath, getattr(self.node, 'lineno', 0))

    def origin(self):
        s = self
        while s.via is not None:
            s = s.via[1]
        return s

    def chain(self):
        out, s = [], self
        while s is not None:
            out.append('%s (%s)' % (s.func.short, s.where))
            s = s.via[1] if s.via else None
        return out


class EscapeAnalysis:
    def __init__(self, pm, cg, functions, lib_raises=None, assert_policy=None,
                 extra_edges=None, narrow=None, absorb=None, skip_call=None,
                 narrow_all_nodes=False):
        """
        functions: dict qualname -> FuncInfo : the functions analysed
        lib_raises: callable(func, call_node) -> iterable of exception names
        assert_policy: callable(func, assert_node) -> bool (counts as raise?)
        extra_edges: callable(func, node) -> list[FuncInfo] extra callees at node
        narrow: callable(func, call_node, candidates) -> candidates
        absorb: callable(func, node) -> set of exception names swallowed at this
                call node (e.g. hasattr swallows AttributeError)
        skip_call: callable(func, call_node) -> bool (edge not followed)
        """
        self.pm = pm
        self.cg = cg
        self.functions = functions
        self.lib_raises = lib_raises or (lambda f, c: ())
        self.assert_policy = assert_policy or (lambda f, a: True)
        self.extra_edges = extra_edges or (lambda f, n: [])
        self.narrow = narrow or (lambda f, c, cands: cands)
        self.absorb = absorb or (lambda f, n: set())
        self.skip_call = skip_call or (lambda f, c: False)
        self.narrow_all_nodes = narrow_all_nodes
        self.parent = dict(BUILTIN_PARENT)
        for c in pm.classes.values():
            # repo exception classes
            chain = pm.mro(c)
            ext = [b for k in chain for b in k.ext_bases]
            if any(b.split('.')[-1] in ('Exception', 'BaseException') or
                   b in self.parent for b in ext):
                par = c.bases[0].name if c.bases else ext[0].split('.')[-1] if ext else 'Exception'
                self.parent.setdefault(c.name, par if par != c.name else 'Exception')
        self.escapes = {q: {} for q in functions}   # q -> {exc: Site}
        self._own = {}
        self.iterations = 0

    # ------------------------------------------------------------------
    def is_sub(self, exc, base):
        cur = exc
        for _ in range(24):
            if cur == base:
                return True
            if cur is None or cur == 'BaseException':
                return False
            cur = self.parent.get(cur, 'Exception')
        return False

    def exc_name(self, module, expr):
        """Canonical exception class name for the operand of raise/except."""
        if expr is None:
            return None
        if isinstance(expr, ast.Call):
            expr = expr.func
        d = dotted(expr)
        if d is None:
            return None
        r = self.pm.resolve_expr(module, expr)
        if isinstance(r, ClassInfo):
            return r.name
        if isinstance(r, tuple) and r[0] == 'external':
            full = r[1]
            for k in self.parent:
                if full == k or full.endswith('.' + k):
                    return k
            return full.split('.')[-1]
        return d if d in self.parent else d.split('.')[-1]

    def handler_types(self, module, handler):
        if handler.type is None:
            return ['BaseException']
        t = handler.type
        elts = t.elts if isinstance(t, ast.Tuple) else [t]
        return [self.exc_name(module, e) for e in elts]

    def caught_by(self, func, node, exc):
        """Is an exception of class ``exc`` raised at ``node`` caught inside
        ``func``?  Returns the handler or None."""
        pi = path_info(func.node)
        for t, part, _ in reversed(pi.trys_at(node)):
            if part != 'body':
                continue
            for h in t.handlers:
                for ht in self.handler_types(func.module, h):
                    if ht is not None and self.is_sub(exc, ht):
                        return h
        return None

    # ------------------------------------------------------------------
    def own_sites(self, func):
        """Explicit sites of ``func`` (before try filtering)."""
        r = self._own.get(func.qualname)
        if r is not None:
            return r
        out = []
        for n in own_nodes(func.node):
            if isinstance(n, ast.Raise):
                if n.exc is None:
                    out.append(Site(func, n, None, 'reraise'))
                else:
                    nm = None
                    if isinstance(n.exc, ast.Name):
                        # ``raise e`` where e is bound by an enclosing handler
                        for p in _parents(n):
                            if isinstance(p, ast.ExceptHandler) and p.name == n.exc.id:
                                ts = self.handler_types(func.module, p)
                                nm = ts[0] if ts else None
                                break
                    names = []
                    if nm is None and isinstance(n.exc, ast.Call) and self.cg is not None:
                        # ``raise helper(...)``: the classes the helper returns
                        for callee in self.cg.resolve_call(func, n.exc):
                            if callee.name == '__init__':
                                continue
                            for r in own_nodes(callee.node):
                                if isinstance(r, ast.Return) and r.value is not None:
                                    x = self.exc_name(callee.module, r.value)
                                    if x and x not in names:
                                        names.append(x)
                    if names:
                        for x in names:
                            out.append(Site(func, n, x, 'raise'))
                        continue
                    if nm is None:
                        nm = self.exc_name(func.module, n.exc)
                    out.append(Site(func, n, nm or '?', 'raise'))
            elif isinstance(n, ast.Assert):
                if self.assert_policy(func, n):
                    out.append(Site(func, n, 'AssertionError', 'assert'))
            elif isinstance(n, ast.Call):
                for exc in self.lib_raises(func, n) or ():
                    out.append(Site(func, n, exc, 'lib'))
        self._own[func.qualname] = out
        return out

    def _call_edges(self, func):
        edges = []
        for node, callee in self.cg.callees(func):
            if isinstance(node, ast.Call) and self.skip_call(func, node):
                continue
            edges.append((node, callee))
        # narrowing per call node
        by_node = {}
        for node, callee in edges:
            by_node.setdefault(id(node), (node, []))[1].append(callee)
        out = []
        for node, cands in by_node.values():
            if isinstance(node, ast.Call) or self.narrow_all_nodes:
                cands = self.narrow(func, node, cands)
            for c in cands:
                out.append((node, c))
        for n in own_nodes(func.node):
            for c in self.extra_edges(func, n) or ():
                out.append((n, c))
        return out

    def run(self, max_iter=50):
        edges = {q: self._call_edges(f) for q, f in self.functions.items()}
        changed = True
        while changed and self.iterations < max_iter:
            changed = False
            self.iterations += 1
            for q, f in self.functions.items():
                cur = self.escapes[q]
                pi = path_info(f.node)

                def add(site):
                    nonlocal changed
                    if site.exc not in cur:
                        cur[site.exc] = site
                        changed = True

                body_raises = {}   # id(Try) -> set of excs arriving at handlers

                def deliver(site, node):
                    """Propagate an exception raised at node outwards."""
                    exc = site.exc
                    h = self.caught_by(f, node, exc)
                    if h is None:
                        add(site)
                    else:
                        body_raises.setdefault(id(h), {})[exc] = site

                for s in self.own_sites(f):
                    if s.kind == 'reraise':
                        continue
                    deliver(s, s.node)
                for node, callee in edges[q]:
                    if callee.qualname not in self.escapes:
                        continue
                    absorbed = self.absorb(f, node)
                    for exc, cs in list(self.escapes[callee.qualname].items()):
                        if any(self.is_sub(exc, a) for a in absorbed):
                            continue
                        deliver(Site(f, node, exc, cs.kind, via=(node, cs)), node)
                # bare re-raise: whatever reached the handler leaves again
                for s in self.own_sites(f):
                    if s.kind != 'reraise':
                        continue
                    h = next((p for p in _parents(s.node)
                              if isinstance(p, ast.ExceptHandler)), None)
                    if h is None:
                        continue
                    for exc, src in body_raises.get(id(h), {}).items():
                        deliver(Site(f, s.node, exc, 'reraise', via=(s.node, src)), s.node)
        return self.escapes


def _parents(node):
    n = getattr(node, '_parent', None)
    while n is not None:
        yield n
        n = getattr(n, '_parent', None)
