"""C18 -- backends write only inside the output folder, verbatim, as the
manifest says.  Structural part (DESIGN 4/C18): every file-system write sink
is dominated by the containment validation and the manifest early-exit on the
same path value; the containment predicate; buffer ownership and escaping;
symmetric indentation contexts; manifest listing sorted and printed as is.
"""
import ast

from ..dataflow import defs
from ..model import call_name, dotted, own_nodes, unparse
from ..model import returns_text
from ..pathcond import assigned_alternatives, path_info, truth_table
from ..paths import enumerate_paths, path_calls

PROP = 'C18'
B = 'stone.backend'
EXPLANATION = (
    'Sink/guard analysis of the output layer. R1: every write sink under stone/ (open in a '
    'write/append mode, shutil.copy/copyfile/move, os.mkdir/makedirs, shutil.rmtree, os.remove/'
    'rename) is one of the audited sinks, and on every enumerated path to a content-writing sink '
    'the written path (or the value its directory was derived from) was passed to '
    '_validate_output_path first; directory sinks take the root or the root joined with a '
    'literal free of `..`; _relative_output_path raises exactly when the relative path is `..`, '
    'starts with `../` or is absolute, computed from abspath of both operands; for shutil.copy '
    'the validated expression equals the library model of the effective destination. R2: every '
    'content-writing sink is also dominated by the _record_output_path early exit on the same '
    'path; OutputManifest.outputs and cli._actual_outputs return globally sorted lists; cli.main '
    'prints exactly the compiler\'s manifest. R3: self.output is appended only by '
    '_append_output, called only by emit_raw (after escaping both braces) and emit_placeholder; '
    'emit is indent + text + newline through emit_raw; the buffer is rendered by one str.format '
    'with the registered placeholders; emit_wrapped_text forwards each wrapping option to the '
    'like-named textwrap.fill parameter. R4: indent/block restore cur_indent symmetrically. '
    'Decides these structural parts; word order of wrapped text is textwrap\'s.'
    ' RD (effect-condition drift, stonelint.effects): for the functions this property is anchored in (stonelint.ownership) the path formula of every raise / return / continue / break / assignment / call statement is compared with reference/effects.json by truth table over the leaf tests (so nested vs merged tests, guard clauses vs if/else ladders, De Morgan forms read alike); an effect lost on a path, or a control effect gained on one, is a violation; changed texts and re-spelled tests are not claimed.'
    " RE (expression drift, stonelint.exprdrift): the same functions' attribute names, variable reads, simple statements, calls and arithmetic/slice literals are compared with reference/expressions.json; a substituted attribute or variable, a dropped call or assignment, swapped arguments or a changed literal is a violation; any other edit is not claimed. RC (call-condition drift, stonelint.effects.run_calls): for every call of a repository or imported-library function in those functions, the path conditions of its occurrences are compared with reference/effects.json by truth table; an assignment under which the function used to make the call and now completes without it is a violation (tests on memo tables, emptiness of the iterated collection and earlier refusals excepted; re-spelled conditions are not claimed). MK (memo-key rule, stonelint.memo): a memo table or done-set the reference tree does not have must be keyed by every access path the skipped code reads, injectively and type-aware."
    ' RI (interface drift, stonelint.interface): constants and tables (folded values), compiled regular expressions (witness text), parameter defaults, special methods, base classes and caching decorators of the modules the property rests on are compared with reference/interface.json; only a concrete difference in what is computed is reported.'
    ' MU (mutation drift, stonelint.mutation): the functions the property rests on update in place only the caller-owned, class-level and module-level objects they updated on the confirmed tree, and have no new handler that swallows an exception (reference/mutations.json).')
ASSUMPTIONS = [
    'library model: shutil.copy(src, dst) writes to join(dst, basename(src)) when dst is a '
    'directory, else to dst; os.path.relpath/abspath normalise `..` segments lexically',
    'Compiler passes its build_path to backends as target_folder_path (checked)',
]

WRITE_CALLS = {'shutil.copy', 'shutil.copy2', 'shutil.copyfile', 'shutil.move', 'shutil.copytree',
               'os.mkdir', 'os.makedirs', 'shutil.rmtree', 'os.remove', 'os.unlink', 'os.rename',
               'os.replace', 'os.rmdir'}
# audited sinks: (function qualname, sink text prefix) -> kind
AUDITED = {
    ('stone.backend.Backend.output_to_relative_path', 'os.makedirs'): 'dir',
    ('stone.backend.Backend.output_to_relative_path', 'open'): 'content',
    ('stone.backend.Backend.copy_to_path', 'shutil.copy'): 'content',
    ('stone.compiler.Compiler.__init__', 'shutil.rmtree'): 'root',
    ('stone.compiler.Compiler._mkdir', 'os.makedirs'): 'root',
    ('stone.backends.obj_c_types.ObjCTypesBackend.generate', 'os.makedirs'): 'dir',
    ('stone.backends.swift.SwiftBaseBackend._write_output_in_target_folder', 'os.mkdir'): 'root',
    ('stone.backends.swift.SwiftBaseBackend._write_output_in_target_folder', 'open'): 'content',
}


def _is_write_open(call):
    if not (isinstance(call.func, ast.Name) and call.func.id == 'open'):
        return False
    mode = None
    if len(call.args) > 1:
        mode = call.args[1]
    for k in call.keywords:
        if k.arg == 'mode':
            mode = k.value
    if mode is None:
        return False
    if isinstance(mode, ast.Constant) and isinstance(mode.value, str):
        return any(c in mode.value for c in 'wax+')
    return True   # computed mode: may write


def multiline_list_text(pm, ctx):
    """generate_multiline_list emits every piece of text it is given: on every
    path the `before` and `after` strings reach an emit, unless the path has
    established that the string is empty."""
    from ..paths import enumerate_paths
    f = pm.func(B + '.CodeBackend.generate_multiline_list')
    nested_emits = {}
    for nm, g in f.nested.items():
        nested_emits[nm] = [c.args[0] for c in own_nodes(g.node) if isinstance(c, ast.Call) and
                            call_name(c) == 'emit' and c.args]
    bad = []
    n_paths = 0
    for p in enumerate_paths(f.node, max_paths=20000):
        if p.end == 'raise':
            continue
        n_paths += 1
        emitted = set()
        for st in p.stmts:
            for c in ast.walk(st) if not isinstance(st, (ast.If, ast.For, ast.While, ast.With,
                                                        ast.FunctionDef)) else []:
                if isinstance(c, ast.Call) and call_name(c) == 'emit' and c.args:
                    emitted |= {x.id for x in ast.walk(c.args[0]) if isinstance(x, ast.Name)}
                elif isinstance(c, ast.Call) and isinstance(c.func, ast.Name) and \
                        c.func.id in nested_emits:
                    for a in nested_emits[c.func.id]:
                        emitted |= {x.id for x in ast.walk(a) if isinstance(x, ast.Name)}
        for prm in ('before', 'after'):
            if prm in emitted:
                continue
            known_empty = any((not pol) and any(isinstance(x, ast.Name) and x.id == prm
                                                for x in ast.walk(e)) and
                              not any(isinstance(x, ast.Compare) for x in ast.walk(e))
                              for e, pol in p.atoms)
            if not known_empty:
                bad.append((prm, p.end_node.lineno if p.end_node is not None else f.node.end_lineno))
    ctx.check('C18-R3', n_paths >= 6 and not bad,
              'generate_multiline_list emits `before` and `after` on every path (%d paths)'
              % n_paths, f.loc,
              msg='generate_multiline_list has a path on which %s is neither emitted nor known '
                  'to be empty: text given to the backend interface is dropped'
                  % sorted({b[0] for b in bad}),
              key='C18-R3|%s|text' % f.qualname)


def run(pm, ctx):
    for r, t in (('C18-R1', 'write sinks are audited and dominated by containment validation'),
                 ('C18-R2', 'manifest early-exit dominates content sinks; listings sorted'),
                 ('C18-R3', 'buffer ownership, escaping, placeholder rendering, wrapping options'),
                 ('C18-R4', 'indentation contexts restore symmetrically')):
        ctx.rule(r, t)

    # ---------------- R1 sinks
    n_sinks = 0
    for f in pm.funcs_in('stone'):
        if f.module.name.startswith('stone.backends.python_rsrc'):
            continue
        for c in own_nodes(f.node):
            if not isinstance(c, ast.Call):
                continue
            d = dotted(c.func)
            is_sink = d in WRITE_CALLS or _is_write_open(c)
            if not is_sink:
                continue
            n_sinks += 1
            key = (f.qualname, d if d else 'open')
            kind = AUDITED.get(key)
            where = '%s:%d' % (f.module.relpath, c.lineno)
            if not ctx.check('C18-R1', kind is not None,
                             '%s: %s(...) is an audited write sink' % (f.short, d), where,
                             msg='%s writes to the file system with %s outside the audited output '
                                 'layer: nothing validates that the path stays inside the output '
                                 'folder or records it in the manifest' % (f.short, d),
                             key='C18-R1|%s|unaudited %s' % (f.qualname, d)):
                continue
            _check_sink(pm, ctx, f, c, d, kind)
    ctx.floor('C18-R1', n_sinks, 8, 'write sinks under stone/')

    rop = pm.func(B + '._relative_output_path')
    dd = defs(rop.node)
    pi = path_info(rop.node)
    raises = [n for n in own_nodes(rop.node) if isinstance(n, ast.Raise)]
    ok = False
    if len(raises) == 1:
        from ..profiles import controlling_test
        ct = controlling_test(raises[0])
        if ct and ct[1]:
            def k(e):
                t = unparse(e)
                if t == 'relative_path == os.pardir':
                    return 'is-pardir'
                if t == 'relative_path.startswith(os.pardir + os.sep)':
                    return 'under-pardir'
                if t == 'os.path.isabs(relative_path)':
                    return 'absolute'
                return ('other', t)
            keys, tab = truth_table(ct[0], k)
            ok = keys == ['absolute', 'is-pardir', 'under-pardir'] and \
                all(v == any(env) for env, v in tab.items())
    ctx.check('C18-R1', ok, '_relative_output_path raises iff relpath is `..`, under `../` or '
              'absolute', rop.loc,
              msg='the containment predicate of _relative_output_path changed',
              key='C18-R1|%s|predicate' % rop.qualname)
    vals = {n: [unparse(v) for v in dd.all_values(n)] for n in
            ('root_path', 'full_path', 'relative_path')}
    ctx.check('C18-R1', vals == {'root_path': ['os.path.abspath(output_root)'],
                                 'full_path': ['os.path.abspath(output_path)'],
                                 'relative_path': ['os.path.relpath(full_path, root_path)']},
              'containment compares normalised absolute paths component-wise (relpath)', rop.loc,
              msg='_relative_output_path computes its operands as %s' % vals,
              key='C18-R1|%s|operands' % rop.qualname)
    vop = pm.func(B + '.Backend._validate_output_path')
    ctx.check('C18-R1', any(isinstance(c, ast.Call) and unparse(c) ==
                            '_relative_output_path(self.target_folder_path, output_path)'
                            for c in own_nodes(vop.node)),
              '_validate_output_path checks against the backend\'s target folder', vop.loc,
              msg='_validate_output_path no longer checks against target_folder_path',
              key='C18-R1|%s' % vop.qualname)
    comp = pm.func('stone.compiler.Compiler._execute_backend_on_spec')
    ctx.check('C18-R1', any(isinstance(c, ast.Call) and
                            [unparse(a) for a in c.args][:1] == ['self.build_path'] and
                            unparse(c.func) == 'attr_value' for c in own_nodes(comp.node)),
              'the compiler hands its build_path to the backend as target folder', comp.loc,
              msg='backends are no longer constructed with the compiler\'s build_path',
              key='C18-R1|%s' % comp.qualname)

    # ---------------- R2
    # manifest mode differs from a real run only inside _record_output_path: nothing else
    # reads the backend's output_manifest attribute (a backend that branched on it could
    # compute other paths than it writes)
    readers = sorted({f.short for f in pm.functions.values()
                      if f.module.name.startswith('stone.backend') or
                      f.module.name.startswith('stone.backends.')
                      for n in own_nodes(f.node)
                      if isinstance(n, ast.Attribute) and n.attr == 'output_manifest' and
                      isinstance(n.ctx, ast.Load) and 'python_rsrc' not in f.module.name})
    ctx.check('C18-R2', readers == ['backend.Backend._record_output_path'],
              'only Backend._record_output_path reads output_manifest', B.replace('.', '/') +
              '.py', msg='output_manifest is read by %s: a manifest run takes different paths '
                         'than a real run there, so the manifest no longer lists what is written'
                         % readers, key='C18-R2|manifest-readers')
    om = pm.func(B + '.OutputManifest.outputs')
    ctx.check('C18-R2', returns_text(om.node) == 'sorted(self._outputs)', 'OutputManifest.outputs is sorted', om.loc,
              msg='the manifest listing is no longer sorted', key='C18-R2|%s' % om.qualname)
    ao = pm.func('stone.cli._actual_outputs')
    rets = [r for r in own_nodes(ao.node) if isinstance(r, ast.Return)]
    ok = len(rets) == 1 and isinstance(rets[0].value, ast.Call) and \
        call_name(rets[0].value) == 'sorted' and unparse(rets[0].value.args[0]) == 'outputs' and \
        not rets[0].value.keywords
    ctx.check('C18-R2', ok, 'cli._actual_outputs returns the globally sorted list of files',
              ao.loc, msg='_actual_outputs no longer sorts the whole listing (os.walk order '
                          'differs from the manifest\'s sorted order)', key='C18-R2|%s' % ao.qualname)
    rel = [c for c in own_nodes(ao.node) if isinstance(c, ast.Call) and
           dotted(c.func) == 'os.path.relpath']
    ctx.check('C18-R2', len(rel) == 1 and [unparse(a) for a in rel[0].args] ==
              ['output_path', 'output_root'], '_actual_outputs lists paths relative to the root',
              ao.loc, msg='_actual_outputs paths are not relative to the output root',
              key='C18-R2|%s|relative' % ao.qualname)
    ao2 = pm.func(B + '.OutputManifest.add_output')
    ctx.check('C18-R2', any(isinstance(c, ast.Call) and unparse(c) ==
                            'self._outputs.add(_relative_output_path(output_root, output_path))'
                            for c in own_nodes(ao2.node)),
              'the manifest records the validated relative path', ao2.loc,
              msg='add_output no longer records _relative_output_path(root, path)',
              key='C18-R2|%s' % ao2.qualname)
    rec = pm.func(B + '.Backend._record_output_path')
    pi = path_info(rec.node)
    rets = {unparse(r.value): [(unparse(e), p) for e, p in pi.at(r)]
            for r in own_nodes(rec.node) if isinstance(r, ast.Return)}
    ctx.check('C18-R2', rets.get('False') == [('self.output_manifest is None', True)] and
              'True' in rets and any(isinstance(c, ast.Call) and unparse(c) ==
                                     'self.output_manifest.add_output(self.target_folder_path, '
                                     'output_path)' for c in own_nodes(rec.node)),
              '_record_output_path records and returns True exactly in manifest mode', rec.loc,
              msg='_record_output_path changed: %s' % rets, key='C18-R2|%s' % rec.qualname)
    main = pm.func('stone.cli.main')
    dm = defs(main.node)
    am = [unparse(leaf) for leaf, _st in assigned_alternatives(main.node, 'actual_manifest')]
    pr = [c for c in own_nodes(main.node) if isinstance(c, ast.Call) and call_name(c) == 'print'
          and c.args and 'json.dumps(actual_manifest' in unparse(c.args[0])]
    ctx.check('C18-R2', sorted(am) == sorted(['c.output_manifest()', '_actual_outputs(args.output)',
                                              'None']) and len(pr) == 1,
              'cli prints exactly the compiler\'s manifest', main.loc,
              msg='the printed manifest is computed as %s' % am, key='C18-R2|cli-print')
    cm = pm.func('stone.compiler.Compiler.output_manifest')
    ctx.check('C18-R2', any(isinstance(r, ast.Return) and unparse(r.value) ==
                            'self._output_manifest.outputs()' for r in own_nodes(cm.node)),
              'Compiler.output_manifest returns the recorded listing', cm.loc,
              msg='Compiler.output_manifest no longer returns the recorded listing',
              key='C18-R2|%s' % cm.qualname)
    ctx.check('C18-R2', any(isinstance(n, ast.Assign) and unparse(n) ==
                            'backend.output_manifest = self._output_manifest'
                            for n in own_nodes(comp.node)),
              'every backend instance shares the compiler\'s manifest', comp.loc,
              msg='backends no longer receive the compiler\'s manifest',
              key='C18-R2|%s|shared' % comp.qualname)
    vm = pm.func('stone.cli._validate_expected_output_manifest')
    ctx.check('C18-R2', any(isinstance(n, ast.If) and unparse(n.test) == 'actual == expected'
                            for n in own_nodes(vm.node)) and
              any(isinstance(c, ast.Call) and unparse(c) == 'sys.exit(1)'
                  for c in own_nodes(vm.node)),
              'expected-manifest validation compares the lists and exits 1 on mismatch', vm.loc,
              msg='expected-manifest validation changed', key='C18-R2|%s' % vm.qualname)

    # ---------------- R3
    bcls = pm.cls(B + '.Backend')
    n_w = 0
    for f in pm.funcs_in('stone'):
        for n in own_nodes(f.node):
            writes = False
            if isinstance(n, ast.Call) and isinstance(n.func, ast.Attribute) and \
                    n.func.attr in ('append', 'extend', 'insert') and \
                    unparse(n.func.value) == 'self.output':
                writes = True
            if isinstance(n, ast.AugAssign) and unparse(n.target) == 'self.output':
                writes = True
            if writes:
                n_w += 1
                ctx.check('C18-R3', f.qualname == B + '.Backend._append_output',
                          '%s appends to the output buffer' % f.short,
                          '%s:%d' % (f.module.relpath, n.lineno),
                          msg='%s appends to self.output directly, bypassing brace escaping'
                              % f.short, key='C18-R3|%s|direct-append' % f.qualname)
    callers = {}
    for f in pm.funcs_in('stone'):
        for c in own_nodes(f.node):
            if isinstance(c, ast.Call) and call_name(c) == '_append_output':
                callers.setdefault(f.qualname, []).append(c)
    ctx.check('C18-R3', set(callers) == {B + '.Backend.emit_raw', B + '.Backend.emit_placeholder'},
              '_append_output is called only by emit_raw and emit_placeholder', bcls.module.relpath,
              msg='_append_output is called by %s' % sorted(callers), key='C18-R3|callers')
    er = pm.func(B + '.Backend.emit_raw')
    ap = callers.get(er.qualname, [])
    ok = len(ap) == 1 and unparse(ap[0].args[0]) in (
        "s.replace('{', '{{').replace('}', '}}')", "s.replace('}', '}}').replace('{', '{{')")
    ctx.check('C18-R3', ok, 'emit_raw escapes both braces before buffering', er.loc,
              msg='emit_raw buffers %s: text containing braces would be corrupted by the final '
                  'str.format' % (unparse(ap[0].args[0]) if ap else '?'),
              key='C18-R3|%s|escape' % er.qualname)
    ctx.check('C18-R3', any(isinstance(n, ast.AugAssign) and unparse(n) ==
                            "self.lineno += s.count('\\n')" for n in own_nodes(er.node)),
              'emit_raw keeps the line counter', er.loc, msg='emit_raw no longer counts lines',
              key='C18-R3|%s|lineno' % er.qualname)
    ep = pm.func(B + '.Backend.emit_placeholder')
    ap = callers.get(ep.qualname, [])
    ctx.check('C18-R3', len(ap) == 1 and unparse(ap[0].args[0]) == "'{{{}}}'.format(s)",
              'emit_placeholder buffers a single replacement field', ep.loc,
              msg='emit_placeholder buffers %s' % (unparse(ap[0].args[0]) if ap else '?'),
              key='C18-R3|%s' % ep.qualname)
    em = pm.func(B + '.Backend.emit')
    calls = [unparse(c) for c in own_nodes(em.node) if isinstance(c, ast.Call) and
             call_name(c) == 'emit_raw']
    ctx.check('C18-R3', sorted(calls) == sorted(["self.emit_raw('{}{}\\n'.format("
                                                 "self.make_indent(), s))", "self.emit_raw('\\n')"]),
              'emit = indent + text + newline through emit_raw (empty line unindented)', em.loc,
              msg='emit now calls %s' % calls, key='C18-R3|%s' % em.qualname)
    ob = pm.func(B + '.Backend.output_buffer_to_string')
    ctx.check('C18-R3', len([s for s in ob.node.body if isinstance(s, ast.Return)]) == 1 and
              unparse([s for s in ob.node.body if isinstance(s, ast.Return)][0].value) ==
              "''.join(self.output).format(*self.positional_placeholders, "
              "**self.named_placeholders)",
              'the buffer is rendered by one format() with the registered placeholders', ob.loc,
              msg='output_buffer_to_string changed', key='C18-R3|%s' % ob.qualname)
    otp = pm.func(B + '.Backend.output_to_relative_path')
    ctx.check('C18-R3', any(isinstance(c, ast.Call) and unparse(c) ==
                            "f.write(self.output_buffer_to_string().encode('utf-8'))"
                            for c in own_nodes(otp.node)),
              'the file receives the rendered buffer as UTF-8', otp.loc,
              msg='the written bytes are no longer the UTF-8 of the rendered buffer',
              key='C18-R3|%s|utf8' % otp.qualname)
    ew = pm.func(B + '.Backend.emit_wrapped_text')
    fill = [c for c in own_nodes(ew.node) if isinstance(c, ast.Call) and
            dotted(c.func) == 'textwrap.fill']
    kws = {k.arg: unparse(k.value) for k in fill[0].keywords} if len(fill) == 1 else {}
    ctx.check('C18-R3', kws == {'initial_indent': 'prefix + initial_prefix',
                                'subsequent_indent': 'prefix + subsequent_prefix',
                                'width': 'width', 'break_long_words': 'break_long_words',
                                'break_on_hyphens': 'break_on_hyphens'} and
              len(fill) == 1 and unparse(fill[0].args[0]) == 's',
              'emit_wrapped_text forwards each option to the like-named textwrap.fill parameter',
              ew.loc, msg='emit_wrapped_text forwards %s' % kws, key='C18-R3|%s' % ew.qualname)
    d_ew = defs(ew.node)
    ctx.check('C18-R3', [unparse(v) for v in d_ew.all_values('prefix')] == ['indent + prefix'] and
              [unparse(v) for v in d_ew.all_values('indent')] == ['self.make_indent()'],
              'wrapped lines are prefixed by the current indentation', ew.loc,
              msg='emit_wrapped_text no longer prefixes the current indentation',
              key='C18-R3|%s|indent' % ew.qualname)

    # ---------------- R4
    ind = pm.func(B + '.Backend.indent')
    body = [unparse(s) for s in ind.node.body]
    try:
        i1, iy, i2 = body.index('self.cur_indent += dent'), body.index('yield'), \
            body.index('self.cur_indent -= dent')
    except ValueError:
        i1 = iy = i2 = -1
    ctx.check('C18-R4', 0 <= i1 < iy < i2, 'indent(): += dent, yield, -= dent', ind.loc,
              msg='indent() no longer restores cur_indent symmetrically',
              key='C18-R4|%s' % ind.qualname)
    blk = pm.func(B + '.CodeBackend.block')
    w = [n for n in own_nodes(blk.node) if isinstance(n, ast.With)]
    ok = len(w) == 1 and unparse(w[0].items[0].context_expr) == 'self.indent(dent)' and \
        any(isinstance(s, ast.Expr) and isinstance(s.value, ast.Yield) for s in w[0].body)
    after = [unparse(s) for s in blk.node.body[blk.node.body.index(w[0]) + 1:]] if ok else []
    ctx.check('C18-R4', ok and any('self.emit(delim[1] + after)' in a for a in after),
              'block(): opening line, indented body, closing line', blk.loc,
              msg='block() no longer brackets an indented body', key='C18-R4|%s' % blk.qualname)
    mi = pm.func(B + '.Backend.make_indent')
    # the indentation text is (' ' | '\t') * self.cur_indent, the tab chosen exactly under
    # self.tabs_for_indents -- wherever in the function the product is formed (returned
    # directly, through a local or through a correctly keyed table)
    from ..pathcond import ifexp_leaves
    pim = path_info(mi.node)
    chars, counts_ok = {}, True
    for n in own_nodes(mi.node):
        if isinstance(n, ast.BinOp) and isinstance(n.op, ast.Mult):
            sides = [n.left, n.right]
            strs = [x for x in sides if any(isinstance(l, ast.Constant) and isinstance(l.value, str)
                                            for l in ifexp_leaves(x))]
            other = [x for x in sides if x not in strs]
            if len(strs) != 1 or len(other) != 1 or unparse(other[0]) != 'self.cur_indent':
                counts_ok = False
                continue
            for leaf in ifexp_leaves(strs[0]):
                if not (isinstance(leaf, ast.Constant) and isinstance(leaf.value, str)):
                    counts_ok = False
                    continue
                pol = [pl for e, pl in pim.at(leaf) if unparse(e) == 'self.tabs_for_indents']
                chars.setdefault(leaf.value, set()).update(pol or [None])
    rets = sorted('%r under tabs_for_indents=%s' % (c, sorted(map(str, p))) for c, p in chars.items())
    ctx.check('C18-R4', counts_ok and chars == {' ': {False}, '\t': {True}},
              'make_indent renders cur_indent in spaces or tabs', mi.loc,
              msg='make_indent renders %s' % rets, key='C18-R4|%s' % mi.qualname)
    gml = pm.func(B + '.CodeBackend.generate_multiline_list')
    ws = [unparse(n.items[0].context_expr) for n in own_nodes(gml.node) if isinstance(n, ast.With)]
    ctx.check('C18-R4', sorted(ws) == sorted(['self.indent(len(before) + len(delim[0]))',
                                              'self.indent()']),
              'generate_multiline_list indents continuation lines through indent()', gml.loc,
              msg='generate_multiline_list indentation changed: %s' % ws,
              key='C18-R4|%s' % gml.qualname)

    multiline_list_text(pm, ctx)

    from ..effects import run_decisions
    from ..ownership import OWN
    run_decisions(pm, ctx, 'C18-RD', OWN['C18'])
    from .. import exprdrift
    exprdrift.run(pm, ctx, 'C18-RE', OWN['C18'])
    from ..effects import run_calls
    run_calls(pm, ctx, 'C18-RC', OWN['C18'])
    from .. import memo
    memo.run(pm, ctx, 'C18-MK', OWN['C18'])
    from .. import interface
    interface.run(pm, ctx, 'C18-RI', OWN['C18'])
    from .. import mutation
    mutation.run(pm, ctx, 'C18-MU', OWN['C18'])


def _check_sink(pm, ctx, f, call, d, kind):
    where = '%s:%d' % (f.module.relpath, call.lineno)
    from ..model import stmt_of
    st = stmt_of(call)
    arg = call.args[1] if d in ('shutil.copy', 'shutil.copy2', 'shutil.copyfile') and \
        len(call.args) > 1 else (call.args[0] if call.args else None)
    dd = defs(f.node)
    if kind == 'root':
        ok = arg is not None and (unparse(arg) in ('self.build_path', 'path', 'full_path'))
        if isinstance(arg, ast.Name):
            srcs = [unparse(v) for v in dd.all_values(arg.id)]
            if arg.id == 'path' and f.name == '_mkdir':
                # Compiler.build calls _mkdir(self.build_path)
                b = pm.func('stone.compiler.Compiler.build')
                ok = any(isinstance(c, ast.Call) and unparse(c) ==
                         'Compiler._mkdir(self.build_path)' for c in own_nodes(b.node))
            elif arg.id == 'full_path':
                # the value at the sink is the first binding (the root) -- the
                # join with the file name happens after it
                first = [s for k, v, s in dd.values.get('full_path', [])]
                ok = bool(first) and unparse(dd.values['full_path'][0][1]) == \
                    'self.target_folder_path' and first[0].lineno < call.lineno and \
                    all(s.lineno > call.lineno for s in first[1:])
        ctx.check('C18-R1', ok, '%s: %s(%s) acts on the output root itself' % (
            f.short, d, unparse(arg) if arg is not None else ''), where,
            msg='%s applies %s to %s, which is not provably the output root' % (
                f.short, d, unparse(arg) if arg is not None else '?'),
            key='C18-R1|%s|%s|root' % (f.qualname, d))
        return
    if kind == 'dir':
        ok = False
        if isinstance(arg, ast.Name):
            vals = dd.all_values(arg.id)
            if len(vals) == 1:
                v = vals[0]
                if isinstance(v, ast.Call) and dotted(v.func) == 'os.path.join' and \
                        unparse(v.args[0]) == 'self.target_folder_path' and \
                        all(isinstance(a, ast.Constant) and isinstance(a.value, str) and
                            '..' not in a.value and not a.value.startswith('/')
                            for a in v.args[1:]):
                    ok = True
                if isinstance(v, ast.Call) and dotted(v.func) == 'os.path.dirname':
                    # directory of a validated path
                    inner = unparse(v.args[0])
                    ok = _validated_before(f, call, inner)
        ctx.check('C18-R1', ok, '%s: %s(%s) is the root joined with a literal, or the directory '
                  'of a validated path' % (f.short, d, unparse(arg) if arg is not None else ''),
                  where, msg='%s creates the directory %s, which is neither root+literal nor the '
                             'directory of a validated path' % (f.short, unparse(arg)),
                  key='C18-R1|%s|%s|dir' % (f.qualname, d))
        return
    # content sink: validated and recorded on every path
    if d.startswith('shutil.copy'):
        # validated expression must be the effective destination
        pif = path_info(f.node)
        vexpr = sorted((unparse(leaf), tuple((unparse(e), p) for e, p in pif.at(leaf)
                                             if 'isdir' in unparse(e)))
                       for leaf, _st in assigned_alternatives(f.node, 'output_path'))
        model = [('dst', (('os.path.isdir(dst)', False),)),
                 ('os.path.join(dst, os.path.basename(src))', (('os.path.isdir(dst)', True),))]
        ctx.check('C18-R1', vexpr == model and [unparse(a) for a in call.args[:2]] ==
                  ['src', 'dst'], '%s: validated path = effective destination of shutil.copy'
                  % f.short, where,
                  msg='copy_to_path validates %s but copies to %s' % (
                      vexpr, [unparse(a) for a in call.args[:2]]),
                  key='C18-R1|%s|copy-model' % f.qualname)
        subject = 'output_path'
    else:
        subject = unparse(arg)
    paths = [p for p in enumerate_paths(f.node) if st in p.stmts]
    good = bool(paths)
    rec_good = bool(paths)
    for p in paths:
        calls = path_calls(p, upto=st)
        good &= any(call_name(c) == '_validate_output_path' and c.args and
                    unparse(c.args[0]) == subject for c in calls)
        rec_good &= any((not pol) and isinstance(e, ast.Call) and
                        call_name(e) == '_record_output_path' and unparse(e.args[0]) == subject
                        for e, pol in p.atoms)
        # no rebinding of the path between validation and the sink
        last_val = None
        for s in p.stmts:
            if s is st:
                break
            if isinstance(s, ast.Expr) and isinstance(s.value, ast.Call) and \
                    call_name(s.value) == '_validate_output_path':
                last_val = s
        if last_val is not None:
            after = p.stmts[p.stmts.index(last_val) + 1:p.stmts.index(st)]
            good &= not any(isinstance(s, ast.Assign) and any(
                unparse(t) == subject for t in s.targets) for s in after)
    ctx.check('C18-R1', good, '%s: every path to %s(%s) validated %s first (%d paths)' % (
        f.short, d, subject, subject, len(paths)), where,
        msg='%s can reach %s(%s) without _validate_output_path(%s) on the same value' % (
            f.short, d, subject, subject), key='C18-R1|%s|%s|validated' % (f.qualname, d))
    ctx.check('C18-R2', rec_good, '%s: %s(%s) only after the manifest early-exit on the same '
              'path' % (f.short, d, subject), where,
              msg='%s writes %s even in manifest mode (no _record_output_path early exit on the '
                  'path)' % (f.short, subject), key='C18-R2|%s|%s|recorded' % (f.qualname, d))


def _validated_before(f, call, subject):
    for c in own_nodes(f.node):
        if isinstance(c, ast.Call) and call_name(c) == '_validate_output_path' and c.args and \
                unparse(c.args[0]) == subject and c.lineno < call.lineno:
            return True
    return False
