"""Memo-key rule: a table that lets a function skip a computation must be
keyed by everything the skipped computation depends on.

A *memo site* of a function is a container C (an attribute of self / the
class, a module-level name, or a local living across loop iterations) that the
function both stores into (``C[K] = V``, ``C.setdefault(K, V)``, ``C.add(K)``)
and looks up with the same key (``K in C``, ``C.get(K)``, ``C[K]``), such that
on a hit the store and the code around it are skipped (the hit side does not
merely refuse, which would make C a registry of declared names).

Obligations for a memo site that the reference tree does not have (the memo
tables and visited-sets of the confirmed tree are an inventory in
reference/conditions.json; a visited-set of a graph walk skips idempotent
effects and is not a value memo):

  K1 completeness   every access path the skipped code reads (parameters,
                    attributes of self that some method other than __init__
                    assigns, loop variables), followed into the repository
                    functions it is passed to, has a prefix among the access
                    paths the key is built from;
  K2 injectivity    the key is not built by formatting several components
                    into one string without a separator between them;
  K3 type blindness a component the skipped code type-tests against builtin
                    scalar types (numbers.Integral, bool, float, str ...) is
                    not held in the key by plain value (1 == 1.0 == True hash
                    alike).

Access paths are tuples (root, attr, attr, ...); locals are expanded through
all their definitions, loop variables to ``iterable + ('*',)``.
"""
import ast
import builtins
import os

from .dataflow import defs
from .model import own_nodes, unparse
from .pathcond import path_info

SCALARS = {'int', 'float', 'bool', 'str', 'bytes', 'complex', 'Integral', 'Real', 'Number',
           'datetime', 'date', 'text_type', 'string_types', 'integer_types', 'binary_type',
           'unicode', 'long'}
STORE_METHODS = ('add', 'setdefault')
MAX_DEPTH = 4


def _chain(node):
    """(root Name or None, components) of a Name / attribute / constant-index chain."""
    comps = []
    while True:
        if isinstance(node, ast.Attribute):
            comps.append(node.attr)
            node = node.value
        elif isinstance(node, ast.Subscript) and isinstance(node.slice, ast.Constant):
            comps.append('[%r]' % (node.slice.value,))
            node = node.value
        else:
            break
    if isinstance(node, ast.Name):
        return node, tuple(reversed(comps))
    return None, ()


def _is_chain_inner(n):
    """n is the .value of an enclosing attribute / constant subscript."""
    p = getattr(n, '_parent', None)
    if isinstance(p, ast.Attribute) and p.value is n:
        return True
    if isinstance(p, ast.Subscript) and p.value is n and isinstance(p.slice, ast.Constant):
        return True
    return False


class Footprints:
    """What a repository function reads of each parameter."""

    def __init__(self, pm):
        self.pm = pm
        self._memo = {}
        self.by_name = {}
        for f in pm.functions.values():
            nm = f.qualname.rsplit('.', 1)[-1].split('#')[0]
            self.by_name.setdefault(nm, []).append(f)
        self.mutated = {}      # class qualname -> attrs assigned outside __init__

    # -- callee resolution (by name; a union over namesakes is sound for reads)
    def callees(self, call, f):
        fn = call.func
        if isinstance(fn, ast.Name):
            if fn.id in getattr(f, 'nested', {}):
                return [f.nested[fn.id]], False
            c = [g for g in self.by_name.get(fn.id, []) if g.cls is None and g.parent is None]
            if c:
                return c, False
            ctor = [g for g in self.by_name.get('__init__', [])
                    if g.cls is not None and g.cls.qualname.rsplit('.', 1)[-1] == fn.id]
            return ctor, True
        if isinstance(fn, ast.Attribute):
            c = [g for g in self.by_name.get(fn.attr, []) if g.cls is not None]
            return (c if len(c) <= 40 else []), True
        return [], False

    def of(self, g, param, depth=MAX_DEPTH):
        """(paths read of parameter ``param`` of g, relative; scalar type tests)"""
        key = (g.qualname, param)
        if key in self._memo:
            return self._memo[key]
        self._memo[key] = ({()}, set())          # recursion: whole
        if depth <= 0:
            return self._memo[key]
        reads, tests = set(), set()
        rebinds = any(isinstance(n, ast.Name) and n.id == param and isinstance(n.ctx, ast.Store)
                      for n in own_nodes(g.node))
        for n in own_nodes(g.node):
            if not (isinstance(n, ast.Name) and n.id == param and isinstance(n.ctx, ast.Load)):
                continue
            top = n
            while _is_chain_inner(top):
                top = top._parent
            _, comps = _chain(top)
            r, t = self._use(g, top, comps, depth)
            reads |= r
            tests |= t
        if rebinds:
            reads.add(())
        out = (reads or set(), tests)
        self._memo[key] = out
        return out

    def _use(self, g, top, comps, depth):
        """How the value at chain ``comps`` is used at node ``top``."""
        par = getattr(top, '_parent', None)
        # receiver of a method call
        if isinstance(par, ast.Call) and par.func is top and comps:
            recv, meth = comps[:-1], comps[-1]
            cands, _ = self.callees(par, g)
            if cands and meth not in _BUILTIN_METHODS:
                reads, tests = set(), set()
                for c in cands:
                    if not c.params:
                        continue
                    r, t = self.of(c, c.params[0], depth - 1)
                    reads |= {recv + x for x in r}
                    tests |= t if not recv else set()
                return reads, tests
            return {recv}, set()
        # argument of a call
        if isinstance(par, ast.Call) and top in par.args:
            fname = unparse(par.func)
            if fname == 'isinstance' and par.args and par.args[0] is top and len(par.args) == 2:
                names = {x.attr if isinstance(x, ast.Attribute) else getattr(x, 'id', '')
                         for x in ast.walk(par.args[1])}
                sc = names & SCALARS
                return (set(), {(comps, tuple(sorted(sc)))} if sc else set())
            if fname in ('type', 'id'):
                return set(), set()
            cands, bound = self.callees(par, g)
            if cands:
                idx = par.args.index(top)
                reads, tests = set(), set()
                for c in cands:
                    ps = c.params[1:] if (bound and c.cls is not None) else c.params
                    if idx < len(ps):
                        r, t = self.of(c, ps[idx], depth - 1)
                        reads |= {comps + x for x in r}
                        tests |= {(comps + p, s) for p, s in t}
                    else:
                        reads.add(comps)
                return reads, tests
            return {comps}, set()
        if isinstance(par, ast.keyword):
            call = getattr(par, '_parent', None)
            cands, bound = self.callees(call, g) if isinstance(call, ast.Call) else ([], False)
            reads, tests = set(), set()
            for c in cands:
                if par.arg in c.params:
                    r, t = self.of(c, par.arg, depth - 1)
                    reads |= {comps + x for x in r}
                    tests |= {(comps + p, s) for p, s in t}
                else:
                    reads.add(comps)
            return (reads or {comps}), tests
        return {comps}, set()

    def mutated_attrs(self, cls):
        """Attributes of self assigned in a method other than __init__ (class and bases)."""
        if cls is None:
            return set()
        if cls.qualname in self.mutated:
            return self.mutated[cls.qualname]
        out = set()
        for k in self.pm.mro(cls):
            for nm, m in k.methods.items():
                if nm == '__init__':
                    continue
                for n in own_nodes(m.node):
                    if isinstance(n, ast.Attribute) and isinstance(n.ctx, ast.Store) and \
                            isinstance(n.value, ast.Name) and n.value.id == 'self':
                        out.add(n.attr)
        self.mutated[cls.qualname] = out
        return out


_BUILTIN_METHODS = set()
for _t in (dict, list, set, str, bytes, tuple, frozenset):
    _BUILTIN_METHODS.update(x for x in dir(_t) if not x.startswith('__'))


class FuncPaths:
    """Access paths read by expressions of one function, locals expanded."""

    def __init__(self, pm, fp, f):
        self.pm, self.fp, self.f = pm, fp, f
        self.d = defs(f.node)
        self.params = set(self.d.params)
        self.module_names = set(f.module.imports) | set(dir(builtins))
        for s in f.module.tree.body:
            for n in ast.walk(s) if not isinstance(s, (ast.FunctionDef, ast.ClassDef)) else [s]:
                if isinstance(n, (ast.FunctionDef, ast.ClassDef)):
                    self.module_names.add(n.name)
                elif isinstance(n, ast.Name) and isinstance(n.ctx, ast.Store):
                    self.module_names.add(n.id)
        self._expanding = set()

    def is_local(self, name):
        return name in self.d.values and name not in self.params

    def root_paths(self, name, depth=5):
        """Paths a bare name stands for."""
        if name in self.params or name == 'self':
            return {(name,)}, set()
        if not self.is_local(name):
            if name in self.module_names:
                return set(), set()
            # enclosing function's variable (closure)
            return {(name,)}, set()
        if name in self._expanding:
            return set(), set()      # cyclic definition: nothing beyond the other definitions
        if depth <= 0:
            return {(name,)}, set()
        vals = self.d.values.get(name, [])
        if vals and all(isinstance(v, ast.Call) and not (
                isinstance(v.func, ast.Name) and v.func.id == 'cast')     # typing.cast(T, x) is x
                for _, v, _ in vals if v is not None) and \
                all(k.startswith('assign') for k, _, _ in vals):
            # the result of a call is a value of its own: `dt = unwrap(x)` then `dt.name` and
            # `dt.format` are two different things, not both "all of x"
            return {(name,)}, set()
        self._expanding.add(name)
        reads, tests = set(), set()
        try:
            for kind, v, _ in self.d.values.get(name, []):
                if v is None:
                    continue
                r, t = self.expr_paths(v, depth - 1)
                if kind.startswith('iter'):
                    r = {p + ('*',) for p in r}
                reads |= r
                tests |= t
        finally:
            self._expanding.discard(name)
        return reads, tests

    def expr_paths(self, e, depth=5, skip=frozenset()):
        """(paths, scalar type tests) read by expression / statement ``e``."""
        reads, tests = set(), set()
        for n in ast.walk(e):
            if not (isinstance(n, ast.Name) and isinstance(n.ctx, ast.Load)):
                continue
            if _is_chain_inner(n):
                continue_top = n
                while _is_chain_inner(continue_top):
                    continue_top = continue_top._parent
                top = continue_top
            else:
                top = n
            if unparse(top) in skip or n.id in skip:
                continue
            _, comps = _chain(top)
            par = getattr(top, '_parent', None)
            if n.id == 'self' and len(comps) == 1 and isinstance(par, ast.Call) and par.func is top:
                continue      # own method: its arguments are followed, its use of self is not
            rel_reads, rel_tests = self.fp._use(self.f, top, comps, MAX_DEPTH)
            bases, btests = self.root_paths(n.id, depth)
            tests |= btests
            for b in bases:
                for r in rel_reads:
                    # a path read off an expanded local keeps the local's own path
                    reads.add(b + r if (b == (n.id,) or not r) else b)
                for p, s in rel_tests:
                    tests.add((b + p if b == (n.id,) else b, s))
        return reads, tests


def _covered(p, keys):
    return any(p[:len(q)] == q for q in keys)


def _container_kind(pm, f, text):
    """'self' / 'module' / 'local' / None for the container expression text."""
    if text.startswith('cls.'):
        return 'class'
    if text.startswith('self.'):
        attr = text.split('.')[1].split('[')[0]
        if f.cls is not None and any(attr in k.attrs for k in pm.mro(f.cls)):
            return 'class'       # a class-level table is shared by every instance
        return 'self'
    head = text.split('.')[0].split('[')[0]
    d = defs(f.node)
    if head in d.values and head not in d.params:
        return 'local'
    if head in d.params:
        return None          # caller's table (visited sets handed down a recursion)
    return 'module'


def memo_sites(pm, f):
    """[(container text, key expr, store node, value expr or None, lookup nodes)]"""
    stores, lookups = [], {}
    for n in own_nodes(f.node):
        if isinstance(n, ast.Subscript) and isinstance(n.ctx, ast.Store):
            par = getattr(n, '_parent', None)
            val = par.value if isinstance(par, ast.Assign) else None
            stores.append((unparse(n.value), n.slice, n, val))
        elif isinstance(n, ast.Call) and isinstance(n.func, ast.Attribute) and \
                n.func.attr in STORE_METHODS and n.args:
            stores.append((unparse(n.func.value), n.args[0], n,
                           n.args[1] if len(n.args) > 1 else None))
        if isinstance(n, ast.Compare) and len(n.ops) == 1 and \
                isinstance(n.ops[0], (ast.In, ast.NotIn)):
            lookups.setdefault(unparse(n.comparators[0]), []).append((n.left, n))
        elif isinstance(n, ast.Call) and isinstance(n.func, ast.Attribute) and \
                n.func.attr == 'get' and n.args:
            lookups.setdefault(unparse(n.func.value), []).append((n.args[0], n))
        elif isinstance(n, ast.Subscript) and isinstance(n.ctx, ast.Load):
            lookups.setdefault(unparse(n.value), []).append((n.slice, n))
    out = []
    for ctext, key, node, val in stores:
        if _container_kind(pm, f, ctext) is None:
            continue
        same = [(k, ln) for k, ln in lookups.get(ctext, [])
                if unparse(k) == unparse(key) and ln is not node]
        if same:
            out.append((ctext, key, node, val, [ln for _, ln in same]))
    return out


def _stmt_of(pi, n):
    return pi.stmt_containing(n)


def _miss_region(f, ctext, store, lookups):
    """Statements skipped on a hit, or None when the hit side only refuses /
    the store is not guarded by the lookup."""
    from .conddrift import _is_memo_test, _owning_if, _only_raises
    pi = path_info(f.node)
    st = _stmt_of(pi, store)
    if st is None:
        return None
    guards = [(e, pol) for e, pol in pi.at(store) if _is_memo_test(f, e, {ctext})]
    if guards:
        # registry: the hit side raises
        for e, pol in guards:
            own = _owning_if(e)
            if own is not None and isinstance(own, ast.If):
                inside_body = any(x is store for b in own.body for x in ast.walk(b))
                hit = own.orelse if inside_body else own.body
                if not own.orelse and not inside_body:
                    pass
                if hit and _only_raises(hit):
                    return None
                if not inside_body and not any(x is store for b in own.orelse for x in ast.walk(b)):
                    # store after an early exit of the hit side
                    if _only_raises(own.body):
                        return None
        gids = {(id(e), pol) for e, pol in guards}
        region = []
        for s in pi.order:
            ats = {(id(e), pol) for e, pol in pi.conds.get(id(s), ())}
            if gids <= ats:
                region.append(s)
        # expressions of the store statement itself guarded inside an expression
        if st not in region:
            region.append(st)
        return region
    # try: return C[K] / except KeyError: pass ; rest of the block is the miss side
    for ln in lookups:
        for t, part, k in pi.trys_at(ln):
            if part == 'body' and any(
                    h.type is not None and 'KeyError' in unparse(h.type) for h in t.handlers):
                blk, idx = pi.block_of.get(id(t), (None, None))
                if blk is not None and any(isinstance(x, ast.Return) for b in t.body
                                           for x in ast.walk(b)):
                    return [s for h in t.handlers for s in h.body] + blk[idx + 1:]
    return None


def _lossy_key(key, fpaths):
    """Text of the reason when the key formats several components together."""
    exprs = [key]
    if isinstance(key, ast.Name) and fpaths.is_local(key.id):
        exprs = fpaths.d.all_values(key.id) or [key]
    for e in exprs:
        for n in ast.walk(e):
            if isinstance(n, ast.Call) and isinstance(n.func, ast.Attribute) and \
                    n.func.attr == 'format' and isinstance(n.func.value, ast.Constant) and \
                    isinstance(n.func.value.value, str) and len(n.args) >= 2:
                if '}{' in n.func.value.value:
                    return 'format string %r puts components next to each other' % \
                        n.func.value.value
            if isinstance(n, ast.BinOp) and isinstance(n.op, ast.Mod) and \
                    isinstance(n.left, ast.Constant) and isinstance(n.left.value, str):
                import re
                if re.search(r'%[srd]%[srd]', n.left.value):
                    return 'format string %r puts components next to each other' % n.left.value
            if isinstance(n, ast.JoinedStr):
                vals = n.values
                for a, b in zip(vals, vals[1:]):
                    if isinstance(a, ast.FormattedValue) and isinstance(b, ast.FormattedValue):
                        return 'f-string puts components next to each other'
    return None


def analyse_site(pm, fp, f, site):
    """Problems of one memo site: list of text."""
    ctext, key, store, val, lookups = site
    region = _miss_region(f, ctext, store, lookups)
    if region is None:
        return None
    paths = FuncPaths(pm, fp, f)
    kind = _container_kind(pm, f, ctext)
    kreads, _ = paths.expr_paths(key)
    # the key by value: components that are the key expression's own leaves
    by_value = set()

    def leaves(e, depth=3):
        if isinstance(e, ast.Tuple):
            for x in e.elts:
                leaves(x, depth)
            return
        if isinstance(e, ast.Name) and paths.is_local(e.id) and depth > 0:
            vals = paths.d.values.get(e.id, [])
            if vals and all(k == 'assign' for k, _, _ in vals):
                for _, v, _ in vals:
                    if v is not None:
                        leaves(v, depth - 1)
                return
        root, comps = _chain(e)
        if root is not None:
            bases, _ = paths.root_paths(root.id)
            for b in bases:
                by_value.add(b + comps if b == (root.id,) else b)
    leaves(key)
    creads, ctests = set(), set()
    skip = frozenset({ctext})
    for s in region:
        r, t = paths.expr_paths(s, skip=skip)
        creads |= r
        ctests |= t
    problems = []
    mutated = fp.mutated_attrs(f.cls)
    missing = []
    for p in sorted(creads):
        if not p:
            continue
        if p[0] == 'self':
            if len(p) < 2:
                continue
            if f.cls is not None and any(p[1] in k.methods for k in pm.mro(f.cls)):
                continue      # a method of the class, not data
            if kind == 'self' and p[1] not in mutated:
                continue      # same lifetime as the table and never reassigned
            if p[1] == ctext.split('.')[1] if ctext.startswith('self.') else False:
                continue
            if kind == 'local' and '*' not in p:
                continue      # the table lives within one call
        if kind == 'local' and '*' not in p and p[0] in paths.params and \
                not _reassigned_in_loop(f, p[0], store):
            continue          # invariant while the table lives (not an element of a loop)
        if not _covered(p, kreads):
            missing.append(p)
    # a local that the skipped code itself binds is not an input of it
    bound_inside = set()
    for s_ in region:
        for x in ast.walk(s_):
            if isinstance(x, ast.Name) and isinstance(x.ctx, ast.Store):
                bound_inside.add(x.id)
    missing = [p for p in missing if p[0] not in bound_inside]
    # drop paths that extend another missing path
    missing = [p for p in missing if not any(q != p and p[:len(q)] == q for q in missing)]
    if missing:
        problems.append('the skipped code depends on %s, which the key (%s) does not hold' % (
            ', '.join('.'.join(p) for p in missing[:4]), unparse(key)))
    lossy = _lossy_key(key, paths)
    if lossy:
        problems.append('the key is not injective: %s' % lossy)
    for p, scal in sorted(ctests):
        if p in by_value:
            problems.append('the skipped code tells %s apart by type (%s) but the key holds it by '
                            'value (1 == 1.0 == True hash alike)' % ('.'.join(p), '/'.join(scal)))
            break
    return problems


def _reassigned_in_loop(f, name, store):
    loops = path_info(f.node).loops_at(store)
    for lp in loops:
        for n in ast.walk(lp):
            if isinstance(n, ast.Name) and n.id == name and isinstance(n.ctx, ast.Store):
                return True
    return False


def inventory(pm, funcs):
    """{qualname: sorted container texts of its memo sites}"""
    out = {}
    for f in funcs:
        s = sorted({site[0] for site in memo_sites(pm, f)} |
                   {'%s @ %s' % (site[0], unparse(site[1])) for site in memo_sites(pm, f)})
        if s:
            out[f.qualname] = s
    return out


SAMPLE = os.path.join(os.path.dirname(os.path.abspath(__file__)), 'samples', 'memo')


def _selfcheck():
    """The detector on its own positive / negative examples."""
    from .model import Program
    pm = Program(SAMPLE, alpha=False)
    fp = Footprints(pm)
    got = {}
    for q, f in pm.functions.items():
        for site in memo_sites(pm, f):
            pr = analyse_site(pm, fp, f, site)
            if pr is not None:
                got[q.rsplit('.', 1)[-1]] = bool(pr)
    return got


EXPECT = {'bad_partial_key': True, 'bad_format_key': True, 'bad_type_blind': True,
          'good_full_key': False, 'bad_try_form': True}


def run(pm, ctx, rule, patterns, title=None):
    import json
    import re
    from .model import AnalysisError
    from .conddrift import load_reference
    ctx.rule(rule, title or
             'a memo table or done-set that the confirmed tree does not have, in a module the '
             'property is anchored in, is keyed by every access path the skipped code reads '
             '(followed into the repository functions it calls), injectively, and not by plain '
             'value where the skipped code tells scalar types apart')
    verif = os.path.dirname(os.path.dirname(os.path.abspath(__file__)))
    ref = load_reference(verif, 'memo')
    if ref is None:
        raise AnalysisError('anchor=reference/conditions.json (memo inventory missing)')
    got = _selfcheck()
    if got != EXPECT:
        raise AnalysisError('memo-key rule self-check: %r' % (got,))
    from .ownership import select
    mods = {f.module.name for f in select(pm, patterns)}
    fp = getattr(pm, '_memo_footprints', None)
    if fp is None:
        fp = pm._memo_footprints = Footprints(pm)
    n = 0
    for q, f in sorted(pm.functions.items()):
        if f.module.name not in mods:
            continue
        n += 1
        known = set(ref.get(q, []))
        for site in memo_sites(pm, f):
            keyed = [k for k in known if k.startswith(site[0] + ' @ ')]
            if site[0] in known and (not keyed or '%s @ %s' % (site[0], unparse(site[1])) in keyed):
                ctx.ok(rule, '%s: table %s as in the confirmed tree' % (f.short, site[0]), f.loc)
                continue
            pr = analyse_site(pm, fp, f, site)
            if pr is None:
                continue
            ctx.check(rule, not pr, '%s: new table %s keyed by all it depends on' % (
                f.short, site[0]), '%s:%d' % (f.module.relpath, site[2].lineno),
                msg='%s: memo table %s: %s' % (f.short, site[0], '; '.join(pr)),
                key='%s|%s|%s' % (rule, q, site[0]))
    ctx.ok(rule, 'memo-key detector self-check (%d examples)' % len(EXPECT), 'stonelint/samples/memo')
    ctx.extra['%s_functions' % rule] = n
