"""Effect-condition drift: under which condition a function performs each of
its effects, compared with the confirmed tree by truth table.

An *effect* is a statement that does something observable: ``raise``,
``return``, ``continue``/``break``, an assignment, a call statement, and every
call of a repository (or imported library) function inside an expression.  Its
*path formula* is the conjunction of the tests that hold when it runs - each
test kept as a boolean tree over leaf atoms - and the formula of an effect
that occurs several times in a function is the disjunction over its
occurrences.  The reference (``reference/conditions.json``, key ``effects``)
holds the formulas of the confirmed tree.

Two formulas are compared over the leaf atoms of both (a comparison is a
three-valued ``<``/``=``/``>`` variable, a truth test ``none``/``falsy``/
``truthy``, anything else a boolean), so the comparison does not depend on how
the tests are *written*: nested ifs or one conjunction, guard clauses with
early returns or an if/else ladder, De Morgan forms, merged ``elif`` arms and
duplicated returns all give the same table.

Verdict for an effect present in both trees whose leaf sets are nested:
  lost   some assignment makes the reference formula true and the current one
         false: the function now completes that path without the effect
  extra  the converse
``lost`` is a violation for every kind; ``extra`` only for control effects
(raise / return / continue / break) - one more evaluation of a helper or one
more initialisation is not claimed.  Not claimed either: effects whose text
changed, appeared or vanished (expression drift decides those), leaf sets that
are not nested (re-spelled tests), tables beyond 100000 rows (conjuncts common to every
occurrence of both trees are factored out first).  One exact
exception to nesting: a leaf ``x in A`` replaced by ``x in B`` - same subject,
another container - is a changed test.
"""
import ast
import itertools
import json
import os

from .conddrift import (_clean, _enclosing_iters, _in_raise,
                        _is_memo_test, _memo_containers, _message_key, _nulled_local,
                        _subst_text, _tracked_call, _truthy, canonical_atom, TV)
from .model import call_name, own_nodes, unparse
from .pathcond import path_info

CONTROL = ('raise', 'return', 'flow')


# ---------------------------------------------------------------------------
# formulas

def _leaf(f, e):
    return _truthy(canonical_atom(f, e, True))


def tree_of(f, e, depth=3):
    if isinstance(e, ast.Name) and depth > 0:
        # a boolean local stands for the test it was assigned
        from .conddrift import _definition
        d = _definition(f, e)
        if isinstance(d, (ast.BoolOp, ast.Compare)) or (
                isinstance(d, ast.UnaryOp) and isinstance(d.op, ast.Not)):
            return tree_of(f, d, depth - 1)
    if isinstance(e, ast.BoolOp):
        return ['and' if isinstance(e.op, ast.And) else 'or'] + [tree_of(f, v, depth)
                                                                 for v in e.values]
    if isinstance(e, ast.UnaryOp) and isinstance(e.op, ast.Not):
        return ['not', tree_of(f, e.operand, depth)]
    if isinstance(e, ast.Constant) and isinstance(e.value, (bool, type(None), int)):
        return ['const', bool(e.value)]
    return ['leaf', _leaf(f, e)]


def _var_of(leaf):
    """(variable, domain, values of the variable that make the leaf true)."""
    a = leaf
    if a[0] == 'cmp':
        return ('cmp', a[1], a[2]), '<=>', frozenset(a[3])
    if a[0] == 'tv':
        return ('tv', a[1]), 'nft', frozenset(TV[a[2]])
    if a[0] == 'rel':
        return ('rel', a[1], a[2], a[3]), 'TF', frozenset({'T' if a[4] else 'F'})
    if a[0] == 'handler':
        return ('handler', a[1]), 'TF', frozenset({'T'})
    return ('atom', a[1]), 'TF', frozenset({'T' if a[2] else 'F'})


def _refusal_keys(e, pol, site):
    """Keys of the raise effects of the if statement whose *failing* test gives this atom,
    when that branch only refuses; None otherwise."""
    from .conddrift import _from_refusing_exit, _owning_if
    if not _from_refusing_exit(e, pol, site):
        return None
    par = e
    while par is not None and not isinstance(par, ast.stmt):
        par = getattr(par, '_parent', None)
    if isinstance(par, ast.Assert):
        return ['assert %s' % unparse(par.test)[:60]]
    st = _owning_if(e)
    if st is None:
        return None
    keys = []
    for x in st.body:
        for r in ast.walk(x):
            if isinstance(r, ast.Raise):
                keys.append('raise: raise %s %s' % (_exc_name(r), _message_key(r.exc)
                                                     if r.exc is not None else ''))
    return sorted(set(keys)) or None


def _strip_memo(occ, other_vars, other_keys=None):
    """Memo-tagged conjuncts: kept as ordinary conjuncts when every leaf they
    test is also tested by the other tree, dropped otherwise."""
    out = []
    for conj in occ:
        c2 = []
        for t in conj:
            if t[0] == 'memo':
                vs = {}
                _vars(t[1], vs)
                if set(vs) <= other_vars:
                    c2.append(t[1])
            elif t[0] == 'rx':
                vs = {}
                _vars(t[2], vs)
                if (other_keys is None or any(k in other_keys for k in t[1])) and \
                        set(vs) <= other_vars:
                    c2.append(t[2])
            else:
                c2.append(t)
        out.append(c2)
    return out


def _all_vars(occ, with_memo=True):
    vs = {}
    for conj in occ:
        for t in conj:
            if t[0] == 'memo':
                if with_memo:
                    _vars(t[1], vs)
            elif t[0] == 'rx':
                _vars(t[2], vs)
            else:
                _vars(t, vs)
    return vs


def _vars(tree, out):
    if tree[0] == 'leaf':
        v, d, _ = _var_of(tree[1])
        out[v] = d
    elif tree[0] in ('and', 'or', 'not'):
        for t in tree[1:]:
            _vars(t, out)


def _eval(tree, env):
    k = tree[0]
    if k == 'leaf':
        v, _, ok = _var_of(tree[1])
        return env[v] in ok
    if k == 'const':
        return tree[1]
    if k == 'not':
        return not _eval(tree[1], env)
    if k == 'and':
        return all(_eval(t, env) for t in tree[1:])
    return any(_eval(t, env) for t in tree[1:])


def _holds(occurrences, env):
    return any(all(_eval(t, env) for t in conj) for conj in occurrences)


def _loose(v):
    if v[0] == 'rel' and v[2] == 'in':
        return ('rel', v[1], 'in')
    return None


def compare(ref_occ, cur_occ, limit=100000, ambiguous=(), ref_keys=None, cur_keys=None,
            excl=None):
    """-> (verdict, witness)  verdict in ok / lost / extra / both / changed /
    incomparable."""
    if json.dumps(ref_occ, sort_keys=True) == json.dumps(cur_occ, sort_keys=True):
        return 'ok', ''
    # one expression tested for truth in one tree and against None in the other is one
    # three-valued variable (`if d.get(k):` against `if d.get(k) is not None:`)
    tv_texts = {v[1] for v in list(_all_vars(ref_occ)) + list(_all_vars(cur_occ)) if v[0] == 'tv'}
    at_texts = {v[1] for v in list(_all_vars(ref_occ)) + list(_all_vars(cur_occ))
                if v[0] == 'atom'}
    if tv_texts & at_texts:
        both = tv_texts & at_texts

        def conv(t):
            if t[0] == 'leaf':
                a = t[1]
                if a[0] == 'atom' and a[1] in both:
                    pos = ['leaf', ['tv', a[1], 'truthy']]
                    return pos if a[2] else ['not', pos]
                return t
            if t[0] in ('and', 'or', 'not'):
                return [t[0]] + [conv(x) for x in t[1:]]
            if t[0] == 'memo':
                return ['memo', conv(t[1])] + list(t[2:])
            if t[0] == 'rx':
                return ['rx', t[1], conv(t[2])] + list(t[3:])
            return t
        ref_occ = [[conv(t) for t in conj] for conj in ref_occ]
        cur_occ = [[conv(t) for t in conj] for conj in cur_occ]
    ref_all, cur_all = set(_all_vars(ref_occ)), set(_all_vars(cur_occ))
    # the same subject looked up in another table (`x in self.a` -> `x in self.b`)
    o_r, o_c = ref_all - cur_all, cur_all - ref_all
    if o_r and o_c:
        lr = {_loose(v): v for v in o_r if _loose(v)}
        lc = {_loose(v): v for v in o_c if _loose(v)}
        same = [k for k in lr if k in lc]
        if same and len(o_r) == len(o_c) == len(same):
            import re as _re
            k = same[0]
            idents = set(_re.findall(r'[A-Za-z_][A-Za-z_0-9]*', lr[k][3] + ' ' + lc[k][3]))
            if not (idents & set(ambiguous)):
                return 'changed', '%s in %s -> in %s' % (k[1], lr[k][3], lc[k][3])
    ref_occ = _strip_memo(ref_occ, cur_all, cur_keys)
    cur_occ = _strip_memo(cur_occ, ref_all, ref_keys)
    fixed_true = []
    # conjuncts every occurrence of both trees has (the guards in front of the part that
    # changed) cannot make the two differ: leave them out of the table
    def js(t):
        return json.dumps(t, sort_keys=True)
    if ref_occ and cur_occ:
        common = None
        for conj in list(ref_occ) + list(cur_occ):
            s_ = {js(t) for t in conj}
            common = s_ if common is None else common & s_
        if common:
            # ... unless it constrains a variable the rest also talks about
            rest_vars = set()
            by_js = {}
            for conj in list(ref_occ) + list(cur_occ):
                for t in conj:
                    if js(t) in common:
                        by_js[js(t)] = t
                    else:
                        vs_ = {}
                        _vars(t if t[0] not in ('memo', 'rx') else t[-1], vs_)
                        rest_vars |= set(vs_)
            for j, t in by_js.items():
                vs_ = {}
                _vars(t if t[0] not in ('memo', 'rx') else t[-1], vs_)
                if set(vs_) & rest_vars:
                    common.discard(j)
        if common:
            for conj in ref_occ[:1]:
                for t in conj:
                    if js(t) in common and t[0] == 'leaf':
                        v_, d_, ok_ = _var_of(t[1])
                        if d_ == 'TF' and ok_ == frozenset({'T'}):
                            fixed_true.append(v_)
            ref_occ = [[t for t in conj if js(t) not in common] for conj in ref_occ]
            cur_occ = [[t for t in conj if js(t) not in common] for conj in cur_occ]
    rv, cv = _all_vars(ref_occ), _all_vars(cur_occ)
    only_r, only_c = set(rv) - set(cv), set(cv) - set(rv)
    if only_r and only_c:
        lr = {_loose(v): v for v in only_r if _loose(v)}
        lc = {_loose(v): v for v in only_c if _loose(v)}
        same = [k for k in lr if k in lc]
        if same and len(only_r) == len(only_c) == len(same):
            k = same[0]
            import re as _re
            idents = set(_re.findall(r'[A-Za-z_][A-Za-z_0-9]*', lr[k][3] + ' ' + lc[k][3]))
            if not (idents & set(ambiguous)):
                return 'changed', '%s in %s -> in %s' % (k[1], lr[k][3], lc[k][3])
        return 'incomparable', ''
    allv = dict(rv)
    allv.update(cv)
    names = sorted(allv, key=repr)
    size = 1
    for v in names:
        size *= len(allv[v])
    if size > limit:
        return 'incomparable', ''
    lost = extra = None
    pairs = []
    if excl is not None:
        tf = [v for v in names if allv[v] == 'TF']
        pairs = [(a, b) for i, a in enumerate(tf) for b in tf[i + 1:] if excl(a, b)]
        # a class test that holds on every path excludes the classes disjoint from it
        never = [a for a in tf if any(excl(a, b) for b in fixed_true)]
        pairs += [(a, a) for a in never]
    for combo in itertools.product(*[allv[v] for v in names]):
        env = dict(zip(names, combo))
        if pairs and any(env[a] == 'T' and env[b] == 'T' for a, b in pairs):
            continue            # no object is an instance of both classes
        r, c = _holds(ref_occ, env), _holds(cur_occ, env)
        if r and not c and lost is None:
            lost = env
        if c and not r and extra is None:
            extra = env
        if lost is not None and extra is not None:
            break

    def show(env):
        return ', '.join('%s=%s' % (' '.join(map(str, v[1:]))[:60], env[v]) for v in names)[:300]
    if lost is not None and extra is not None:
        return 'both', show(lost)
    if lost is not None:
        return 'lost', show(lost)
    if extra is not None:
        return 'extra', show(extra)
    return 'ok', ''


# ---------------------------------------------------------------------------
# effects of a function

def _loop_of(n, stop):
    par = getattr(n, '_parent', None)
    while par is not None and par is not stop:
        if isinstance(par, (ast.For, ast.While)):
            return par
        par = getattr(par, '_parent', None)
    return None


def _exc_name(r):
    if r.exc is None:
        return 're-raise'
    t = unparse(r.exc.func if isinstance(r.exc, ast.Call) else r.exc)
    return t.split('.')[-1]


def _effects_of(pm, f):
    """[(kind, key, node)]"""
    out = []
    for n in own_nodes(f.node):
        if isinstance(n, ast.Raise):
            out.append(('raise', 'raise %s %s' % (_exc_name(n), _message_key(n.exc)
                                                   if n.exc is not None else ''), n))
        elif isinstance(n, ast.Return):
            out.append(('return', 'return %s' % (unparse(n.value) if n.value is not None else ''), n))
        elif isinstance(n, (ast.Continue, ast.Break)):
            lp = _loop_of(n, f.node)
            it = unparse(lp.iter) if isinstance(lp, ast.For) else (
                unparse(lp.test) if lp is not None else '')
            out.append(('flow', '%s @ %s' % (type(n).__name__.lower(), it), n))
        elif isinstance(n, (ast.Assign, ast.AugAssign, ast.AnnAssign)):
            if isinstance(n, ast.AnnAssign) and n.value is None:
                continue
            out.append(('assign', unparse(n), n))
        elif isinstance(n, ast.Delete):
            out.append(('assign', unparse(n), n))
        elif isinstance(n, ast.Expr) and isinstance(n.value, ast.Call):
            if isinstance(n.value.func, ast.Attribute) and \
                    n.value.func.attr in ('debug', 'info', 'warning', 'log') and \
                    'log' in unparse(n.value.func.value).lower():
                continue                    # logging is not an effect of interest
            out.append(('stmtcall', unparse(n), n))
        if isinstance(n, ast.Call) and _tracked_call(pm, f, n) and not _in_raise(n, f.node):
            key = _clean('%s(%s)' % (
                _subst_text(f, n.func),
                ', '.join([_subst_text(f, a) for a in n.args] +
                          ['%s=%s' % (k.arg, _subst_text(f, k.value)) for k in n.keywords])))
            out.append(('call', key, n))
    return out


def _formula(pm, f, pi, memo, kind, n):
    """Conjunct trees of the path condition of node ``n``."""
    iters = set(_enclosing_iters(f, n)) if kind == 'call' else set()
    conj = []
    for e, pol in pi.at(n):
        rx = _refusal_keys(e, pol, n)
        is_memo = _is_memo_test(f, e, memo)
        if kind == 'call' and not is_memo:
            nulled = _nulled_local(f, e, pol)
            if nulled is not None:
                for x in nulled:
                    conj.append(['leaf', x] if x[0] != 'atom' or x[2] else
                                ['not', ['leaf', ['atom', x[1], True]]])
                continue
        t = tree_of(f, e)
        if kind == 'call' and t[0] == 'leaf' and t[1][0] == 'tv' and _clean(t[1][1]) in iters \
                and pol:
            continue        # emptiness of the collection the call iterates over
        if t[0] == 'const':
            continue
        t = t if pol else ['not', t]
        # a test on a registry / memo table of the function: kept, but compared only when the
        # other tree tests the same thing (a new cache is decided by the memo-key rule)
        if rx is not None:
            # the atom only says that an earlier refusal did not fire: compared when the other
            # tree has that refusal too (a function may gain checks freely)
            conj.append(['rx', rx, t])
        else:
            conj.append(['memo', t] if is_memo else t)
    for t, part, k in pi.trys_at(n):
        if part == 'handler':
            conj.append(['leaf', ['handler', '%s@%d' % (
                unparse(t.handlers[k].type) if t.handlers[k].type else '*', 0)]])
    return sorted(conj, key=lambda t: json.dumps(t, sort_keys=True))


def effect_table(pm, f):
    """{key: {'kind': kind, 'occ': [conjunct trees per occurrence]}}"""
    pi = path_info(f.node)
    memo = _memo_containers(f)
    table = {}
    for kind, key, n in _effects_of(pm, f):
        ent = table.setdefault('%s: %s' % (kind, key), {'kind': kind, 'occ': []})
        ent['occ'].append(_formula(pm, f, pi, memo, kind, n))
    return table


def all_functions(pm):
    out = []

    def add(f):
        out.append(f)
        for g in f.nested.values():
            add(g)
    for q, f in sorted(pm.functions.items()):
        if f.parent is None:
            add(f)
    return out


def build(pm):
    out = {}
    for f in all_functions(pm):
        t = effect_table(pm, f)
        if t:
            out[f.qualname] = t
    return out


_REF = {}


def load_reference():
    verif = os.path.dirname(os.path.dirname(os.path.abspath(__file__)))
    p = os.path.join(verif, 'reference', 'effects.json')
    if p not in _REF:
        if not os.path.exists(p):
            return None
        with open(p, encoding='utf-8') as fh:
            _REF[p] = json.load(fh)['effects']
    return _REF[p]


def _select(pm, patterns):
    from .ownership import select
    return select(pm, patterns)


_CACHE = {}


def _isinstance_parts(v):
    """(subject text, class names) when variable ``v`` is `isinstance(X, C)` / `isinstance(X,
    (C1, C2))`."""
    if v[0] != 'atom' or not v[1].startswith('isinstance('):
        return None
    try:
        call = ast.parse(v[1], mode='eval').body
    except SyntaxError:
        return None
    if not (isinstance(call, ast.Call) and len(call.args) == 2):
        return None
    t = call.args[1]
    elts = t.elts if isinstance(t, ast.Tuple) else [t]
    names = []
    for e in elts:
        if isinstance(e, ast.Attribute):
            names.append(e.attr)
        elif isinstance(e, ast.Name):
            names.append(e.id)
        else:
            return None
    return unparse(call.args[0]), names


def exclusivity(pm):
    """-> f(v1, v2): the two variables are class tests on one subject that no object passes
    both (classes of the repository, none a subclass of the other, no common subclass)."""
    by_name = {}
    for c in pm.classes.values():
        by_name.setdefault(c.name, []).append(c)
    memo = {}

    def disjoint(n1, n2):
        k = (n1, n2)
        if k not in memo:
            c1s, c2s = by_name.get(n1), by_name.get(n2)
            ok = bool(c1s) and bool(c2s)
            if ok:
                for a in c1s:
                    for b in c2s:
                        if a is b or pm.is_subclass(a, b) or pm.is_subclass(b, a):
                            ok = False
                        elif any(pm.is_subclass(x, a) and pm.is_subclass(x, b)
                                 for x in pm.classes.values()):
                            ok = False
            memo[k] = ok
        return memo[k]

    def excl(v1, v2):
        p1, p2 = _isinstance_parts(v1), _isinstance_parts(v2)
        if p1 is None or p2 is None or p1[0] != p2[0]:
            return False
        return all(disjoint(a, b) for a in p1[1] for b in p2[1])
    return excl


def _excl(pm):
    e = getattr(pm, '_effects_excl', None)
    if e is None:
        e = pm._effects_excl = exclusivity(pm)
    return e


def _ambiguous(f):
    """Locals bound more than once (their text does not say which value they hold)."""
    from .dataflow import defs
    d = defs(f.node)
    return {n for n, v in d.values.items() if len(v) > 1 or n in d.params and v}


def _table_cached(pm, f):
    k = (id(pm), f.qualname)
    r = _CACHE.get(k)
    if r is None or r[0] is not pm:
        r = _CACHE[k] = (pm, effect_table(pm, f))
    return r[1]


def _is_initialiser(key):
    t = key.split(': ', 1)[1] if ': ' in key else key
    if ' = ' not in t:
        return False
    rhs = t.split(' = ', 1)[1].strip()
    return rhs in ('[]', '{}', 'set()', 'dict()', 'list()', 'None', "''", '()', 'OrderedDict()')


WHAT = {'lost': 'no longer happens on a path that used to have it',
        'extra': 'now also happens on a path that used not to have it',
        'both': 'happens under another condition',
        'changed': 'is decided by a test on another container'}


def run(pm, ctx, rule, funcs, kinds, title, suffix, min_funcs=1, extra_is_violation=CONTROL):
    """Compare the effects of ``funcs`` of the given kinds with the reference."""
    from .model import AnalysisError
    ctx.rule(rule, title)
    ref = load_reference()
    if ref is None:
        raise AnalysisError('anchor=reference/effects.json')
    n_funcs = n_eff = 0
    for f in funcs:
        q = f.qualname
        if q not in ref:
            continue
        n_funcs += 1
        cur = _table_cached(pm, f)
        problems = []
        for key, r in sorted(ref[q].items()):
            if r['kind'] not in kinds:
                continue
            c = cur.get(key)
            if c is None:
                continue
            n_eff += 1
            verdict, wit = compare(r['occ'], c['occ'], ambiguous=_ambiguous(f),
                                   ref_keys=set(ref[q]), cur_keys=set(cur), excl=_excl(pm))
            if r['kind'] == 'assign' and verdict in ('lost', 'both') and _is_initialiser(key):
                continue        # where an accumulator / result variable is first set to "empty"
                #                 moves with every restructuring; its uses are what is compared
            if verdict in ('lost', 'both', 'changed') or \
                    (verdict == 'extra' and r['kind'] in extra_is_violation):
                problems.append((verdict, key, wit))
        if problems and any(k.startswith('raise') for _, k, _ in problems):
            # refusals that only changed places: the function refuses exactly the same inputs,
            # possibly with another of its messages (two independent checks swapped)
            rk = sorted(k for k, v in ref[q].items() if v['kind'] == 'raise')
            ck = sorted(k for k, v in cur.items() if v['kind'] == 'raise')
            if rk == ck:
                r_all = [conj for k in rk for conj in ref[q][k]['occ']]
                c_all = [conj for k in ck for conj in cur[k]['occ']]
                v, _ = compare(r_all, c_all, ambiguous=_ambiguous(f), ref_keys=set(ref[q]),
                               cur_keys=set(cur), excl=_excl(pm))
                if v == 'ok':
                    problems = [p for p in problems if not p[1].startswith('raise')]
        ctx.check(rule, not problems,
                  '%s: effects (%s) under their confirmed conditions' % (f.short, '/'.join(kinds)),
                  f.loc,
                  msg='%s: `%s` %s [%s]' % (
                      f.short, problems[0][1][:90] if problems else '',
                      WHAT.get(problems[0][0] if problems else '', ''),
                      problems[0][2] if problems else ''),
                  key='%s|%s|%s' % (rule, q, suffix))
    ctx.extra['%s_functions' % rule] = n_funcs
    ctx.extra['%s_effects' % rule] = n_eff
    ctx.floor(rule, n_funcs, min_funcs, 'functions compared with the reference')


def run_decisions(pm, ctx, rule, patterns, title=None, min_funcs=1):
    run(pm, ctx, rule, _select(pm, patterns), ('raise', 'return', 'flow', 'assign', 'stmtcall'),
        title or
        'every raise / return / continue / break / assignment / call statement of the functions '
        'the property is anchored in happens under the condition confirmed on the reference '
        'tree, compared by truth table over the leaf tests (however the tests are written: '
        'nested, merged, as guard clauses); an effect lost on a path, or a control effect gained '
        'on one, is a violation; changed texts and re-spelled tests are not claimed',
        'tests', min_funcs)


def run_calls(pm, ctx, rule, patterns, title=None, min_funcs=1):
    run(pm, ctx, rule, _select(pm, patterns), ('call',),
        title or
        'every call of a repository function (or imported library function) in the functions '
        'the property is anchored in runs under the condition confirmed on the reference tree: '
        'by a truth table over the leaf tests, no assignment lets the function complete without '
        'a call it used to make (tests on memo tables / registries and emptiness of the iterated '
        'collection are left to their own rules; re-spelled conditions and new or removed calls '
        'are not claimed)', 'calls', min_funcs, extra_is_violation=())


def run_refusals(pm, ctx, rule, prefixes, exc_names, title, what, error_lists=('self.errors',),
                 raisers=()):
    """The refusal sites of one layer (raise <Exc>, errors.append, raising
    helpers) under their confirmed conditions."""
    from .model import AnalysisError
    ctx.rule(rule, title)
    ref = load_reference()
    if ref is None:
        raise AnalysisError('anchor=reference/effects.json')
    matched = total = 0
    for f in all_functions(pm):
        if not any(f.qualname.startswith(p + '.') or f.qualname == p for p in prefixes):
            continue
        cur = _table_cached(pm, f)
        r = ref.get(f.qualname, {})
        for key, c in sorted(cur.items()):
            site = None
            if c['kind'] == 'raise' and key.split(' ')[2] in exc_names:
                site = key
            elif c['kind'] == 'stmtcall' and any(
                    key.startswith('stmtcall: %s.%s(' % (l, m)) for l in error_lists
                    for m in ('append', 'insert')):
                site = key
            elif c['kind'] == 'stmtcall' and any(key.startswith('stmtcall: %s(' % r_)
                                                 for r_ in raisers):
                site = key
            if site is None:
                continue
            total += 1
            if key not in r:
                continue
            matched += 1
            verdict, wit = compare(r[key]['occ'], c['occ'], ambiguous=_ambiguous(f),
                                   ref_keys=set(r), cur_keys=set(cur), excl=_excl(pm))
            inst = '%s: %s reported under its confirmed condition' % (f.short, key[:60])
            if verdict not in ('ok', 'incomparable') and c['kind'] == 'raise':
                rk = sorted(k for k, v in r.items() if v['kind'] == 'raise')
                ck = sorted(k for k, v in cur.items() if v['kind'] == 'raise')
                if rk == ck:
                    v2, _ = compare([cj for k in rk for cj in r[k]['occ']],
                                    [cj for k in ck for cj in cur[k]['occ']],
                                    ambiguous=_ambiguous(f), ref_keys=set(r), cur_keys=set(cur), excl=_excl(pm))
                    if v2 == 'ok':
                        verdict = 'ok'      # the same inputs are refused, by a sibling check
            if verdict in ('ok', 'incomparable'):
                ctx.ok(rule, inst, f.loc)
                continue
            ctx.check(rule, False, inst, f.loc,
                      msg='%s: the condition under which `%s` is %s changed (%s) [%s]: %s' % (
                          f.short, key[:70], what, verdict, wit,
                          {'lost': 'inputs that used to be refused are accepted',
                           'extra': 'inputs that used to be accepted are refused',
                           'both': 'the refusal now happens for other inputs',
                           'changed': 'the refusal now happens for other inputs'}[verdict]),
                      key='%s|%s|%s' % (rule, f.qualname, key.split(': ', 1)[1][:80]))
    ctx.extra['%s_sites_matched' % rule] = matched
    ctx.extra['%s_sites_current' % rule] = total
    ctx.floor(rule, matched, 20, 'refusal sites matched with the reference')
