"""C10 -- defaults and examples the compiler accepts are valid for the
generated runtime.  Structural part (DESIGN 4/C10): literal kinds and pattern
semantics agree between ir.*.check and bv.*.validate; the default literal
check is skipped only for null on a nullable field; example flattening equals
the encoder's; tag defaults are emitted with the formatter the symbol creators
use and after them.
"""
import ast

from ..lattice import bv_family, ir_family
from ..model import call_name, dotted, own_nodes, unparse
from ..pathcond import assigned_alternatives, conds_truth, path_info
from ..profiles import controlling_test, reject_profile
from ._pynames import norm
from ._serial import ENC, PYTYPES, VAL
from .C08 import _anchoring

PROP = 'C10'
IR = 'stone.ir.data_types'
GEN = 'stone.frontend.ir_generator.IRGenerator'
EXPLANATION = (
    'Sibling agreement between the compile-time literal checks (stone/ir/data_types.py *.check, '
    'IRGenerator._populate_field_defaults), example computation (Struct/Union._compute_example*) '
    'and the Python runtime/generator. R1: for each defaultable primitive the Python kinds that '
    'ir.T.check accepts among the kinds the parser can produce (bool, int, float, str) must be '
    'kinds bv.T.validate accepts (defaults are emitted unchanged by fmt_obj). R2: both sides '
    'apply the string pattern with the same anchoring. R4: Union._compute_example flattens '
    'exactly the member class the encoder flattens (Struct without enumerated subtypes, which the '
    'generator maps to bv.Struct-not-StructTree), subtype examples start with .tag, null example '
    'fields are omitted. R5: TagRef defaults are emitted as <Class>.<tag> with the formatters the '
    'symbol creators define, and defaults are emitted after every symbol creator. R6: the '
    'literal check of a default is skipped only for null on a nullable field, and ValueError is '
    'converted. Decides these structural parts; decoding of concrete examples is not decided.'
    ' R7 (imported from C08-R6): reading an unset defaulted field returns the default only if the attribute is not generated as nullable through an alias.'
    ' RD (effect-condition drift, stonelint.effects): for the functions this property is anchored in (stonelint.ownership) the path formula of every raise / return / continue / break / assignment / call statement is compared with reference/effects.json by truth table over the leaf tests (so nested vs merged tests, guard clauses vs if/else ladders, De Morgan forms read alike); an effect lost on a path, or a control effect gained on one, is a violation; changed texts and re-spelled tests are not claimed.'
    " RE (expression drift, stonelint.exprdrift): the same functions' attribute names, variable reads, simple statements, calls and arithmetic/slice literals are compared with reference/expressions.json; a substituted attribute or variable, a dropped call or assignment, swapped arguments or a changed literal is a violation; any other edit is not claimed. RC (call-condition drift, stonelint.effects.run_calls): for every call of a repository or imported-library function in those functions, the path conditions of its occurrences are compared with reference/effects.json by truth table; an assignment under which the function used to make the call and now completes without it is a violation (tests on memo tables, emptiness of the iterated collection and earlier refusals excepted; re-spelled conditions are not claimed). MK (memo-key rule, stonelint.memo): a memo table or done-set the reference tree does not have must be keyed by every access path the skipped code reads, injectively and type-aware."
    ' RI (interface drift, stonelint.interface): constants and tables (folded values), compiled regular expressions (witness text), parameter defaults, special methods, base classes and caching decorators of the modules the property rests on are compared with reference/interface.json; only a concrete difference in what is computed is reported.'
    ' MU (mutation drift, stonelint.mutation): the functions the property rests on update in place only the caller-owned, class-level and module-level objects they updated on the confirmed tree, and have no new handler that swallows an exception (reference/mutations.json).')
ASSUMPTIONS = [
    'the parser produces default literals of kinds bool, int, float, str, null and tag references '
    '(p_default_option: primitive | tag_ref)',
    'kind lattice: numbers.Integral = {bool,int}; numbers.Real = {bool,int,float}',
]

KINDS = {
    'numbers.Integral': {'bool', 'int'}, 'numbers.Real': {'bool', 'int', 'float'},
    'bool': {'bool'}, 'int': {'bool', 'int'}, 'float': {'float'}, 'str': {'str'},
    'bytes': {'bytes'}, 'memoryview': {'memoryview'}, 'datetime.datetime': {'datetime'},
    'list': {'list'}, 'tuple': {'tuple'}, 'dict': {'dict'},
}
PARSER_KINDS = {'bool', 'int', 'float', 'str'}
PRIMS = ['Bytes', 'Boolean', 'String', 'Timestamp', 'Int32', 'Int64', 'UInt32', 'UInt64',
         'Float32', 'Float64']


def _kindset(pm, module, names):
    out = set()
    for n in names:
        if n in KINDS:
            out |= KINDS[n]
        elif n in module.assigns and isinstance(module.assigns[n], ast.Tuple):
            for e in module.assigns[n].elts:
                out |= KINDS.get(dotted(e) or '', {'?' + unparse(e)})
        else:
            out.add('?' + n)
    return out


def _accepted_kinds(pm, f, vname):
    prof = reject_profile(f.node, {vname})
    types = [c[2] for cons, _ in prof for c in cons if c[0] == 'type' and c[1] == 'val']
    if not types:
        return None
    acc = None
    for t in types:
        k = _kindset(pm, f.module, t)
        acc = k if acc is None else (acc & k)
    return acc


def run(pm, ctx):
    ctx.rule('C10-R1', 'literal kinds accepted for a default by ir.T.check are accepted by '
                       'bv.T.validate')
    ctx.rule('C10-R2', 'compile-time and runtime apply a string pattern with the same anchoring')
    ctx.rule('C10-R4', 'example flattening equals encoder flattening; .tag first; nulls omitted')
    ctx.rule('C10-R5', 'tag defaults use the symbol creators\' formatter and are emitted after them')
    ctx.rule('C10-R6', 'the default literal check runs unless (nullable and default is null); '
                       'ValueError is converted to InvalidSpec')
    irf, bvf = ir_family(pm), bv_family(pm)

    # ---------------- R1
    for t in PRIMS:
        fi = pm.lookup_method(irf.classes[t], 'check')
        fb = pm.lookup_method(bvf.classes[t], 'validate')
        ai = _accepted_kinds(pm, fi, 'val')
        ab = _accepted_kinds(pm, fb, 'val')
        if ai is None or ab is None:
            ctx.check('C10-R1', False, '%s: type tests found on both sides' % t, fi.loc,
                      msg='no isinstance test on the value in %s or %s' % (fi.short, fb.short),
                      key='C10-R1|%s|no-type-test' % t)
            continue
        for k in sorted((ai & PARSER_KINDS)):
            ctx.check('C10-R1', k in ab,
                      '%s: a %s default accepted by the compiler is accepted by the runtime'
                      % (t, k), fi.loc,
                      msg='ir.%s.check accepts a %s literal as default but bv.%s.validate accepts '
                          'only %s: the emitted default is not a valid %s value' % (
                              t, k, t, sorted(ab), t),
                      key='C10-R1|%s|%s' % (t, k))

    # ---------------- R2
    ii = pm.func(IR + '.String.__init__')
    ic = pm.func(IR + '.String.check')
    meth = [c[1] for cons, _ in reject_profile(ic.node, {'val'}) for c in cons
            if c[0] == 'pattern']
    a_ir = _anchoring(ii, meth[0] if meth else '?')
    bi = pm.func(VAL + '.String.__init__')
    bc = pm.func(VAL + '.String.validate')
    methb = [c[1] for cons, _ in reject_profile(bc.node, {'val'}) for c in cons
             if c[0] == 'pattern']
    a_bv = _anchoring(bi, methb[0] if methb else '?')
    ctx.check('C10-R2', a_ir == a_bv, 'String pattern anchoring: compiler %s, runtime %s'
              % (a_ir, a_bv), ic.loc,
              msg='the compiler applies String patterns as %r but the runtime as %r: a default or '
                  'example that only matches a prefix is accepted and then rejected at runtime'
                  % (a_ir, a_bv), key='C10-R2|String|anchoring')

    # ---------------- R4
    uce = pm.func(IR + '.Union._compute_example')
    upd = [n for n in own_nodes(uce.node) if isinstance(n, ast.Call) and
           unparse(n.func) == 'ex_val.update']
    good = False
    if len(upd) == 1:
        ct = controlling_test(upd[0])
        if ct and ct[1]:
            t = unparse(ct[0])
            parts = {unparse(v) for v in (ct[0].values if isinstance(ct[0], ast.BoolOp) and
                                           isinstance(ct[0].op, ast.And) else [ct[0]])}
            good = parts in ({'isinstance(data_type, Struct)',
                              'not data_type.has_enumerated_subtypes()'},
                             {'is_struct_type(data_type)',
                              'not data_type.has_enumerated_subtypes()'})
    ctx.check('C10-R4', good, 'Union._compute_example flattens exactly Struct members without '
              'enumerated subtypes', uce.loc,
              msg='Union._compute_example flattens under a different condition than the encoder',
              key='C10-R4|%s|flatten' % uce.qualname)
    # data_type there is the member type with Nullable peeled
    ctx.check('C10-R4', any(isinstance(n, ast.Assign) and 'unwrap_nullable(field.data_type)' in
                            unparse(n.value) and 'data_type' in unparse(n.targets[0])
                            for n in own_nodes(uce.node)),
              'Union._compute_example peels Nullable before deciding', uce.loc,
              msg='Union._compute_example does not unwrap Nullable before the flatten decision',
              key='C10-R4|%s|peel' % uce.qualname)
    # the encoder's condition
    eu = pm.func(ENC + '.encode_union')
    fl = [n for n in own_nodes(eu.node) if isinstance(n, ast.Call) and
          unparse(n.func) == 'd.update']
    goode = False
    if len(fl) == 1:
        from ..lattice import reaching_classes
        cls = reaching_classes(pm, bvf, eu, fl[0], 'field_validator')
        goode = cls == {'Struct'}
    ctx.check('C10-R4', goode, 'encode_union flattens exactly bv.Struct (not StructTree) members',
              eu.loc, msg='encode_union flattens a different member class set',
              key='C10-R4|%s|flatten' % eu.qualname)
    # generator maps has_enumerated_subtypes <-> StructTree
    gsc = pm.func(PYTYPES + '.PythonTypesBackend._generate_struct_class')
    pi = path_info(gsc.node)
    m = {}
    for leaf, _st in assigned_alternatives(gsc.node, 'validator'):
        if isinstance(leaf, ast.Constant):
            pol = [p for e, p in pi.at(leaf) if unparse(e) == 'data_type.has_enumerated_subtypes()']
            m[leaf.value] = pol
    ctx.check('C10-R4', m == {'StructTree': [True], 'Struct': [False]},
              'generator uses bv.StructTree exactly for structs with enumerated subtypes', gsc.loc,
              msg='validator kind selection changed: %r' % m,
              key='C10-R4|%s|kind' % gsc.qualname)
    ces = pm.func(IR + '.Struct._compute_example_enumerated_subtypes')
    first = [n for n in own_nodes(ces.node) if isinstance(n, ast.Assign) and
             isinstance(n.value, ast.Call) and call_name(n.value) == 'OrderedDict' and
             "'.tag'" in unparse(n.value)]
    upd2 = [n for n in own_nodes(ces.node) if isinstance(n, ast.Call) and
            isinstance(n.func, ast.Attribute) and n.func.attr == 'update']
    ctx.check('C10-R4', len(first) == 1 and len(upd2) == 1 and
              first[0].lineno < upd2[0].lineno and
              unparse(upd2[0].func.value) == unparse(first[0].targets[0]),
              'enumerated-subtype example starts with .tag then the subtype fields', ces.loc,
              msg='subtype example no longer puts .tag first',
              key='C10-R4|%s|tag-first' % ces.qualname)
    fh = pm.func(IR + '.Struct._compute_example_flat_helper')
    pi = path_info(fh.node)
    stores = [n for n in own_nodes(fh.node) if isinstance(n, ast.Assign) and
              isinstance(n.targets[0], ast.Subscript) and
              unparse(n.targets[0].value) == 'ex_val']
    from_ex = [n for n in stores if 'example_field.value' in unparse(n.value)]
    ctx.check('C10-R4', len(from_ex) == 1 and any(
        unparse(e) == 'example_field.value is None' and not pol for e, pol in pi.at(from_ex[0])),
        'null example fields are omitted from the computed example', fh.loc,
        msg='a null example field is stored in the computed example',
        key='C10-R4|%s|null-omitted' % fh.qualname)
    from_def = [n for n in stores if 'field.default' in unparse(n.value)]
    ctx.check('C10-R4', len(from_def) == 1 and any(
        unparse(e) == 'field.has_default' and pol for e, pol in pi.at(from_def[0])),
        'absent defaulted fields take the default in the example', fh.loc,
        msg='defaults are not substituted for absent example fields',
        key='C10-R4|%s|default' % fh.qualname)

    # ---------------- R5
    gpv = pm.func(PYTYPES + '.PythonTypesBackend._generate_python_value')
    sc = pm.func(PYTYPES + '.PythonTypesBackend._generate_union_class_symbol_creators')
    ref_cls = ref_tag = def_cls = def_tag = None
    for n in own_nodes(gpv.node):
        if isinstance(n, ast.Call):
            c = norm(pm, gpv.module, n)
            if c and 'union_data_type' in c[1]:
                ref_cls = c
            elif c and 'tag_name' in c[1]:
                ref_tag = c
    for n in own_nodes(sc.node):
        if isinstance(n, ast.Call):
            c = norm(pm, sc.module, n)
            if c and c[1] == 'data_type.name':
                def_cls = c
            elif c and c[1] == 'field.name':
                def_tag = c
    ctx.check('C10-R5', ref_cls is not None and def_cls is not None and
              (ref_cls[0], ref_cls[2]) == (def_cls[0], def_cls[2]),
              'tag default class name formatter == symbol creator class formatter (%s)'
              % (ref_cls and ref_cls[0]), gpv.loc,
              msg='tag default names the union class as %s, symbol creators as %s' % (
                  ref_cls, def_cls), key='C10-R5|%s|class' % gpv.qualname)
    ctx.check('C10-R5', ref_tag is not None and def_tag is not None and
              (ref_tag[0], ref_tag[2], ref_tag[3]) == (def_tag[0], def_tag[2], def_tag[3]),
              'tag default attribute formatter == symbol creator attribute formatter (%s)'
              % (ref_tag and ref_tag[0]), gpv.loc,
              msg='tag default names the tag as %s, symbol creators as %s' % (ref_tag, def_tag),
              key='C10-R5|%s|tag' % gpv.qualname)
    pi = path_info(gpv.node)
    pref = [n for n in own_nodes(gpv.node) if isinstance(n, ast.Assign) and
            'fmt_namespace' in unparse(n.value)]
    ctx.check('C10-R5', len(pref) == 1 and any(
        isinstance(e, ast.Compare) and isinstance(e.ops[0], ast.NotEq) and pol and
        'namespace' in unparse(e) for e, pol in pi.at(pref[0])),
        'foreign tag defaults are prefixed with the namespace module', gpv.loc,
        msg='tag default of a foreign union is not namespace-qualified',
        key='C10-R5|%s|ns' % gpv.qualname)
    # a tag default is emitted as the class attribute <Union>.<tag>, which is a value only for a
    # Void member (for any other member it is a classmethod): ir.Union.check lets a tag
    # reference through only after testing that the member it names is Void
    from ..conddrift import _subst_text
    uc = pm.func('stone.ir.data_types.Union.check')
    piu = path_info(uc.node)
    exits = []
    for lp in own_nodes(uc.node):
        if isinstance(lp, ast.For):
            for n in ast.walk(lp):
                if isinstance(n, (ast.Break, ast.Return)):
                    exits.append(n)
    good_exits = 0
    for n in exits:
        atoms = [(_subst_text(uc, e), pol) for e, pol in piu.at(n)]
        named = any(isinstance(e, ast.Compare) and 'tag_name' in unparse(e) and
                    isinstance(e.ops[0], ast.Eq) and pol for e, pol in piu.at(n))
        void = any(t.replace('(', '').replace(')', '') == 'is_void_typefield.data_type' and pol
                   for t, pol in atoms)
        ok_exit = named and void
        good_exits += ok_exit
        ctx.check('C10-R5', ok_exit, 'Union.check accepts a tag reference only for a Void member',
                  '%s:%d' % (uc.module.relpath, n.lineno),
                  msg='Union.check leaves the member search at line %d without having tested that '
                      'the named member is Void (conditions: %s): a default naming a non-Void '
                      'member is accepted and emitted as a classmethod reference' % (
                          n.lineno, [t for t, _ in atoms]),
                  key='C10-R5|%s|void-member' % uc.qualname)
    ctx.floor('C10-R5', len(exits), 1, 'accepting exits of Union.check')
    # emission order: defaults after every symbol creator
    pos = emission_order(pm)
    ctx.check('C10-R5', '_generate_struct_attributes_defaults' in pos and
              '_generate_union_class_symbol_creators' in pos and
              pos['_generate_struct_attributes_defaults'] >
              pos['_generate_union_class_symbol_creators'],
              'defaults are emitted in a later pass than the union symbol creators',
              PYTYPES, msg='field defaults are emitted before (or in the same pass as) the union '
                           'symbol creators: a tag default would capture the None placeholder',
              key='C10-R5|emission-order|defaults')
    gad = pm.func(PYTYPES + '.PythonTypesBackend._generate_struct_attributes_defaults')
    pi = path_info(gad.node)
    em = [n for n in own_nodes(gad.node) if isinstance(n, ast.Call) and call_name(n) == 'emit']
    ctx.check('C10-R5', len(em) == 1 and
              {(unparse(e), pol) for e, pol in pi.at(em[0])} == {('field.has_default', True)} and
              '_generate_python_value(ns, field.default)' in unparse(em[0]) and
              any(isinstance(l, ast.For) and unparse(l.iter) == 'data_type.fields'
                  for l in own_nodes(gad.node)),
              'a default is emitted for exactly the fields that have one', gad.loc,
              msg='default emission no longer covers exactly the defaulted fields',
              key='C10-R5|%s|coverage' % gad.qualname)

    # ---------------- R6
    pfd = pm.func(GEN + '._populate_field_defaults')
    pi = path_info(pfd.node)
    chk = [n for n in own_nodes(pfd.node) if isinstance(n, ast.Call) and
           unparse(n.func) == 'field.data_type.check']

    def key(e):
        t = unparse(e)
        if t == 'field._ast_node.type_ref.nullable':
            return 'nullable'
        if t == 'default_value is None':
            return 'null'
        if t == 'default_value is not None':
            return ('not', 'null')
        return ('other', t)
    good = False
    if len(chk) == 1:
        table = conds_truth(pi.at(chk[0]), key, ['nullable', 'null'])
        good = table == {(False, False): True, (True, False): True, (False, True): True,
                         (True, True): False}
    ctx.check('C10-R6', good, 'default literal check skipped only for null on a nullable field',
              pfd.loc, msg='the default literal check is skipped under a weaker condition',
              key='C10-R6|%s|guard' % pfd.qualname)
    if chk:
        from ..escape import EscapeAnalysis
        ea = EscapeAnalysis(pm, None, {})
        h = ea.caught_by(pfd, chk[0], 'ValueError')
        conv = h is not None and any(isinstance(n, ast.Raise) and isinstance(n.exc, ast.Call) and
                                     call_name(n.exc) == 'InvalidSpec' for n in h.body)
        ctx.check('C10-R6', conv, 'ValueError of the literal check is converted to InvalidSpec',
                  pfd.loc, msg='the ValueError of a bad default is not converted to InvalidSpec',
                  key='C10-R6|%s|convert' % pfd.qualname)
    sd = [n for n in own_nodes(pfd.node) if isinstance(n, ast.Call) and
          unparse(n.func) == 'field.set_default']
    ctx.check('C10-R6', len(sd) == 1 and any(
        unparse(e) == 'field._ast_node.has_default' and pol for e, pol in pi.at(sd[0])),
        'set_default for every field with a declared default', pfd.loc,
        msg='set_default is not reached for every declared default',
        key='C10-R6|%s|set' % pfd.qualname)
    # ---------------- R9: a nullable field never carries a default (its unset value is None)
    ctx.rule('C10-R9', 'every default on a nullable field is refused, `= null` included')
    csf = pm.func('stone.frontend.ir_generator.IRGenerator._create_struct_field')
    pic = path_info(csf.node)
    exact = []
    for n in own_nodes(csf.node):
        if isinstance(n, ast.Raise):
            pos = sorted(unparse(e) for e, p in pic.at(n) if p)
            if 'stone_field.has_default' in pos and any('Nullable' in t for t in pos):
                exact.append(pos)
    ctx.check('C10-R9', exact == [['isinstance(data_type, Nullable)', 'stone_field.has_default']],
              '_create_struct_field refuses a default on a nullable field under exactly '
              '(nullable and has_default)', csf.loc,
              msg='the refusal of defaults on nullable fields now holds under %s: some default '
                  '(e.g. `= null`) is accepted, which the generated attribute cannot represent '
                  'and computed examples then carry an explicit null the encoder drops' % exact,
              key='C10-R9|%s' % csf.qualname)

    # ---------------- R8: computed examples are handed out as copies
    ctx.rule('C10-R8', 'get_examples never exposes or rewrites the stored examples: every use of '
                       'self._examples there is the argument of copy.deepcopy')
    ge = pm.func('stone.ir.data_types.UserDefined.get_examples')
    uses = [n for n in own_nodes(ge.node, include_nested=True) if isinstance(n, ast.Attribute) and
            unparse(n) == 'self._examples' and isinstance(n.ctx, ast.Load)]
    bad = []
    for u in uses:
        par = getattr(u, '_parent', None)
        if not (isinstance(par, ast.Call) and dotted(par.func) in ('copy.deepcopy', 'deepcopy')
                and u in par.args):
            bad.append(u.lineno)
    ctx.check('C10-R8', uses and not bad, 'get_examples deep-copies the stored examples before '
              'compacting or returning them', ge.loc,
              msg='get_examples uses self._examples without copy.deepcopy (line %s): compacting '
                  'rewrites the stored examples, so a later get_examples() returns documents '
                  'that no longer encode back to themselves' % bad,
              key='C10-R8|%s' % ge.qualname)
    ctx.import_rules(pm, 'C08', {'C08-R6'}, 'C10-R7',
                     'the generated attribute takes nullability from the field type itself, not '
                     'through aliases (shared with C08-R6)')

    ctx.import_rules(pm, 'C02', {'C02-R12'}, 'C10-R11',
                     'the unwrap helpers of the IR peel exactly the wrappers their names say '
                     '(shared with C02-R12)')
    from ..effects import run_decisions
    from ..ownership import OWN
    run_decisions(pm, ctx, 'C10-RD', OWN['C10'])
    from .. import exprdrift
    exprdrift.run(pm, ctx, 'C10-RE', OWN['C10'])
    from ..effects import run_calls
    run_calls(pm, ctx, 'C10-RC', OWN['C10'])
    from .. import memo
    memo.run(pm, ctx, 'C10-MK', OWN['C10'])
    from .. import interface
    interface.run(pm, ctx, 'C10-RI', OWN['C10'])
    from .. import mutation
    mutation.run(pm, ctx, 'C10-MU', OWN['C10'])
    ctx.import_rules(pm, 'C08', {'C08-R3'}, 'C10-R10',
                     'the generated validators carry the declared pattern/format text exactly '
                     '(through repr()), so what the compiler accepted is what the runtime checks '
                     '(shared with C08-R3)')

def emission_order(pm):
    """{generator method name: index of the top-level statement of
    _generate_base_namespace_module that first invokes it}.  Methods invoked in
    the same top-level statement (one loop) share an index, so "emitted in a
    later pass" means a strictly greater index."""
    f = pm.func(PYTYPES + '.PythonTypesBackend._generate_base_namespace_module')
    passes = {}
    for i, s in enumerate(f.node.body):
        for n in ast.walk(s):
            if isinstance(n, ast.Call) and isinstance(n.func, ast.Attribute) and \
                    isinstance(n.func.value, ast.Name) and n.func.value.id == 'self' and \
                    n.func.attr.startswith('_generate'):
                passes.setdefault(n.func.attr, i)
            elif isinstance(n, ast.Call) and isinstance(n.func, ast.Name) and \
                    n.func.id.startswith('generate_'):
                passes.setdefault(n.func.id, i)
    return passes
