"""A3 -- order-taint dataflow.

Abstract values:  'O' ordered / order-insensitive,  'U' unordered (set-like),
'T' a sequence or dict whose order was copied from an unordered iteration or
from the file system.  Intraprocedural evaluation with structural
last-definition lookup, plus three program-wide summaries computed to a
fixpoint: function return values, attribute values (by attribute name) and
"reaches an emission".
"""
import ast

from .model import FuncInfo, call_name, dotted, own_nodes, unparse

SET_METHODS = {'union', 'intersection', 'difference', 'symmetric_difference', 'copy'}
ORDER_INSENSITIVE_CALLS = {'len', 'any', 'all', 'min', 'max', 'sum', 'bool', 'set', 'frozenset',
                           'isinstance', 'sorted'}
EMITTERS = {'emit', 'emit_raw', 'emit_wrapped_text', 'emit_placeholder', '_append_output',
            'generate_multiline_list', 'write', 'block', 'render', 'add_named_placeholder',
            'add_positional_placeholder', 'output_to_relative_path', 'copy_to_path'}
FS_SOURCES = {'os.walk', 'os.listdir', 'glob.glob', 'os.scandir'}


def join(a, b):
    # 'C': an ordered container some of whose elements are order-tainted
    order = {'O': 0, 'C': 1, 'T': 2, 'U': 3}
    return a if order[a] >= order[b] else b


class OrderTaint:
    def __init__(self, pm, cg, funcs, injective_key=None, sanitized_attrs=()):
        """funcs: iterable of FuncInfo in scope.  injective_key(func, call) ->
        bool decides whether a keyed sort is a total order on its elements."""
        self.pm = pm
        self.cg = cg
        self.funcs = {f.qualname: f for f in funcs}
        self.injective_key = injective_key or (lambda f, c: False)
        self.sanitized_attrs = set(sanitized_attrs)
        self.singleton_attrs = self._singletons()
        self.ret = {q: 'O' for q in self.funcs}
        self.attr = {}             # attribute name -> value
        self.emits = {q: False for q in self.funcs}
        self.param = {}            # (qualname, param) -> value
        self._defs = {}
        self._busy = set()
        self.iterations = 0
        self._solve()

    # ------------------------------------------------------------------
    def _solve(self):
        changed = True
        while changed and self.iterations < 12:
            changed = False
            self.iterations += 1
            for q, f in self.funcs.items():
                # return summary
                r = 'O'
                is_gen = False
                for n in own_nodes(f.node):
                    if isinstance(n, ast.Return) and n.value is not None:
                        r = join(r, self.value(f, n.value, n))
                    elif isinstance(n, (ast.Yield, ast.YieldFrom)):
                        is_gen = True
                        for lp in self._loops_around(n):
                            if self.value(f, lp.iter, lp) not in ('O', 'C'):
                                r = join(r, 'T')
                        if isinstance(n, ast.YieldFrom) and n.value is not None and \
                                self.value(f, n.value, n) != 'O':
                            r = join(r, 'T')
                if f.is_property and r != 'O':
                    if self.attr.get(f.name, 'O') != join(self.attr.get(f.name, 'O'), r):
                        self.attr[f.name] = join(self.attr.get(f.name, 'O'), r)
                        changed = True
                if r != self.ret[q]:
                    self.ret[q] = r
                    changed = True
                # attribute summary
                for n in own_nodes(f.node):
                    if isinstance(n, ast.Assign):
                        for t in n.targets:
                            if isinstance(t, ast.Attribute):
                                v = self.value(f, n.value, n)
                                if v != 'O' and join(self.attr.get(t.attr, 'O'), v) != \
                                        self.attr.get(t.attr, 'O'):
                                    self.attr[t.attr] = join(self.attr.get(t.attr, 'O'), v)
                                    changed = True
                            elif isinstance(t, ast.Subscript) and \
                                    isinstance(t.value, ast.Attribute):
                                # self.table[k] = <order-tainted value>: the table is an
                                # ordered container of tainted collections
                                v = self.value(f, n.value, n)
                                a = t.value.attr
                                if v != 'O' and join(self.attr.get(a, 'O'), 'C') != \
                                        self.attr.get(a, 'O'):
                                    self.attr[a] = join(self.attr.get(a, 'O'), 'C')
                                    changed = True
                # parameter summaries of the callees
                for n in own_nodes(f.node):
                    if isinstance(n, ast.Call):
                        cands = self.cg.resolve_call(f, n)
                        if not cands or len(cands) > 4:
                            continue
                        vals = [self.value(f, a, n) for a in n.args]
                        kvals = {k.arg: self.value(f, k.value, n) for k in n.keywords if k.arg}
                        if not any(v != 'O' for v in vals + list(kvals.values())):
                            continue
                        for c in cands:
                            if c.qualname not in self.funcs:
                                continue
                            params = c.params[1:] if (c.cls is not None and
                                                      not c.is_staticmethod) else c.params
                            for i, v in enumerate(vals):
                                if v != 'O' and i < len(params):
                                    kk = (c.qualname, params[i])
                                    nv = join(self.param.get(kk, 'O'), v)
                                    if nv != self.param.get(kk, 'O'):
                                        self.param[kk] = nv
                                        changed = True
                            for kname, v in kvals.items():
                                if v != 'O' and kname in params:
                                    kk = (c.qualname, kname)
                                    nv = join(self.param.get(kk, 'O'), v)
                                    if nv != self.param.get(kk, 'O'):
                                        self.param[kk] = nv
                                        changed = True
                # emits summary
                if not self.emits[q]:
                    for n in own_nodes(f.node):
                        if isinstance(n, ast.Call):
                            nm = call_name(n)
                            if nm in EMITTERS or any(
                                    self.emits.get(c.qualname) for c in
                                    self.cg.resolve_call(f, n)):
                                self.emits[q] = True
                                changed = True
                                break

    def _singletons(self):
        """Set-valued attributes all of whose ``add`` sites in the program pass
        one and the same constant: a set with at most one element is order
        insensitive.  {attr: constant}"""
        adds = {}
        other_growth = set()
        for f in self.pm.functions.values():
            for n in own_nodes(f.node):
                if isinstance(n, ast.Call) and isinstance(n.func, ast.Attribute) and \
                        isinstance(n.func.value, ast.Attribute):
                    a = n.func.value.attr
                    if n.func.attr == 'add' and n.args:
                        if isinstance(n.args[0], ast.Constant):
                            adds.setdefault(a, set()).add(repr(n.args[0].value))
                        else:
                            # forwarding a parameter: resolve one level through callers
                            adds.setdefault(a, set()).add(('param', f.qualname,
                                                           unparse(n.args[0])))
                    elif n.func.attr in ('update', 'union', '__ior__'):
                        other_growth.add(a)
        out = {}
        for a, vals in adds.items():
            if a in other_growth:
                continue
            consts = set()
            ok = True
            for v in vals:
                if isinstance(v, tuple):
                    _, q, pname = v
                    g = self.pm.functions[q]
                    if pname not in g.params:
                        ok = False
                        break
                    idx = g.params.index(pname) - (1 if g.cls is not None else 0)
                    sites = [c for h in self.pm.functions.values() for c in own_nodes(h.node)
                             if isinstance(c, ast.Call) and call_name(c) == g.name]
                    if not sites:
                        ok = False
                    for c in sites:
                        if idx < len(c.args) and isinstance(c.args[idx], ast.Constant):
                            consts.add(repr(c.args[idx].value))
                        else:
                            ok = False
                else:
                    consts.add(v)
            if ok and len(consts) == 1:
                out[a] = next(iter(consts))
        return out

    def _loops_around(self, node):
        out = []
        n = getattr(node, '_parent', None)
        while n is not None and not isinstance(n, (ast.FunctionDef, ast.AsyncFunctionDef,
                                                   ast.Lambda)):
            if isinstance(n, (ast.For, ast.AsyncFor)):
                out.append(n)
            elif isinstance(n, (ast.ListComp, ast.SetComp, ast.GeneratorExp, ast.DictComp)):
                pass
            n = getattr(n, '_parent', None)
        return out

    # ------------------------------------------------------------------
    def local_defs(self, f):
        """name -> list of (stmt, kind, value_expr) in source order."""
        d = self._defs.get(f.qualname)
        if d is not None:
            return d
        d = {}

        def add(name, stmt, kind, val):
            d.setdefault(name, []).append((stmt, kind, val))
        for n in own_nodes(f.node):
            if isinstance(n, ast.Assign):
                for t in n.targets:
                    for nm in _target_names(t):
                        add(nm, n, 'assign', n.value)
            elif isinstance(n, ast.AnnAssign) and n.value is not None:
                for nm in _target_names(n.target):
                    add(nm, n, 'assign', n.value)
            elif isinstance(n, ast.AugAssign):
                for nm in _target_names(n.target):
                    add(nm, n, 'aug', n.value)
            elif isinstance(n, (ast.For, ast.AsyncFor)):
                for nm in _target_names(n.target):
                    add(nm, n, 'iter', n.iter)
            elif isinstance(n, ast.comprehension):
                # comprehension variables: positioned at their iterable
                n.lineno = getattr(n.iter, 'lineno', 0)
                n.col_offset = getattr(n.iter, 'col_offset', 0)
                for nm in _target_names(n.target):
                    add(nm, n, 'iter', n.iter)
            elif isinstance(n, ast.Expr) and isinstance(n.value, ast.Call) and \
                    isinstance(n.value.func, ast.Attribute) and \
                    isinstance(n.value.func.value, ast.Name):
                recv = n.value.func.value.id
                m = n.value.func.attr
                if m == 'sort':
                    add(recv, n, 'sort', n.value)
                elif m in ('append', 'extend', 'insert', 'add', 'update', 'setdefault'):
                    add(recv, n, 'grow', n.value)
            elif isinstance(n, ast.Assign) and isinstance(n.targets[0], ast.Subscript):
                pass
        # d[k] = v inside a loop grows d
        for n in own_nodes(f.node):
            if isinstance(n, ast.Assign) and isinstance(n.targets[0], ast.Subscript) and \
                    isinstance(n.targets[0].value, ast.Name):
                add(n.targets[0].value.id, n, 'store', n.value)
        for nm in d:
            d[nm].sort(key=lambda x: getattr(x[0], "_ord", (x[0].lineno, x[0].col_offset)))
        self._defs[f.qualname] = d
        return d

    def name_value(self, f, name, at):
        defs_ = self.local_defs(f).get(name)
        base = self.param.get((f.qualname, name), 'O')
        if not defs_:
            return base
        key = (f.qualname, name, id(at))
        if key in self._busy:
            return 'O'
        self._busy.add(key)
        try:
            return self._name_value(f, name, at, defs_, base)
        finally:
            self._busy.discard(key)

    def _name_value(self, f, name, at, defs_, base='O'):
        at_line = getattr(at, 'lineno', 10**9)
        val = base
        seen_any = False
        for stmt, kind, v in defs_:
            if isinstance(stmt, ast.comprehension):
                # a comprehension variable reaches exactly the comprehension it belongs to
                comp = getattr(stmt, '_parent', None)
                n_ = at
                inside = False
                while n_ is not None:
                    if n_ is comp:
                        inside = True
                        break
                    n_ = getattr(n_, '_parent', None)
                if not inside:
                    continue
            elif stmt.lineno > at_line or (stmt is at and kind != 'iter'):
                continue
            seen_any = True
            if kind == 'assign':
                nv = self.value(f, v, stmt) if v is not None else 'O'
                # a definition in an enclosing or the same block replaces; one
                # in a sibling branch merges
                if self._dominates(stmt, at):
                    val = nv
                else:
                    val = join(val, nv)
            elif kind == 'sort':
                if self._dominates(stmt, at):
                    if v.keywords and not self.injective_key(f, v):
                        val = 'T' if val != 'O' else 'O'
                    else:
                        val = 'O'
            elif kind == 'aug':
                val = join(val, self.value(f, v, stmt))
            elif kind == 'iter':
                iv = self.value(f, v, stmt)
                # loop variable itself is an element, not a collection -- unless the
                # iterable is an ordered container *of* unordered collections
                val = join(val, 'T' if iv == 'C' else 'O')
            elif kind == 'store':
                for lp in self._loops_around(stmt):
                    if self.value(f, lp.iter, lp) not in ('O', 'C'):
                        if val == 'O':
                            val = 'T'
                sv = self.value(f, v, stmt) if v is not None else 'O'
                if sv != 'O' and val == 'O':
                    val = 'C'
            elif kind == 'grow':
                # growing inside a loop over an unordered source taints order
                for lp in self._loops_around(stmt):
                    if self.value(f, lp.iter, lp) not in ('O', 'C'):
                        if val in ('O', 'C'):
                            val = 'T'
                if v is not None and isinstance(v, ast.Call) and \
                        v.func.attr in ('extend', 'update') and v.args:
                    av = self.value(f, v.args[0], stmt)
                    if av not in ('O', 'C') and val != 'U':
                        # extending a list by an unordered collection
                        val = join(val, 'T')
                elif v is not None and isinstance(v, ast.Call) and \
                        v.func.attr in ('append', 'insert') and v.args:
                    av = self.value(f, v.args[-1], stmt)
                    if av != 'O' and val == 'O':
                        val = 'C'
        if not seen_any and name in f.params:
            return base
        if not seen_any:
            # used before any definition in source order (loop): merge all
            for stmt, kind, v in defs_:
                if kind == 'assign' and v is not None:
                    val = join(val, self.value(f, v, stmt))
        return val

    @staticmethod
    def _dominates(d, use):
        """d's block is an ancestor-or-same block of use and d comes earlier."""
        blk = getattr(d, '_parent', None)
        n = use
        while n is not None:
            p = getattr(n, '_parent', None)
            if p is blk:
                return True
            n = p
        return False

    # ------------------------------------------------------------------
    def value(self, f, e, at=None, depth=0):
        if depth > 12 or e is None:
            return 'O'
        at = at or e
        if isinstance(e, (ast.Set, ast.SetComp)):
            return 'U'
        if isinstance(e, ast.Name):
            return self.name_value(f, e.id, at)
        if isinstance(e, ast.Attribute):
            if e.attr in self.sanitized_attrs or e.attr in self.singleton_attrs:
                return 'O'
            if e.attr in self.attr:
                return self.attr[e.attr]
            return 'O'
        if isinstance(e, ast.BinOp):
            l, r = self.value(f, e.left, at, depth + 1), self.value(f, e.right, at, depth + 1)
            if isinstance(e.op, (ast.BitOr, ast.BitAnd, ast.Sub, ast.BitXor)) and 'U' in (l, r):
                return 'U'
            if isinstance(e.op, ast.Add):
                return join(l, r) if 'U' not in (l, r) else 'T'
            return 'O'
        if isinstance(e, ast.IfExp):
            return join(self.value(f, e.body, at, depth + 1), self.value(f, e.orelse, at, depth + 1))
        if isinstance(e, (ast.ListComp, ast.GeneratorExp, ast.DictComp)):
            v = 'O'
            for g in e.generators:
                if self.value(f, g.iter, at, depth + 1) not in ('O', 'C'):
                    v = 'T'
            if v == 'O':
                # ordered comprehension whose elements are themselves unordered / tainted
                elts = [e.value] if isinstance(e, ast.DictComp) else [e.elt]
                for x in elts:
                    if self.value(f, x, x, depth + 1) in ('U', 'T'):
                        v = 'C'
            return v
        if isinstance(e, ast.Subscript):
            return 'T' if self.value(f, e.value, at, depth + 1) == 'C' else 'O'
        if isinstance(e, ast.Call):
            d = dotted(e.func)
            nm = call_name(e)
            if d in ('set', 'frozenset'):
                return 'U'
            if d in FS_SOURCES:
                return 'T'
            if d == 'sorted':
                if not e.args:
                    return 'O'
                av = self.value(f, e.args[0], at, depth + 1)
                if any(k.arg == 'key' for k in e.keywords) and av != 'O' and \
                        not self.injective_key(f, e):
                    return 'T'
                return 'O'
            if d in ('list', 'tuple', 'iter', 'enumerate', 'reversed', 'OrderedDict', 'dict',
                     'collections.OrderedDict', 'itertools.chain', 'zip', 'map', 'filter'):
                v = 'O'
                for a in e.args:
                    av = self.value(f, a, at, depth + 1)
                    if av == 'C':
                        v = join(v, 'C')
                    elif av != 'O':
                        v = 'T'
                return v
            if isinstance(e.func, ast.Attribute):
                rv = self.value(f, e.func.value, at, depth + 1)
                if e.func.attr in SET_METHODS and rv == 'U':
                    return 'U'
                if e.func.attr in SET_METHODS and any(
                        self.value(f, a, at, depth + 1) == 'U' for a in e.args) and rv == 'U':
                    return 'U'
                if e.func.attr in ('items', 'keys', 'values') and rv not in ('O', 'C'):
                    return 'T'
                if e.func.attr in ('items', 'values') and rv == 'C':
                    return 'C'
                if e.func.attr in ('get', 'pop', 'setdefault') and rv == 'C':
                    return 'T'
                if e.func.attr in ('difference', 'union', 'intersection') and rv == 'U':
                    return 'U'
            # repo function: summary
            v = 'O'
            for c in self.cg.resolve_call(f, e):
                v = join(v, self.ret.get(c.qualname, 'O'))
            return v
        return 'O'

    # ------------------------------------------------------------------
    def body_emits(self, f, loop):
        """Does the body of ``loop`` (a For or a comprehension's element) reach
        an emission or build output text?"""
        body = loop.body if isinstance(loop, (ast.For, ast.AsyncFor)) else [loop]
        for s in body:
            for n in ast.walk(s):
                if isinstance(n, ast.Call):
                    nm = call_name(n)
                    if nm in EMITTERS:
                        return 'calls %s' % nm
                    for c in self.cg.resolve_call(f, n):
                        if self.emits.get(c.qualname):
                            return 'calls %s, which emits' % c.short
                elif isinstance(n, (ast.Yield, ast.YieldFrom)):
                    return None   # handled through the return summary
        return None

    def sinks(self, f):
        """[(node, kind, detail)] order-sensitive uses of unordered values."""
        out = []
        for n in own_nodes(f.node):
            if isinstance(n, (ast.For, ast.AsyncFor)):
                v = self.value(f, n.iter, n)
                if v not in ('O', 'C'):
                    why = self.body_emits(f, n)
                    if why:
                        out.append((n, 'iteration', 'for %s in %s (%s): body %s' % (
                            unparse(n.target), unparse(n.iter)[:60],
                            'unordered' if v == 'U' else 'order-tainted', why)))
            elif isinstance(n, ast.Call):
                d = dotted(n.func)
                # formatting an unordered value into text
                if isinstance(n.func, ast.Attribute) and n.func.attr == 'format':
                    for a in list(n.args) + [k.value for k in n.keywords]:
                        if self.value(f, a, n) == 'U':
                            out.append((n, 'format', 'formats the unordered value %s into text'
                                        % unparse(a)[:50]))
                elif isinstance(n.func, ast.Attribute) and n.func.attr == 'join' and n.args:
                    v = self.value(f, n.args[0], n)
                    if v not in ('O', 'C'):
                        out.append((n, 'join', 'joins the %s value %s' % (
                            'unordered' if v == 'U' else 'order-tainted',
                            unparse(n.args[0])[:50])))
                elif d in ('str', 'repr') and n.args and self.value(f, n.args[0], n) == 'U':
                    out.append((n, 'format', 'renders the unordered value %s as text'
                                % unparse(n.args[0])[:50]))
                elif call_name(n) in EMITTERS:
                    for a in n.args:
                        if isinstance(a, ast.Name) or isinstance(a, ast.Attribute):
                            v = self.value(f, a, n)
                            if v not in ('O', 'C') and call_name(n) == 'generate_multiline_list':
                                out.append((n, 'emit-list', 'emits the %s list %s' % (
                                    'unordered' if v == 'U' else 'order-tainted', unparse(a))))
            elif isinstance(n, ast.BinOp) and isinstance(n.op, ast.Mod) and \
                    isinstance(n.left, ast.Constant) and isinstance(n.left.value, str):
                ops = n.right.elts if isinstance(n.right, ast.Tuple) else [n.right]
                for a in ops:
                    if self.value(f, a, n) == 'U':
                        out.append((n, 'format', '%%-formats the unordered value %s'
                                    % unparse(a)[:50]))
        return out


def _target_names(t):
    if isinstance(t, ast.Name):
        return [t.id]
    if isinstance(t, (ast.Tuple, ast.List)):
        out = []
        for e in t.elts:
            out.extend(_target_names(e))
        return out
    if isinstance(t, ast.Starred):
        return _target_names(t.value)
    return []
