#!/venv/bin/python
"""Confirm sub-agent seeded changes and file them under /verif/seeded/.

For every /tmp/seed/<ID>/out/<k>/ (patch.diff, demo.py, meta.json):
  1. fresh worktree of /repo HEAD under /tmp/vfy-*; demo must pass there;
  2. apply the patch; the whole test suite must still pass (189 passed);
  3. demo must now fail;
  4. run every claimed check of /verif against the patched tree (as a scratch
     copy given with --repo) and record which rules fire;
  5. remove the worktree.
Kept changes go to /verif/seeded/<ID>-<k>/ (patch.diff, demo.py, meta.json).
"""
import json
import os
import shutil
import subprocess
import sys
from concurrent.futures import ThreadPoolExecutor

VERIF = os.path.dirname(os.path.dirname(os.path.abspath(__file__)))
ROOT = os.environ.get('SEED_ROOT', '/tmp/seed')
OFFSET = int(os.environ.get('SEED_OFFSET', '0'))
PY = '/venv/bin/python'


def sh(cmd, cwd=None, timeout=900):
    p = subprocess.run(cmd, shell=True, cwd=cwd, stdout=subprocess.PIPE,
                       stderr=subprocess.STDOUT, text=True, timeout=timeout)
    return p.returncode, p.stdout


def verify(item):
    pid, k, src = item
    wt = '/tmp/vfy-%s-%s' % (pid, k)
    sid = '%s-%d' % (pid, int(k) + OFFSET)
    res = {'id': sid, 'property': pid}
    sh('git -C /repo worktree remove --force %s' % wt)
    rc, out = sh('git -C /repo worktree add --detach %s -q' % wt)
    try:
        os.makedirs(os.path.join(wt, 'out', k), exist_ok=True)
        shutil.copy(os.path.join(src, 'demo.py'), os.path.join(wt, 'out', k, 'demo.py'))
        rc, out = sh('%s out/%s/demo.py' % (PY, k), cwd=wt)
        res['demo_clean_rc'] = rc
        rc, out = sh('git apply %s' % os.path.join(src, 'patch.diff'), cwd=wt)
        res['apply_rc'] = rc
        if rc != 0:
            res['apply_out'] = out[-400:]
            return res
        rc, out = sh('%s -m pytest -q -p no:cacheprovider 2>&1 | tail -3' % PY, cwd=wt)
        res['suite'] = out.strip().splitlines()[-1] if out.strip() else ''
        rc, out = sh('%s out/%s/demo.py' % (PY, k), cwd=wt)
        res['demo_patched_rc'] = rc
        res['demo_patched_tail'] = out[-300:]
        # run the checks against the patched tree
        fired = {}
        props = sorted(f[:3] for f in os.listdir(os.path.join(VERIF, 'stonelint', 'rules'))
                       if f.startswith('C') and f.endswith('.py'))
        for p in props:
            rc, out = sh('%s %s/check %s --repo %s --no-write' % (PY, VERIF, p, wt))
            keys = [l.strip()[5:] for l in out.splitlines() if l.strip().startswith('key: ')]
            if rc != 0:
                fired[p] = {'rc': rc, 'keys': keys,
                            'err': [l for l in out.splitlines() if 'ANALYSIS-ERROR' in l]}
        res['fired'] = fired
        res['ok'] = (res['demo_clean_rc'] == 0 and '189 passed' in res['suite'] and
                     res['demo_patched_rc'] != 0)
    finally:
        sh('git -C /repo worktree remove --force %s' % wt)
        shutil.rmtree(wt, ignore_errors=True)
    if res.get('ok'):
        dst = os.path.join(VERIF, 'seeded', sid)
        os.makedirs(dst, exist_ok=True)
        shutil.copy(os.path.join(src, 'patch.diff'), dst)
        shutil.copy(os.path.join(src, 'demo.py'), dst)
        meta = {}
        try:
            meta = json.load(open(os.path.join(src, 'meta.json')))
        except Exception:
            pass
        meta.update({
            'property': pid,
            'confirmed': {
                'demo_on_clean_tree_rc': res['demo_clean_rc'],
                'suite_with_patch': res['suite'],
                'demo_with_patch_rc': res['demo_patched_rc'],
                'how': 'tools/verify_seeds.py: fresh worktree of /repo HEAD, demo, git apply, '
                       'pytest -q -p no:cacheprovider, demo; worktree removed',
            },
            'caught_by': {p: v['keys'] for p, v in fired.items()},
        })
        json.dump(meta, open(os.path.join(dst, 'meta.json'), 'w'), indent=1)
    return res


def main():
    only = sys.argv[1:]
    items = []
    for pid in sorted(os.listdir(ROOT)):
        d = os.path.join(ROOT, pid, 'out')
        if not os.path.isdir(d):
            continue
        if only and pid not in only:
            continue
        for k in sorted(os.listdir(d)):
            src = os.path.join(d, k)
            if os.path.exists(os.path.join(src, 'patch.diff')) and \
                    os.path.exists(os.path.join(src, 'demo.py')):
                items.append((pid, k, src))
    with ThreadPoolExecutor(max_workers=6) as ex:
        for r in ex.map(verify, items):
            own = r.get('fired', {}).get(r['property'])
            print('%-7s ok=%s suite=%r demo %s->%s own-check=%s others=%s' % (
                r['id'], r.get('ok'), r.get('suite'), r.get('demo_clean_rc'),
                r.get('demo_patched_rc'),
                (own or {}).get('keys') or (own or {}).get('err') or 'SILENT',
                {p: v['keys'] or v['err'] for p, v in r.get('fired', {}).items()
                 if p != r['property']}))
            sys.stdout.flush()


if __name__ == '__main__':
    main()
