"""C06 -- the decoder accepts exactly valid serializations and fails only by
validation.  Structural part (DESIGN 4/C06): exception-escape analysis of the
new-style decoder, container-shape guards on the untrusted input, library
calls on untrusted scalars inside adequate handlers, required-field check on
every path that returns a decoded struct, sibling rejection of the catch-all
tag, accepted short forms.  "Accepts exactly" for bounds is C08's business.
"""
import ast

from ..callgraph import CallGraph
from ..escape import EscapeAnalysis
from ..lattice import bv_family, class_test, reaching_classes
from ..model import returns_text
from ..model import call_name, dotted, own_nodes, unparse
from ..pathcond import path_info
from ..paths import enumerate_paths, path_calls
from ._serial import (BASE, DEC, HELP, NEW_STYLE_DECODERS, SER, VAL, is_validation_error,
                      isinstance_of, last_assign_on_path)

PROP = 'C06'
EXPLANATION = (
    'Static analysis of the JSON decoder of the Python runtime (stone_serializers.py, '
    'stone_validators.py, stone_base.py). R1: exception-escape analysis (explicit raises, '
    'asserts, library-may-raise facts, resolved callees, filtered by enclosing try/except; '
    'least fixpoint over the call graph) from json_decode and json_compat_obj_decode: only '
    'ValidationError may escape; dispatch defaults must be proved dead by class-lattice '
    'exhaustiveness. R2: every container use (in, [], iteration, len, .items) of the untrusted '
    'document in a decode_* function is dominated, locally or at all call sites, by an '
    'isinstance test for a container type on which that operation cannot raise. R3: strptime / '
    'b64decode / json.loads on untrusted data sit in a try whose handlers cover the '
    'library-may-raise set. R4: every path of decode_struct that returns the decoded instance '
    'passes through the required-field check; decoded fields are stored through setattr '
    '(Attribute.__set__, which validates on every non-null path) and Union.__init__ validates '
    'every non-void value. R5: both union forms reject the catch-all tag. R6: callee '
    'preconditions the decoder relies on (get_default only after has_default; union constructor '
    'only with a known or catch-all tag and None for Void; ensure_str only on strings) hold on '
    'every enumerated path. R7: accepted short forms (bare string for Void/nullable tags, '
    'tag-only nullable members, null for nullable). Decides these structural parts, not the '
    'value-level "accepts exactly".'
    ' R8: the decoder validates against the generated validators, so generate_validator_constructor must forward every IR constructor parameter, wrap Nullable on every return, and generate_func_call must drop a keyword only for None (shared with C08-R3).'
    ' R9 (imported from C08-R6): the decoder builds unions through Union.__init__, whose type-only shortcut must stay limited to Struct/Union validators.'
    ' R11 (imported from C08-R10): condition drift of the runtime refusal sites.'
    ' RD (effect-condition drift, stonelint.effects): for the functions this property is anchored in (stonelint.ownership) the path formula of every raise / return / continue / break / assignment / call statement is compared with reference/effects.json by truth table over the leaf tests (so nested vs merged tests, guard clauses vs if/else ladders, De Morgan forms read alike); an effect lost on a path, or a control effect gained on one, is a violation; changed texts and re-spelled tests are not claimed.'
    " RE (expression drift, stonelint.exprdrift): the same functions' attribute names, variable reads, simple statements, calls and arithmetic/slice literals are compared with reference/expressions.json; a substituted attribute or variable, a dropped call or assignment, swapped arguments or a changed literal is a violation; any other edit is not claimed. RC (call-condition drift, stonelint.effects.run_calls): for every call of a repository or imported-library function in those functions, the path conditions of its occurrences are compared with reference/effects.json by truth table; an assignment under which the function used to make the call and now completes without it is a violation (tests on memo tables, emptiness of the iterated collection and earlier refusals excepted; re-spelled conditions are not claimed). MK (memo-key rule, stonelint.memo): a memo table or done-set the reference tree does not have must be keyed by every access path the skipped code reads, injectively and type-aware."
    ' RI (interface drift, stonelint.interface): constants and tables (folded values), compiled regular expressions (witness text), parameter defaults, special methods, base classes and caching decorators of the modules the property rests on are compared with reference/interface.json; only a concrete difference in what is computed is reported.'
    ' MU (mutation drift, stonelint.mutation): the functions the property rests on update in place only the caller-owned, class-level and module-level objects they updated on the confirmed tree, and have no new handler that swallows an exception (reference/mutations.json).')
ASSUMPTIONS = [
    'CPython ast of the working tree is the program; structured control flow',
    'implicit exceptions are modelled only for: container operations on the untrusted document, '
    'the library-may-raise table (strptime: TypeError, ValueError; b64decode: TypeError, '
    'binascii.Error, ValueError on non-ASCII str; json.loads: ValueError; float(): OverflowError)',
    'alias_validators callbacks raise only ValidationError (documented contract of the API)',
    'generated struct constructors called with no arguments only initialise slots',
    'old_style and msgpack paths are outside the property and excluded',
    'name-based method resolution over python_rsrc is an over-approximation',
]

LIB = {
    'datetime.datetime.strptime': ('TypeError', 'ValueError'),
    'base64.b64decode': ('TypeError', 'binascii.Error', 'ValueError'),
    'json.loads': ('ValueError',),
    'float': ('OverflowError',),
}

CONTAINER_OK = {
    'in': {'dict', 'list', 'tuple', 'str', 'set'},
    'subscript': {'dict'},
    'iter': {'dict', 'list', 'tuple', 'str', 'set'},
    'len': {'dict', 'list', 'tuple', 'str', 'set'},
    'dictmethod': {'dict'},
}


def _container_uses(fnode, name):
    """(op, node) for container operations applied to local ``name``."""
    out = []
    for n in own_nodes(fnode, include_nested=True):
        if isinstance(n, ast.Compare) and len(n.ops) == 1 and \
                isinstance(n.ops[0], (ast.In, ast.NotIn)) and \
                isinstance(n.comparators[0], ast.Name) and n.comparators[0].id == name:
            out.append(('in', n))
        elif isinstance(n, ast.Subscript) and isinstance(n.value, ast.Name) and n.value.id == name:
            out.append(('subscript', n))
        elif isinstance(n, (ast.For, ast.comprehension)) and isinstance(n.iter, ast.Name) and \
                n.iter.id == name:
            out.append(('iter', n))
        elif isinstance(n, ast.Call):
            if isinstance(n.func, ast.Name) and n.func.id in ('len', 'list', 'sorted', 'tuple') \
                    and n.args and isinstance(n.args[0], ast.Name) and n.args[0].id == name:
                out.append(('len' if n.func.id == 'len' else 'iter', n))
            elif isinstance(n.func, ast.Attribute) and isinstance(n.func.value, ast.Name) and \
                    n.func.value.id == name and n.func.attr in ('items', 'keys', 'values', 'get'):
                out.append(('dictmethod', n))
    return out


def _guarded(pi, node, name, op):
    for e, pol in pi.at(node):
        if not pol:
            continue
        if isinstance(e, ast.Call) and isinstance(e.func, ast.Name) and e.func.id == 'isinstance' \
                and len(e.args) == 2 and unparse(e.args[0]) == name:
            c = e.args[1]
            names = [dotted(x) for x in (c.elts if isinstance(c, ast.Tuple) else [c])]
            if names and all(n in CONTAINER_OK[op] for n in names):
                return True
    return False


def run(pm, ctx):
    ctx.rule('C06-R1', 'only ValidationError escapes json_decode / json_compat_obj_decode '
                       '(exception-escape fixpoint); dispatch defaults are dead')
    ctx.rule('C06-R2', 'each container use of the untrusted document is dominated by an '
                       'isinstance guard for a suitable container type (locally or at every call '
                       'site, lifted up to 3 levels)')
    ctx.rule('C06-R3', 'library calls on untrusted scalars are inside a try whose handlers cover '
                       'the library-may-raise set')
    ctx.rule('C06-R4', 'required-field check on every returning path of decode_struct; stores go '
                       'through validating setters')
    ctx.rule('C06-R5', 'string form and object form of a union both reject the catch-all tag')
    ctx.rule('C06-R6', 'callee preconditions relied upon by the decoder hold on every path')
    ctx.rule('C06-R7', 'accepted short forms: bare string only for Void/Nullable tags; missing '
                       'payload key only for nullable members; null for Nullable')

    fam = bv_family(pm)
    dec = {n: pm.func(DEC + '.' + n) for n in NEW_STYLE_DECODERS}
    entry = [pm.func(SER + '.json_decode'), pm.func(SER + '.json_compat_obj_decode')]
    attr_set = pm.func(BASE + '.Attribute.__set__')
    attr_get = pm.func(BASE + '.Attribute.__get__')
    union_init = pm.func(BASE + '.Union.__init__')

    # ---------------- R6: preconditions (decided first; they discharge R1 sites)
    pre_ok = {}

    # P1 get_default only after has_default on the same receiver
    ok_all = True
    n_sites = 0
    for f in dec.values():
        pi = path_info(f.node)
        for c in own_nodes(f.node):
            if isinstance(c, ast.Call) and isinstance(c.func, ast.Attribute) and \
                    c.func.attr == 'get_default':
                n_sites += 1
                recv = unparse(c.func.value)
                g = any(pol and isinstance(e, ast.Call) and isinstance(e.func, ast.Attribute)
                        and e.func.attr == 'has_default' and unparse(e.func.value) == recv
                        for e, pol in pi.at(c))
                ok_all &= ctx.check('C06-R6', g, '%s: %s.get_default() after has_default()' % (
                    f.short, recv), '%s:%d' % (f.module.relpath, c.lineno),
                    msg='get_default() is not dominated by has_default() on the same validator',
                    key='C06-R6|%s|get_default' % f.qualname)
    # pairing of has_default / get_default across the validator classes
    for cname in fam.concrete + sorted(fam.abstract):
        cls = fam.classes[cname]
        if 'has_default' in cls.methods and cname != 'Validator':
            hd = cls.methods['has_default']
            gd = cls.methods.get('get_default')
            good = gd is not None
            if good:
                ret = [n for n in own_nodes(hd.node) if isinstance(n, ast.Return)]
                const_true = len(ret) == 1 and isinstance(ret[0].value, ast.Constant) and \
                    ret[0].value.value is True
                raisers = [n for n in own_nodes(gd.node) if isinstance(n, (ast.Raise, ast.Assert))]
                if const_true:
                    good = not raisers
                else:
                    # the assert in get_default must test exactly has_default's expression
                    good = len(ret) == 1 and all(
                        isinstance(a, ast.Assert) and unparse(a.test) == unparse(ret[0].value)
                        for a in raisers)
            ok_all &= ctx.check('C06-R6', good, 'bv.%s: get_default cannot fail when has_default()'
                                % cname, hd.loc,
                                msg='has_default/get_default of bv.%s disagree' % cname,
                                key='C06-R6|%s|pairing' % cls.qualname)
    pre_ok['get_default'] = ok_all and n_sites >= 1

    # P2..P4 over the paths of decode_union / decode_union_dict
    du, dud = dec['decode_union'], dec['decode_union_dict']

    def tag_known(e, p):
        return p and isinstance(e, ast.Call) and isinstance(e.func, ast.Attribute) and \
            e.func.attr == '_is_tag_present' and e.args and unparse(e.args[0]) == 'tag'

    def is_catch_all(expr):
        return isinstance(expr, ast.Attribute) and expr.attr == '_catch_all'

    dud_paths = [p for p in enumerate_paths(dud.node) if p.end == 'return']
    dud_tag_ok = dud_str_ok = dud_void_ok = True
    for p in dud_paths:
        rv = p.end_node.value
        first = rv.elts[0] if isinstance(rv, ast.Tuple) and rv.elts else rv
        second = rv.elts[1] if isinstance(rv, ast.Tuple) and len(rv.elts) > 1 else None
        known = any(tag_known(e, pol) for e, pol in p.atoms)
        ca = is_catch_all(first)
        dud_tag_ok &= (known and isinstance(first, ast.Name) and first.id == 'tag') or ca
        strok = ca or any(pol and isinstance_of(e, 'tag', {'str'}) for e, pol in p.atoms)
        dud_str_ok &= strok
        void = any(pol and isinstance_of(e, 'val_data_type', {'bv.Void'}) for e, pol in p.atoms)
        if void or ca:
            if isinstance(second, ast.Constant):
                v_none = second.value is None
            else:
                la = last_assign_on_path(p, 'val')
                v_none = la is not None and la[0] == 'value' and \
                    isinstance(la[1], ast.Constant) and la[1].value is None
            dud_void_ok &= v_none
    ctx.check('C06-R6', dud_tag_ok and bool(dud_paths),
              'decode_union_dict returns only a present tag or the catch-all (%d return paths)'
              % len(dud_paths), dud.loc,
              msg='a return path of decode_union_dict yields a tag not proven present',
              key='C06-R6|%s|tag-valid' % dud.qualname)
    ctx.check('C06-R6', dud_str_ok, 'decode_union_dict returns a str tag on every path', dud.loc,
              msg='a return path of decode_union_dict yields a tag not tested to be a string',
              key='C06-R6|%s|tag-str' % dud.qualname)
    ctx.check('C06-R6', dud_void_ok, 'decode_union_dict yields None beside a Void / catch-all tag',
              dud.loc, msg='a Void-typed tag can be returned with a non-None value',
              key='C06-R6|%s|void-none' % dud.qualname)

    du_paths = [p for p in enumerate_paths(du.node) if p.end == 'return']
    du_tag_ok = du_str_ok = du_void_ok = True
    for p in du_paths:
        la = last_assign_on_path(p, 'tag')
        if la is None:
            du_tag_ok = du_str_ok = False
            continue
        if la[0] == 'unpack':
            callee = call_name(la[1]) if isinstance(la[1], ast.Call) else None
            good = callee == 'decode_union_dict' and la[2] == 0
            du_tag_ok &= good and dud_tag_ok
            du_str_ok &= good and dud_str_ok
            lv = last_assign_on_path(p, 'val')
            du_void_ok &= good and lv is not None and lv[0] == 'unpack' and lv[2] == 1 \
                and dud_void_ok
        else:
            v = la[1]
            if is_catch_all(v):
                pass
            else:
                known = any(tag_known(e, pol) for e, pol in p.atoms)
                du_tag_ok &= known and isinstance(v, ast.Name) and v.id == 'obj'
                du_str_ok &= any(pol and isinstance_of(e, 'obj', {'str'}) for e, pol in p.atoms)
            lv = last_assign_on_path(p, 'val')
            du_void_ok &= lv is not None and lv[0] == 'value' and \
                isinstance(lv[1], ast.Constant) and lv[1].value is None
        # the returned object is definition(ensure_str(tag), val)
        rv = p.end_node.value
        shape = isinstance(rv, ast.Call) and isinstance(rv.func, ast.Attribute) and \
            rv.func.attr == 'definition' and len(rv.args) == 2 and \
            isinstance(rv.args[1], ast.Name) and rv.args[1].id == 'val'
        du_tag_ok &= shape
    pre_ok['union_tag'] = ctx.check(
        'C06-R6', du_tag_ok and bool(du_paths),
        'decode_union constructs the union only with a present or catch-all tag (%d paths)'
        % len(du_paths), du.loc,
        msg='decode_union can construct a union with a tag not proven present',
        key='C06-R6|%s|tag-valid' % du.qualname)
    pre_ok['ensure_str'] = ctx.check(
        'C06-R6', du_str_ok, 'decode_union passes only strings to ensure_str', du.loc,
        msg='decode_union can pass a non-string tag to ensure_str',
        key='C06-R6|%s|tag-str' % du.qualname)
    pre_ok['union_void'] = ctx.check(
        'C06-R6', du_void_ok, 'decode_union passes None for tags decoded in the string form and '
        'whatever decode_union_dict paired with the tag otherwise', du.loc,
        msg='decode_union can pass a non-None value for a bare-string tag',
        key='C06-R6|%s|void-none' % du.qualname)

    # P5: tag is a str (hence not None) at _is_tag_present/_get_val_data_type
    tag_nn = True
    for f in (du, dud):
        pi = path_info(f.node)
        for c in own_nodes(f.node):
            if isinstance(c, ast.Call) and isinstance(c.func, ast.Attribute) and \
                    c.func.attr in ('_is_tag_present', '_get_val_data_type'):
                ats = pi.at(c)
                g = any(pol and (isinstance_of(e, 'tag', {'str'}) or
                                 isinstance_of(e, 'obj', {'str'})) for e, pol in ats)
                tag_nn &= ctx.check('C06-R6', g, '%s: %s(tag) with tag a str' % (
                    f.short, c.func.attr), '%s:%d' % (f.module.relpath, c.lineno),
                    msg='tag is not tested to be a string before %s' % c.func.attr,
                    key='C06-R6|%s|%s-str' % (f.qualname, c.func.attr))
    pre_ok['tag_not_none'] = tag_nn

    # ---------------- R1: escape analysis
    cg = CallGraph(pm, scope_modules=[SER, VAL, BASE, HELP], name_based=True)
    excluded = {DEC + '.decode_union_old', SER + '.msgpack_decode', SER + '.msgpack_encode'}

    def stop(f):
        return f.qualname in excluded or f.qualname.startswith(SER + '.StoneTo') or \
            f.qualname.startswith(SER + '.StoneSerializerBase') or \
            f.qualname.startswith(SER + '.StoneEncoderInterface') or \
            f.qualname.startswith(SER + '.CallerPermissionsInterface')

    def extra_edges(f, n):
        if isinstance(n, ast.Call) and isinstance(n.func, ast.Name):
            if n.func.id == 'setattr' and f.qualname.startswith(DEC):
                return [attr_set]
            if n.func.id == 'hasattr':
                return [attr_get]
        if isinstance(n, ast.Call) and isinstance(n.func, ast.Attribute) and \
                n.func.attr == 'definition' and len(n.args) == 2 and f.qualname.startswith(DEC):
            return [union_init]
        return []

    # compute reachable set honouring the extra edges
    reach = {}
    work = list(entry)
    while work:
        f = work.pop()
        if f.qualname in reach or stop(f):
            continue
        reach[f.qualname] = f
        for _, c in cg.callees(f):
            work.append(c)
        for n in own_nodes(f.node):
            for c in extra_edges(f, n):
                work.append(c)
    # validator constructors are never run while decoding
    reach = {q: f for q, f in reach.items()
             if not (f.module.name == VAL and f.name == '__init__')}
    ctx.extra['functions_in_scope'] = len(reach)

    def lib_raises(f, call):
        d = dotted(call.func)
        if d in LIB:
            return LIB[d]
        return ()

    def absorb(f, n):
        if isinstance(n, ast.Call) and isinstance(n.func, ast.Name) and n.func.id == 'hasattr':
            return {'AttributeError'}
        return set()

    def skip_call(f, call):
        nm = call_name(call)
        if nm == 'get_default' and pre_ok.get('get_default'):
            return True
        if nm == 'ensure_str' and pre_ok.get('ensure_str') and f is du:
            return True
        return False

    def assert_policy(f, a):
        t = unparse(a.test)
        if f is union_init:
            if 'validator is not None' in t and pre_ok.get('union_tag'):
                return False
            if 'value is None' in t and pre_ok.get('union_void'):
                return False
        if f.qualname in (BASE + '.Union._is_tag_present', BASE + '.Union._get_val_data_type') \
                and 'tag is not None' in t and pre_ok.get('tag_not_none'):
            return False
        return True

    ea = EscapeAnalysis(pm, cg, reach, lib_raises=lib_raises, assert_policy=assert_policy,
                        extra_edges=extra_edges, absorb=absorb, skip_call=skip_call)
    ea.run()
    ctx.extra['escape_fixpoint_iterations'] = ea.iterations
    ctx.extra['callgraph_unresolved_calls'] = sum(cg.unresolved.get(q, 0) for q in reach)

    # dispatch defaults: prove dead
    dead_sites = set()
    helper = dec['json_compat_obj_decode_helper']
    for s in own_nodes(helper.node):
        if isinstance(s, ast.Raise) and not is_validation_error(pm, helper.module, s):
            classes = reaching_classes(pm, fam, helper, s, 'data_type')
            if ctx.check('C06-R1', not classes,
                         'json_compat_obj_decode_helper default branch is dead (dispatch covers '
                         'all %d validator classes)' % len(fam.concrete),
                         '%s:%d' % (helper.module.relpath, s.lineno),
                         msg='validator classes %s reach the raising default of the decode dispatch'
                         % sorted(classes), key='C06-R1|%s|dispatch-default' % helper.qualname):
                dead_sites.add(id(s))
    for s in own_nodes(dud.node):
        if isinstance(s, ast.Assert) and isinstance(s.test, ast.Constant) and not s.test.value:
            uni = fam.universe() - {'Nullable'}
            classes = reaching_classes(pm, fam, dud, s, 'val_data_type', universe=uni)
            if ctx.check('C06-R1', not classes,
                         'decode_union_dict member-kind dispatch default is dead',
                         '%s:%d' % (dud.module.relpath, s.lineno),
                         msg='member validator classes %s reach assert False' % sorted(classes),
                         key='C06-R1|%s|dispatch-default' % dud.qualname):
                dead_sites.add(id(s))
            # Nullable is excluded from the universe because it was unwrapped
            unwrapped = any(isinstance(n, ast.Assign) and unparse(n.targets[0]) == 'val_data_type'
                            and unparse(n.value) == 'val_data_type.validator'
                            and any(pol and isinstance_of(e, 'val_data_type', {'bv.Nullable'})
                                    for e, pol in path_info(dud.node).at(n))
                            for n in own_nodes(dud.node))
            ctx.check('C06-R1', unwrapped, 'decode_union_dict unwraps Nullable before dispatching',
                      dud.loc, msg='Nullable member validators are not unwrapped before dispatch',
                      key='C06-R1|%s|unwrap' % dud.qualname)

    reported = set()
    for e in entry:
        for exc, site in sorted(ea.escapes[e.qualname].items()):
            o = site.origin()
            if ea.is_sub(exc, 'ValidationError'):
                ctx.ok('C06-R1', '%s: %s may escape (allowed)' % (e.short, exc), o.where,
                       nontrivial=False)
                continue
            if id(o.node) in dead_sites:
                continue
            if o.kind == 'lib' and dotted(o.node.func) != 'float':
                continue  # reported once, by R3, at the call site
            key = 'C06-R1|%s|%s|%s' % (o.func.qualname, exc, _construct(o))
            if key in reported:
                continue
            reported.add(key)
            ctx.violation('C06-R1', key, o.where,
                          '%s can escape %s: raised at %s via %s' % (
                              exc, e.short, _construct(o), ' -> '.join(site.chain())))
    # every explicit site that was discharged counts as an obligation
    n_sites = 0
    for q, f in sorted(reach.items()):
        for s in ea.own_sites(f):
            if s.kind == 'reraise':
                continue
            n_sites += 1
            if ea.is_sub(s.exc, 'ValidationError'):
                ctx.ok('C06-R1', '%s: raise ValidationError' % f.short, s.where, nontrivial=False)
            elif ea.caught_by(f, s.node, s.exc) is not None:
                ctx.ok('C06-R1', '%s: %s caught locally (%s)' % (f.short, s.exc, _construct(s)),
                       s.where)
    ctx.floor('C06-R1', n_sites, 40, 'raise/assert/library sites in the decode scope')

    # ---------------- R2: shape before use
    untrusted = {'decode_struct': 'obj', 'decode_struct_fields': 'obj', 'decode_union': 'obj',
                 'decode_union_dict': 'obj', 'decode_struct_tree': 'obj',
                 'determine_struct_tree_subtype': 'obj', 'decode_list': 'obj',
                 'decode_map': 'obj', 'decode_nullable': 'obj'}
    callers = {}   # callee short name -> list of (caller FuncInfo, call node, arg expr)
    for nm, f in dec.items():
        for c in own_nodes(f.node):
            if isinstance(c, ast.Call) and isinstance(c.func, ast.Attribute) and \
                    isinstance(c.func.value, ast.Name) and c.func.value.id == 'self' and \
                    c.func.attr in untrusted:
                callee = dec[c.func.attr]
                idx = callee.params.index(untrusted[c.func.attr]) - 1
                if idx < len(c.args):
                    callers.setdefault(c.func.attr, []).append((f, c, c.args[idx]))

    def guarded_at_callers(fname, op, depth):
        sites = callers.get(fname, [])
        if not sites or depth <= 0:
            return False
        for caller, call, arg in sites:
            if not isinstance(arg, ast.Name):
                return False
            pi = path_info(caller.node)
            if _guarded(pi, call, arg.id, op):
                continue
            cn = caller.name
            if cn in untrusted and untrusted[cn] == arg.id and \
                    guarded_at_callers(cn, op, depth - 1):
                continue
            return False
        return True

    n_uses = 0
    for fname, pname in untrusted.items():
        f = dec[fname]
        pi = path_info(f.node)
        for op, node in _container_uses(f.node, pname):
            n_uses += 1
            ok = _guarded(pi, node, pname, op) or guarded_at_callers(fname, op, 3)
            ctx.check('C06-R2', ok, '%s: `%s` (%s on untrusted %s)' % (
                f.short, unparse(node)[:60], op, pname),
                '%s:%d' % (f.module.relpath, getattr(node, 'lineno', None) or
                           node.iter.lineno),
                msg='container operation %r on the untrusted document is not dominated by an '
                    'isinstance guard (TypeError on e.g. a number)' % unparse(node)[:80],
                key='C06-R2|%s|%s' % (f.qualname, op))
    ctx.floor('C06-R2', n_uses, 10, 'container uses of the untrusted document')

    # ---------------- R3: library calls inside adequate handlers
    n_lib = 0
    for q, f in sorted(reach.items()):
        for c in own_nodes(f.node):
            if isinstance(c, ast.Call) and dotted(c.func) in LIB:
                d = dotted(c.func)
                if d == 'float':
                    continue  # argument is a number (isinstance-guarded); covered by R1
                n_lib += 1
                missing = [x for x in LIB[d] if ea.caught_by(f, c, x) is None]
                ctx.check('C06-R3', not missing, '%s: %s(...) handlers cover %s' % (
                    f.short, d, list(LIB[d])), '%s:%d' % (f.module.relpath, c.lineno),
                    msg='%s on untrusted input may raise %s which no enclosing handler converts'
                        % (d, missing), key='C06-R3|%s|%s|%s' % (f.qualname, d, ','.join(missing)))
    ctx.floor('C06-R3', n_lib, 3, 'library calls on untrusted data')

    # ---------------- R4: required fields / validating stores
    ds = dec['decode_struct']
    paths = [p for p in enumerate_paths(ds.node) if p.end == 'return']
    n_ins = 0
    for p in paths:
        rv = p.end_node.value
        if isinstance(rv, ast.Name):
            la = last_assign_on_path(p, rv.id)
            is_instance = la is not None and la[0] == 'value' and isinstance(la[1], ast.Call) \
                and isinstance(la[1].func, ast.Attribute) and la[1].func.attr == 'definition'
            if not is_instance:
                continue
            n_ins += 1
            checked = any(isinstance(s, ast.Expr) and isinstance(s.value, ast.Call) and
                          call_name(s.value) in ('validate_fields_only_with_permissions',
                                                 'validate_fields_only') and
                          s.value.args and unparse(s.value.args[0]) == rv.id
                          for s in p.stmts)
            filled = any(isinstance(s, ast.Expr) and isinstance(s.value, ast.Call) and
                         call_name(s.value) == 'decode_struct_fields' for s in p.stmts)
            ctx.check('C06-R4', checked and filled,
                      'decode_struct: path returning the instance passes the required-field check',
                      '%s:%d' % (ds.module.relpath, p.end_node.lineno),
                      msg='a path of decode_struct returns the decoded instance without %s' % (
                          'the required-field check' if not checked else 'decoding its fields'),
                      key='C06-R4|%s|presence' % ds.qualname)
        else:
            # the only other return is the default for a null document
            g = any(pol and isinstance(e, ast.Call) and call_name(e) == 'has_default'
                    for e, pol in p.atoms)
            ctx.check('C06-R4', g and isinstance(rv, ast.Call) and call_name(rv) == 'get_default',
                      'decode_struct: other return is get_default() under has_default()',
                      '%s:%d' % (ds.module.relpath, p.end_node.lineno),
                      msg='decode_struct returns %s without the presence check' % unparse(rv),
                      key='C06-R4|%s|other-return' % ds.qualname)
    ctx.check('C06-R4', n_ins >= 1, 'decode_struct has a path returning the decoded instance',
              ds.loc, msg='no path of decode_struct returns definition()',
              key='C06-R4|%s|shape' % ds.qualname)
    # validate_fields_only_with_permissions -> validate_fields_only -> hasattr per field name
    vfp = pm.func(VAL + '.Struct.validate_fields_only_with_permissions')
    vfo = pm.func(VAL + '.Struct.validate_fields_only')
    ctx.check('C06-R4', any(call_name(c) == 'validate_fields_only' for c in own_nodes(vfp.node)
                            if isinstance(c, ast.Call)),
              'validate_fields_only_with_permissions includes the public presence check', vfp.loc,
              msg='validate_fields_only_with_permissions no longer calls validate_fields_only',
              key='C06-R4|%s|delegates' % vfp.qualname)
    for g in (vfo, vfp):
        loops = [n for n in own_nodes(g.node) if isinstance(n, ast.For)]
        good = False
        for lp in loops:
            src = unparse(lp.iter)
            over_names = '_all_field_names_' in src or 'all_field_names' in src
            tests = [n for n in own_nodes(lp) if isinstance(n, ast.If)]
            for t in tests:
                tt = unparse(t.test)
                if 'hasattr' in tt and tt.startswith('not ') and over_names and \
                        any(isinstance(b, ast.Raise) and is_validation_error(pm, g.module, b)
                            for b in t.body):
                    good = True
        ctx.check('C06-R4', good, '%s raises ValidationError for each absent required field'
                  % g.short, g.loc, msg='%s does not reject a missing field' % g.short,
                  key='C06-R4|%s|loop' % g.qualname)
    # decoded fields go through setattr in decode_struct_fields
    dsf = dec['decode_struct_fields']
    stores = [n for n in own_nodes(dsf.node) if isinstance(n, ast.Call) and
              isinstance(n.func, ast.Name) and n.func.id == 'setattr']
    other = [n for n in own_nodes(dsf.node) if isinstance(n, (ast.Assign, ast.AugAssign)) and
             any(isinstance(t, (ast.Attribute, ast.Subscript))
                 for t in (n.targets if isinstance(n, ast.Assign) else [n.target]))]
    ctx.check('C06-R4', len(stores) >= 1 and not other and
              not any(isinstance(n, ast.Attribute) and n.attr == '__dict__'
                      for n in own_nodes(dsf.node)),
              'decode_struct_fields stores decoded values only with setattr', dsf.loc,
              msg='decode_struct_fields stores a decoded value without the validating setter',
              key='C06-R4|%s|setattr' % dsf.qualname)
    # Attribute.__set__: every path that stores a value other than NOT_SET validated it
    sp = [p for p in enumerate_paths(attr_set.node)]
    good = True
    n_store = 0
    for p in sp:
        for s in p.stmts:
            if isinstance(s, ast.Expr) and isinstance(s.value, ast.Call) and \
                    isinstance(s.value.func, ast.Name) and s.value.func.id == 'setattr' and \
                    len(s.value.args) == 3:
                v = s.value.args[2]
                if isinstance(v, ast.Name) and v.id == 'NOT_SET':
                    continue
                n_store += 1
                validated = any(call_name(c) in ('validate', 'validate_type_only') and c.args
                                and unparse(c.args[0]) == unparse(v)
                                for c in path_calls(p, upto=s))
                good &= validated
    ctx.check('C06-R4', good and n_store >= 2,
              'Attribute.__set__ validates on every path that stores a value (%d storing paths)'
              % n_store, attr_set.loc,
              msg='a path of Attribute.__set__ stores the value without validating it',
              key='C06-R4|%s|validate' % attr_set.qualname)
    up = [p for p in enumerate_paths(union_init.node) if p.end in ('fall', 'return')]
    good = bool(up)
    for p in up:
        validated = any(call_name(c) in ('validate', 'validate_type_only') and c.args and
                        unparse(c.args[0]) == 'value' for c in path_calls(p))
        void = any(pol and isinstance_of(e, 'validator', {'bv.Void'}) for e, pol in p.atoms)
        good &= validated or void
    ctx.check('C06-R4', good, 'Union.__init__ validates every non-Void value (%d paths)' % len(up),
              union_init.loc, msg='a path of Union.__init__ accepts a value without validating it',
              key='C06-R4|%s|validate' % union_init.qualname)

    # ---------------- R5: both forms reject the catch-all tag
    for f in (du, dud):
        pi = path_info(f.node)
        found = False
        for n in own_nodes(f.node):
            if isinstance(n, ast.Raise) and is_validation_error(pm, f.module, n):
                for e, pol in pi.at(n):
                    if pol and isinstance(e, ast.Compare) and isinstance(e.ops[0], ast.Eq) and \
                            {'tag'} <= {unparse(e.left), unparse(e.comparators[0])} and \
                            '_catch_all' in unparse(e):
                        found = True
        ctx.check('C06-R5', found, '%s rejects an explicit catch-all tag' % f.short, f.loc,
                  msg='%s accepts the catch-all tag itself' % f.short,
                  key='C06-R5|%s|catch-all' % f.qualname)

    # ---------------- R7: accepted short forms
    pi = path_info(du.node)
    found = False
    for n in own_nodes(du.node):
        if isinstance(n, ast.Raise) and is_validation_error(pm, du.module, n):
            classes = reaching_classes(pm, fam, du, n, 'val_data_type')
            ctl = getattr(n, '_parent', None)
            if isinstance(ctl, ast.If) and n in ctl.body and \
                    class_test(pm, fam, du.module, ctl.test, 'val_data_type') is not None:
                found = True
                want = fam.universe() - {'Void', 'Nullable'}
                ctx.check('C06-R7', classes == want,
                          'decode_union: bare string rejected exactly for non-Void, non-Nullable '
                          'members', '%s:%d' % (du.module.relpath, n.lineno),
                          msg='bare-string form is rejected for %s and accepted for %s' % (
                              sorted(classes), sorted(fam.universe() - classes)),
                          key='C06-R7|%s|bare-string' % du.qualname)
    ctx.check('C06-R7', found, 'decode_union tests the member kind of a bare-string tag', du.loc,
              msg='decode_union accepts a bare string for any member kind',
              key='C06-R7|%s|bare-string-missing' % du.qualname)
    pi = path_info(dud.node)
    for n in own_nodes(dud.node):
        if isinstance(n, ast.Raise) and isinstance(n.exc, ast.Call) and n.exc.args and \
                'missing' in unparse(n.exc.args[0]) and '.tag' not in unparse(n.exc.args[0]):
            ats = pi.at(n)
            ctx.check('C06-R7', any((not pol) and isinstance(e, ast.Name) and e.id == 'nullable'
                                    for e, pol in ats),
                      'decode_union_dict: missing payload key rejected only for non-nullable '
                      'members', '%s:%d' % (dud.module.relpath, n.lineno),
                      msg='a nullable member without payload key is rejected',
                      key='C06-R7|%s|missing-key' % dud.qualname)
    dn = dec['decode_nullable']
    rets = [n for n in own_nodes(dn.node) if isinstance(n, ast.Return)]
    pi = path_info(dn.node)
    okn = any(isinstance(r.value, ast.Constant) and r.value.value is None and
              any(unparse(e) in ('obj is not None', 'obj is None') and
                  (pol == (unparse(e) == 'obj is None')) for e, pol in pi.at(r))
              for r in rets)
    ctx.check('C06-R7', okn, 'decode_nullable maps null to None', dn.loc,
              msg='decode_nullable does not accept null', key='C06-R7|%s|null' % dn.qualname)
    ctx.rule('C06-R8', 'generated validator constructors carry every declared bound and the Nullable wrap')
    from .C08 import validator_construction
    validator_construction(pm, ctx, 'C06-R8')
    ctx.import_rules(pm, 'C08', {'C08-R6'}, 'C06-R9',
                     'Union.__init__ / Attribute.__set__ validate every value through the member '
                     'validator (shared with C08-R6)')

    # ---------------- R10: what the decoder treats as "may be omitted entirely"
    ctx.rule('C06-R10', 'a struct value may be defaulted (omitted / null accepted) only when it has '
                        'no required field, inherited ones included')
    from ..dataflow import defs as _defs
    g = pm.func('stone.backends.python_types.PythonTypesBackend.'
                '_generate_struct_class_has_required_fields')
    d = _defs(g.node)
    attrs = d.origin_attrs('has_required_fields', depth=4)
    emits = [c for c in own_nodes(g.node) if isinstance(c, ast.Call) and call_name(c) == 'emit' and
             c.args and '_has_required_fields' in unparse(c.args[0]) and
             'has_required_fields' in [x.id for x in ast.walk(c.args[0]) if isinstance(x, ast.Name)]]
    ctx.check('C06-R10', len(emits) == 1 and 'all_required_fields' in attrs and
              not ({'fields', 'required_fields'} & attrs),
              '_has_required_fields is computed from all_required_fields (inherited included)',
              g.loc, msg='_has_required_fields is computed from %s: a struct whose only required '
                         'fields are inherited would be accepted when omitted or null'
                         % sorted(a for a in attrs if 'field' in a),
              key='C06-R10|%s' % g.qualname)
    hd = pm.func(VAL + '.Struct.has_default')
    gd = pm.func(VAL + '.Struct.get_default')
    ctx.check('C06-R10', returns_text(hd.node) == 'not self.definition._has_required_fields',
              'bv.Struct.has_default is the negation of _has_required_fields', hd.loc,
              msg='bv.Struct.has_default changed: %s' % returns_text(hd.node),
              key='C06-R10|%s' % hd.qualname)
    ctx.import_rules(pm, 'C08', {'C08-R10'}, 'C06-R11',
                     'the decoder and the validators refuse under the conditions confirmed on the '
                     'reference tree (shared with C08-R10)')

    unknown_members_per_key(pm, ctx)

    ctx.import_rules(pm, 'C02', {'C02-R5'}, 'C06-R14',
                     'required / optional field listings of the IR are complete, parent first, with '
                     'complementary predicates (shared with C02-R5)')
    ctx.import_rules(pm, 'C02', {'C02-R12'}, 'C06-R15',
                     'the unwrap helpers of the IR peel exactly the wrappers their names say '
                     '(shared with C02-R12)')
    ctx.import_rules(pm, 'C08', {'C08-R9'}, 'C06-R16',
                     "a union's tag table is a fresh table extended by the parent's, never the parent's own table (shared with C08-R9)")
    from ..effects import run_decisions
    from ..ownership import OWN
    run_decisions(pm, ctx, 'C06-RD', OWN['C06'])
    from .. import exprdrift
    exprdrift.run(pm, ctx, 'C06-RE', OWN['C06'])
    from ..effects import run_calls
    run_calls(pm, ctx, 'C06-RC', OWN['C06'])
    from .. import memo
    memo.run(pm, ctx, 'C06-MK', OWN['C06'])
    from .. import interface
    interface.run(pm, ctx, 'C06-RI', OWN['C06'])
    from .. import mutation
    mutation.run(pm, ctx, 'C06-MU', OWN['C06'])
    ctx.import_rules(pm, 'C08', {'C08-R2'}, 'C06-R12',
                     'the validators the decoder relies on check everything declared: bounds, item, '
                     'key and value validators (shared with C08-R2)')

def _construct(site):
    n = site.node
    if isinstance(n, ast.Raise):
        return 'raise ' + (unparse(n.exc.func if isinstance(n.exc, ast.Call) else n.exc)
                           if n.exc is not None else '')
    if isinstance(n, ast.Assert):
        return 'assert ' + unparse(n.test)[:60]
    if isinstance(n, ast.Call):
        return unparse(n.func) + '(...)'
    return type(n).__name__


def unknown_members_per_key(pm, ctx):
    """C06-R13: "no key of the document outside the declared ones" is a
    statement about every key; the refusals that implement it are decided per
    key (inside a loop over the document, reporting the loop variable, or under
    a condition that ranges over the keys: a comprehension, set(...) or any()),
    never by the number of keys alone."""
    from ..conddrift import _subst_text
    ctx.rule('C06-R13', 'the refusals of undeclared keys (unknown field / unexpected key) are '
                        'decided for each key of the document, not from the number of keys')
    n = 0
    for f in pm.funcs_in(SER):
        pi = path_info(f.node)
        for r in own_nodes(f.node):
            if not (isinstance(r, ast.Raise) and r.exc is not None):
                continue
            msg = next((x.value for x in ast.walk(r.exc) if isinstance(x, ast.Constant) and
                        isinstance(x.value, str)), '')
            if not (msg.startswith('unknown field') or msg.startswith('unexpected key')):
                continue
            n += 1
            loops = [l for l in pi.loops_at(r) if isinstance(l, ast.For)]
            loop_vars = {t.id for l in loops for t in ast.walk(l.target) if isinstance(t, ast.Name)}
            reported = {x.id for x in ast.walk(r.exc) if isinstance(x, ast.Name)}
            per_key = bool(loop_vars & reported)
            if not per_key:
                conds = [_subst_text(f, e) for e, _ in pi.at(r)]
                per_key = any((' for ' in c and ' in ' in c) or 'set(' in c or 'any(' in c or
                              'all(' in c for c in conds) and not any(
                                  c.replace(' ', '').startswith('len(') for c in conds)
            ctx.check('C06-R13', per_key, '%s: %r is decided per key' % (f.short, msg[:20]),
                      '%s:%d' % (f.module.relpath, r.lineno),
                      msg='%s refuses %r under a condition that does not range over the keys of '
                          'the document (%s): a document with an undeclared key in place of a '
                          'declared one is accepted' % (
                              f.short, msg[:24], [unparse(e)[:40] for e, _ in pi.at(r)][-2:]),
                      key='C06-R13|%s|%s' % (f.qualname, msg[:14]))
    ctx.floor('C06-R13', n, 3, 'undeclared-key refusal sites')
